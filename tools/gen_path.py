#!/usr/bin/env python3
"""Translator of the Path area (property C19): the path scanners of src/File.cpp.

Reads the bodies of
    File::getDirectoryName  File::getBaseName  File::getStem  File::getExtension  File::isAbsolutePath  File::simplifyPath
out of the CURRENT src/File.cpp (tokenizer + recursive-descent parser + type checker for the C++ subset these bodies are
written in) and writes them, statement by statement, as Lean functions into lean/Nstd/Generated/PathScan.lean, over the
run-time definitions of lean/Nstd/Path/Cxx.lean.  lean/Nstd/Path/PropsScan.lean proves `translated body = model function`
for every string (and every amount of fuel above a linear bound).

Anything outside the understood subset is REFUSED (exception -> the check reports a broken tie): unknown statements, types,
members, operators, backward gotos, reads of possibly unassigned locals, pointers whose base string is not determined
statically, preprocessor lines inside a body.

Semantics of the translation (assumptions, listed in the MANIFEST note)
  locals                      -> fields of one record `St` per function (an inner declaration shadowing an outer name is renamed)
  const String& / String      -> Bytes (List Nat, no NUL byte)
  const char* into String s   -> Int offset relative to s; the base string of every pointer variable is determined statically
                                 (a String used as `const char*` is offset 0 of itself); a pointer initialised with 0 is an
                                 `Option Int` (`!p` = isNone, arithmetic on it is defined only when it is set)
  usize / ssize / int         -> Int; a usize declaration / assignment / cast is DEFINED only for a non-negative value
  *p, p[i]                    -> `cAt s off`, DEFINED only for 0 <= off <= length (the terminator may be read)
  a && b, a || b              -> Bool `&&`/`||`; the definedness of b is demanded only where C++ evaluates b
  every statement             -> first its definedness test (`if !(…) then none else`), then its effect; `none` = the execution
                                 left the modelled behaviour (undefined read, wrapped usize, out of fuel)
  for / while / for(;;)       -> one structurally recursive function per loop, `fuel0 → fuel → St → Option (Exit × St)`
                                 (`Exit.fall` = left by the condition or `break`, `Exit.ret` = `return`, `Exit.jump k` = `goto` of a
                                 label outside the loop); the caller continues according to the exit
  goto L (forward only)       -> the code that follows the label (inlined at the goto when the label is in the same loop body)
  String members              -> Cxx.mk (`String(p, n)`), Cxx.substr, Cxx.cstrEq (`String::compare(p, q) == 0`), `++` (append),
                                 Cxx.resize (shrinking only), `String(n)` (capacity only) = empty
"""
import re
import sys
from pathlib import Path

VERIF = Path(__file__).resolve().parents[1]
OUT = VERIF / "lean" / "Nstd" / "Generated" / "PathScan.lean"


class Refuse(Exception):
    pass


def strip_comments(src):
    out, i, n = [], 0, len(src)
    while i < n:
        c = src[i]
        if c == '"' or c == "'":
            j = i + 1
            while j < n and src[j] != c:
                j += 2 if src[j] == "\\" else 1
            out.append(src[i:j + 1])
            i = j + 1
        elif src.startswith("//", i):
            j = src.find("\n", i)
            i = n if j < 0 else j
        elif src.startswith("/*", i):
            j = src.find("*/", i + 2)
            if j < 0:
                raise Refuse("unterminated comment")
            out.append(" ")
            i = j + 2
        else:
            out.append(c)
            i += 1
    return "".join(out)


TOK = re.compile(r"\s*(\"(?:\\.|[^\"\\])*\"|'(?:\\.|[^'\\])+'|::|->|==|!=|<=|>=|&&|\|\||\+\+|--|[A-Za-z_]\w*|\d+|[{}()\[\];,<>=+\-*/!?:&.~|^%#])")


def tokenize(text, fn):
    toks, pos = [], 0
    text = text.rstrip()
    while pos < len(text):
        m = TOK.match(text, pos)
        if not m:
            raise Refuse(f"{fn}: cannot tokenize at {text[pos:pos + 30]!r}")
        toks.append(m.group(1))
        pos = m.end()
    if "#" in toks:
        raise Refuse(f"{fn}: preprocessor line inside the body")
    return toks


def extract(src, cls, name, ret_rx):
    ms = list(re.finditer(ret_rx + r"\s+" + cls + r"::" + name + r"\s*\(([^)]*)\)\s*\{", src))
    if len(ms) != 1:
        raise Refuse(f"{cls}::{name}: {len(ms)} definitions found, expected exactly one")
    m = ms[0]
    depth, i = 0, m.end() - 1
    while i < len(src):
        if src[i] == "{":
            depth += 1
        elif src[i] == "}":
            depth -= 1
            if depth == 0:
                return m.group(1), src[m.end():i]
        i += 1
    raise Refuse(f"{cls}::{name}: unbalanced braces")


SIMPLE_ESC = {"n": 10, "t": 9, "r": 13, "0": 0, "\\": 92, '"': 34, "'": 39}


def lit_bytes(body, fn):
    out, i = [], 0
    while i < len(body):
        if body[i] != "\\":
            out.append(ord(body[i]))
            i += 1
        else:
            if i + 1 >= len(body) or body[i + 1] not in SIMPLE_ESC:
                raise Refuse(f"{fn}: unknown escape in literal {body!r}")
            out.append(SIMPLE_ESC[body[i + 1]])
            i += 2
    if any(b == 0 or b > 255 for b in out):
        raise Refuse(f"{fn}: NUL / non-byte in literal {body!r}")
    return out


INT_TYPES = {"usize", "ssize", "int", "uint", "int64", "uint64"}


# ---- parser ----------------------------------------------------------------------------------------------------------
class P:
    def __init__(self, toks, fn):
        self.t, self.i, self.fn = toks, 0, fn

    def peek(self, k=0):
        return self.t[self.i + k] if self.i + k < len(self.t) else None

    def eat(self, x=None):
        tok = self.peek()
        if tok is None or (x is not None and tok != x):
            raise Refuse(f"{self.fn}: expected {x!r}, found {tok!r} (token {self.i})")
        self.i += 1
        return tok

    # types: `const char*`, `usize`, `bool`, `String`, `const String&`
    def try_type(self):
        j = self.i
        const = False
        if self.peek() == "const":
            const = True
            self.i += 1
        t = self.peek()
        if t == "char" and self.peek(1) == "*":
            self.i += 2
            if self.peek() == "const":          # `const char* const p`: the pointer itself is not reassigned
                self.i += 1
            return "ptr"
        if t in INT_TYPES:
            self.i += 1
            return "usize" if t in ("usize", "uint", "uint64") else "int"
        if t == "bool":
            self.i += 1
            return "bool"
        if t == "String":
            if self.peek(1) == "&":
                self.i += 2
                return "String"
            if not const and re.fullmatch(r"[A-Za-z_]\w*", self.peek(1) or "") and self.peek(2) in ("=", ";", "("):
                self.i += 1
                return "String"
        self.i = j
        return None

    def stmts(self):
        out = []
        while self.peek() is not None and self.peek() != "}":
            out += self.stmt()
        return out

    def block_or_stmt(self):
        if self.peek() == "{":
            self.eat("{")
            s = self.stmts()
            self.eat("}")
            return s
        return self.stmt()

    def simple(self):
        """assignment / ++ / -- / member call without the ';' -> list of statements"""
        t = self.peek()
        if t in ("++", "--"):
            self.eat()
            v = self.eat()
            return [("assign", v, ("bin", "+" if t == "++" else "-", ("var", v), ("num", 1)))]
        if re.fullmatch(r"[A-Za-z_]\w*", t or ""):
            if self.peek(1) == "=":
                v = self.eat()
                self.eat("=")
                return [("assign", v, self.expr())]
            if self.peek(1) in ("++", "--"):
                v = self.eat()
                op = self.eat()
                return [("assign", v, ("bin", "+" if op == "++" else "-", ("var", v), ("num", 1)))]
            if self.peek(1) == "." and self.peek(3) == "(":
                v = self.eat()
                self.eat(".")
                m = self.eat()
                return [("mcall", v, m, self.args())]
        raise Refuse(f"{self.fn}: statement not understood at {' '.join(self.t[self.i:self.i + 8])!r}")

    def args(self):
        self.eat("(")
        a = []
        if self.peek() != ")":
            a.append(self.expr())
            while self.peek() == ",":
                self.eat(",")
                a.append(self.expr())
        self.eat(")")
        return a

    def stmt(self):
        t = self.peek()
        if t == "{":
            return [("block", self.block_or_stmt())]
        if t == ";":
            self.eat()
            return []
        if t == "if":
            self.eat()
            self.eat("(")
            c = self.expr()
            self.eat(")")
            th = self.block_or_stmt()
            el = []
            if self.peek() == "else":
                self.eat()
                el = self.block_or_stmt()
            return [("if", c, th, el)]
        if t == "while":
            self.eat()
            self.eat("(")
            c = self.expr()
            self.eat(")")
            return [("loop", [], c, [], self.block_or_stmt())]
        if t == "for":
            self.eat()
            self.eat("(")
            init = []
            if self.peek() != ";":
                init = self.simple()
            self.eat(";")
            c = None if self.peek() == ";" else self.expr()
            self.eat(";")
            step = [] if self.peek() == ")" else self.simple()
            self.eat(")")
            return [("loop", init, c, step, self.block_or_stmt())]
        if t == "goto":
            self.eat()
            l = self.eat()
            self.eat(";")
            return [("goto", l)]
        if t == "break":
            self.eat()
            self.eat(";")
            return [("break",)]
        if t == "return":
            self.eat()
            e = self.expr()
            self.eat(";")
            return [("return", e)]
        if re.fullmatch(r"[A-Za-z_]\w*", t or "") and self.peek(1) == ":" and t not in ("default", "case"):
            self.eat()
            self.eat(":")
            return [("label", t)]
        ty = self.try_type()
        if ty is not None:
            name = self.eat()
            if not re.fullmatch(r"[A-Za-z_]\w*", name):
                raise Refuse(f"{self.fn}: declarator {name!r}")
            init, ctor = None, None
            if self.peek() == "=":
                self.eat()
                init = self.expr()
            elif self.peek() == "(":
                if ty != "String":
                    raise Refuse(f"{self.fn}: constructor syntax on {ty}")
                ctor = self.args()
            self.eat(";")
            return [("decl", ty, name, init, ctor)]
        s = self.simple()
        self.eat(";")
        return s

    # expressions
    def expr(self):
        c = self.lor()
        if self.peek() == "?":
            self.eat()
            a = self.expr()
            self.eat(":")
            b = self.expr()
            return ("cond", c, a, b)
        return c

    def lor(self):
        a = self.land()
        while self.peek() == "||":
            self.eat()
            a = ("bin", "||", a, self.land())
        return a

    def land(self):
        a = self.equality()
        while self.peek() == "&&":
            self.eat()
            a = ("bin", "&&", a, self.equality())
        return a

    def equality(self):
        a = self.rel()
        while self.peek() in ("==", "!="):
            op = self.eat()
            a = ("bin", op, a, self.rel())
        return a

    def rel(self):
        a = self.add()
        while self.peek() in ("<", ">", "<=", ">="):
            op = self.eat()
            a = ("bin", op, a, self.add())
        return a

    def add(self):
        a = self.unary()
        while self.peek() in ("+", "-"):
            op = self.eat()
            a = ("bin", op, a, self.unary())
        return a

    def unary(self):
        t = self.peek()
        if t == "!":
            self.eat()
            return ("not", self.unary())
        if t == "*":
            self.eat()
            return ("deref", self.unary())
        if t == "&":
            self.eat()
            e = self.unary()
            if e[0] != "idx":
                raise Refuse(f"{self.fn}: address-of something that is no `p[i]`")
            return ("bin", "+", e[1], e[2])
        if t == "(":
            # cast?
            j = self.i
            self.eat("(")
            ty = self.try_type()
            if ty is None and self.peek() == "const" and self.peek(1) in ("byte", "char"):
                pass
            if ty is not None and self.peek() == ")":
                self.eat(")")
                return ("cast", ty, self.unary())
            self.i = j
        return self.postfix()

    def postfix(self):
        e = self.primary()
        while True:
            t = self.peek()
            if t == "[":
                self.eat()
                i = self.expr()
                self.eat("]")
                e = ("idx", e, i)
            elif t == "." and self.peek(2) == "(":
                self.eat()
                m = self.eat()
                e = ("member", e, m, self.args())
            else:
                return e

    def primary(self):
        t = self.eat()
        if t == "(":
            e = self.expr()
            self.eat(")")
            return e
        if re.fullmatch(r"\d+", t):
            return ("num", int(t))
        if t == "'\\0'":
            return ("chr", 0)
        if t[0] == "'":
            b = lit_bytes(t[1:-1], self.fn)
            if len(b) != 1:
                raise Refuse(f"{self.fn}: character literal {t}")
            return ("chr", b[0])
        if t[0] == '"':
            return ("str", lit_bytes(t[1:-1], self.fn))
        if t in ("true", "false"):
            return ("bool", t)
        if t == "String" and self.peek() == "::":
            self.eat()
            m = self.eat()
            return ("scall", m, self.args())
        if t == "String" and self.peek() == "(":
            return ("ctor", self.args())
        if re.fullmatch(r"[A-Za-z_]\w*", t):
            if self.peek() == "(":
                return ("call", t, self.args())
            return ("var", t)
        raise Refuse(f"{self.fn}: expression not understood at {t!r}")


# ---- helper inlining and normalisation ---------------------------------------------------------------------------
def map_expr(e, f):
    """bottom-up rewrite of an expression tree"""
    k = e[0]
    if k in ("num", "chr", "str", "bool", "var"):
        r = e
    elif k in ("not", "deref"):
        r = (k, map_expr(e[1], f))
    elif k == "bin":
        r = ("bin", e[1], map_expr(e[2], f), map_expr(e[3], f))
    elif k == "idx":
        r = ("idx", map_expr(e[1], f), map_expr(e[2], f))
    elif k == "cast":
        r = ("cast", e[1], map_expr(e[2], f))
    elif k == "member":
        r = ("member", map_expr(e[1], f), e[2], [map_expr(a, f) for a in e[3]])
    elif k in ("scall", "call"):
        r = (k, e[1], [map_expr(a, f) for a in e[2]])
    elif k == "ctor":
        r = ("ctor", [map_expr(a, f) for a in e[1]])
    elif k == "cond":
        r = ("cond", map_expr(e[1], f), map_expr(e[2], f), map_expr(e[3], f))
    else:
        raise Refuse(f"expression kind {k}")
    return f(r)


def map_stmts(stmts, f):
    out = []
    for s in stmts:
        k = s[0]
        if k == "decl":
            out.append(("decl", s[1], s[2], map_expr(s[3], f) if s[3] is not None else None,
                        [map_expr(a, f) for a in s[4]] if s[4] is not None else None))
        elif k == "assign":
            out.append(("assign", s[1], map_expr(s[2], f)))
        elif k == "mcall":
            out.append(("mcall", s[1], s[2], [map_expr(a, f) for a in s[3]]))
        elif k == "if":
            out.append(("if", map_expr(s[1], f), map_stmts(s[2], f), map_stmts(s[3], f)))
        elif k == "loop":
            out.append(("loop", map_stmts(s[1], f), map_expr(s[2], f) if s[2] is not None else None, map_stmts(s[3], f), map_stmts(s[4], f)))
        elif k == "block":
            out.append(("block", map_stmts(s[1], f)))
        elif k == "return":
            out.append(("return", map_expr(s[1], f)))
        else:
            out.append(s)
    return out


def find_helpers(src):
    """`static [inline] bool name(const char* p) { return <expr>; }` anywhere in the file -> {name: (param, expr)}"""
    hs = {}
    for m in re.finditer(r"(?:static\s+)?(?:inline\s+)?bool\s+([A-Za-z_]\w*)\s*\(\s*(?:const\s+)?char\s*\*?\s*([A-Za-z_]\w*)\s*\)\s*\{\s*return\s+([^;{}]*);\s*\}", src):
        name, par, body = m.group(1), m.group(2), m.group(3)
        try:
            pp = P(tokenize(body, name), name)
            e = pp.expr()
            if pp.peek() is not None:
                continue
        except Refuse:
            continue
        hs[name] = (par, e)
    return hs


def flatten_and(e):
    if e[0] == "bin" and e[1] == "&&":
        return flatten_and(e[2]) + flatten_and(e[3])
    return [e]


def norm_index(e):
    """p[i] == c  ->  (p, i, c) with p[0] also written *p"""
    if e[0] == "bin" and e[1] == "==" and e[3][0] == "chr":
        l = e[2]
        if l[0] == "idx" and l[2][0] == "num":
            return l[1], l[2][1], e[3][1]
        if l[0] == "deref":
            return l[1], 0, e[3][1]
    return None


def normalise(e):
    """`x[0] == 'a' && x[1] == 'b' && x[2] == '\\0'` (a C-string comparison written out) -> `String::compare(x, "ab") == 0`;
    `p + 0` -> p"""
    if e[0] == "bin" and e[1] == "&&":
        parts = [norm_index(x) for x in flatten_and(e)]
        if all(x is not None for x in parts) and len(parts) >= 2:
            base = parts[0][0]
            if all(x[0] == base and x[1] == i for i, x in enumerate(parts)) and parts[-1][2] == 0 and all(x[2] != 0 for x in parts[:-1]):
                return ("bin", "==", ("scall", "compare", [base, ("str", [x[2] for x in parts[:-1]])]), ("num", 0))
    if e[0] == "not" and e[1][0] == "bin" and e[1][1] == "==" and e[1][2][0] == "scall":
        return ("bin", "!=", e[1][2], e[1][3])
    if e[0] == "not" and e[1][0] == "bin" and e[1][1] == "!=" and e[1][2][0] == "scall":
        return ("bin", "==", e[1][2], e[1][3])
    return e


def inline_helpers(stmts, helpers, fn):
    def f(e):
        if e[0] == "call" and e[1] in helpers and len(e[2]) == 1:
            par, body = helpers[e[1]]
            arg = e[2][0]
            return map_expr(body, lambda x: arg if x == ("var", par) else normalise(x))
        return normalise(e)
    return map_stmts(stmts, f)


# ---- control-flow normalisation (semantics preserving; the proofs are about the canonical form) ----------------------
NEG = {"<": ">=", ">=": "<", ">": "<=", "<=": ">", "==": "!=", "!=": "=="}


def nnf(e):
    """negation normal form of a condition: `!(a || b)` -> `!a && !b`, `!(a && b)` -> `!a || !b` (the short-circuit
    order is kept), `!(x < y)` -> `x >= y`, `!(x == y)` -> `x != y`, `!!a` -> `a`"""
    if e[0] == "not":
        a = e[1]
        if a[0] == "not":
            return nnf(a[1])
        if a[0] == "bin" and a[1] in ("||", "&&"):
            return ("bin", "&&" if a[1] == "||" else "||", nnf(("not", a[2])), nnf(("not", a[3])))
        if a[0] == "bin" and a[1] in NEG and a[2][0] != "scall" and a[3][0] != "scall":
            return ("bin", NEG[a[1]], a[2], a[3])
        return e
    return e


def has_break(stmts):
    """a `break` that would leave the enclosing loop (breaks of nested loops do not count)"""
    for s in stmts:
        k = s[0]
        if k == "break":
            return True
        if k == "if" and (has_break(s[2]) or has_break(s[3])):
            return True
        if k == "block" and has_break(s[1]):
            return True
    return False


def unblock(stmts):
    return unblock(stmts[0][1]) if len(stmts) == 1 and stmts[0][0] == "block" else stmts


def rotate_loops(stmts):
    """`for(init; ; step) if(A) { B; break; }`  ->  `for(init; !A; step) ;  B`   (B without another break)"""
    out = []
    for s in stmts:
        k = s[0]
        if k == "if":
            out.append(("if", s[1], rotate_loops(s[2]), rotate_loops(s[3])))
        elif k == "block":
            out.append(("block", rotate_loops(s[1])))
        elif k == "loop":
            init, c, step, body = s[1], s[2], s[3], unblock(rotate_loops(s[4]))
            if c is None and len(body) == 1 and body[0][0] == "if" and not body[0][3]:
                th = unblock(body[0][2])
                if th and th[-1] == ("break",) and not has_break(th[:-1]):
                    out.append(("loop", init, nnf(("not", body[0][1])), step, []))
                    out += th[:-1]
                    continue
            out.append(("loop", init, c, step, body))
        else:
            out.append(s)
    return out


def uses_var(e, v):
    found = []
    map_expr(e, lambda x: (found.append(1), x)[1] if x == ("var", v) else x)
    return bool(found)


def stmt_mentions(s, v):
    k = s[0]
    if k == "decl":
        return s[2] == v or (s[3] is not None and uses_var(s[3], v)) or any(uses_var(a, v) for a in (s[4] or []))
    if k == "assign":
        return s[1] == v or uses_var(s[2], v)
    if k == "mcall":
        return s[1] == v or any(uses_var(a, v) for a in s[3])
    if k == "if":
        return uses_var(s[1], v) or any(stmt_mentions(x, v) for x in s[2] + s[3])
    if k == "loop":
        return (s[2] is not None and uses_var(s[2], v)) or any(stmt_mentions(x, v) for x in s[1] + s[3] + s[4])
    if k == "block":
        return any(stmt_mentions(x, v) for x in s[1])
    if k == "return":
        return uses_var(s[1], v)
    return False


def tail_assign_to_goto(stmts, v, label):
    """stmts with every `v = false;` in TAIL position replaced by `goto label;`; None when v is mentioned anywhere else"""
    if not stmts:
        return []
    for s in stmts[:-1]:
        if stmt_mentions(s, v):
            return None
    last = stmts[-1]
    if last == ("assign", v, ("bool", "false")):
        return stmts[:-1] + [("goto", label)]
    if last[0] == "if" and not uses_var(last[1], v):
        a = tail_assign_to_goto(last[2], v, label)
        b = tail_assign_to_goto(last[3], v, label)
        if a is None or b is None:
            return None
        return stmts[:-1] + [("if", last[1], a, b)]
    if last[0] == "block":
        a = tail_assign_to_goto(last[1], v, label)
        return None if a is None else stmts[:-1] + [("block", a)]
    return None if stmt_mentions(last, v) else stmts


def eliminate_flags(stmts, counter):
    """`bool f = true; R…; if(f) { X }  rest`  with f only assigned `false` in tail positions of R (outside loops)
        ->  `R[f = false := goto L]…; { X }  L:  rest`"""
    out = []
    for s in stmts:
        k = s[0]
        if k == "if":
            out.append(("if", s[1], eliminate_flags(s[2], counter), eliminate_flags(s[3], counter)))
        elif k == "block":
            out.append(("block", eliminate_flags(s[1], counter)))
        elif k == "loop":
            out.append(("loop", s[1], s[2], s[3], eliminate_flags(s[4], counter)))
        else:
            out.append(s)
    i = 0
    while i < len(out):
        s = out[i]
        if s[0] == "decl" and s[1] == "bool" and s[3] == ("bool", "true"):
            v = s[2]
            j = next((j for j in range(i + 1, len(out)) if out[j][0] == "if" and out[j][1] == ("var", v) and not out[j][3]), None)
            if j is not None and not any(stmt_mentions(x, v) for x in out[j][2]) and not any(stmt_mentions(x, v) for x in out[j + 1:]):
                counter[0] += 1
                label = f"flag_{counter[0]}"
                region = tail_assign_to_goto(out[i + 1:j], v, label)
                if region is not None:
                    out = out[:i] + region + [("block", out[j][2]), ("label", label)] + out[j + 1:]
                    continue
        i += 1
    return out


def canonical(stmts):
    stmts = map_stmts(stmts, nnf)
    stmts = rotate_loops(stmts)
    return eliminate_flags(stmts, [0])


# ---- renaming of shadowing declarations ------------------------------------------------------------------------------
def rename(stmts, scopes, used, fn):
    """returns stmts with every variable replaced by its unique name"""
    def look(v):
        for s in reversed(scopes):
            if v in s:
                return s[v]
        raise Refuse(f"{fn}: unknown identifier {v!r}")

    def rx(e):
        k = e[0]
        if k == "var":
            return ("var", look(e[1]))
        if k in ("num", "chr", "str", "bool"):
            return e
        if k in ("not", "deref"):
            return (k, rx(e[1]))
        if k == "bin":
            return ("bin", e[1], rx(e[2]), rx(e[3]))
        if k == "idx":
            return ("idx", rx(e[1]), rx(e[2]))
        if k == "cast":
            return ("cast", e[1], rx(e[2]))
        if k == "member":
            return ("member", rx(e[1]), e[2], [rx(a) for a in e[3]])
        if k in ("scall", "call"):
            return (k, e[1], [rx(a) for a in e[2]])
        if k == "ctor":
            return ("ctor", [rx(a) for a in e[1]])
        if k == "cond":
            return ("cond", rx(e[1]), rx(e[2]), rx(e[3]))
        raise Refuse(f"{fn}: expression kind {k}")

    out = []
    for s in stmts:
        k = s[0]
        if k == "decl":
            init = rx(s[3]) if s[3] is not None else None
            ctor = [rx(a) for a in s[4]] if s[4] is not None else None
            if s[2] in scopes[-1]:
                raise Refuse(f"{fn}: {s[2]} declared twice in one scope")
            n, c = s[2], 1
            while n in used:
                c += 1
                n = f"{s[2]}_{c}"
            used.add(n)
            scopes[-1][s[2]] = n
            out.append(("decl", s[1], n, init, ctor))
        elif k == "assign":
            out.append(("assign", look(s[1]), rx(s[2])))
        elif k == "mcall":
            out.append(("mcall", look(s[1]), s[2], [rx(a) for a in s[3]]))
        elif k == "if":
            c = rx(s[1])
            scopes.append({})
            th = rename(s[2], scopes, used, fn)
            scopes.pop()
            scopes.append({})
            el = rename(s[3], scopes, used, fn)
            scopes.pop()
            out.append(("if", c, th, el))
        elif k == "loop":
            scopes.append({})
            init = rename(s[1], scopes, used, fn)
            c = rx(s[2]) if s[2] is not None else None
            step = rename(s[3], scopes, used, fn)
            scopes.append({})
            body = rename(s[4], scopes, used, fn)
            scopes.pop()
            scopes.pop()
            out.append(("loop", init, c, step, body))
        elif k == "block":
            scopes.append({})
            out.append(("block", rename(s[1], scopes, used, fn)))
            scopes.pop()
        elif k == "return":
            out.append(("return", rx(s[1])))
        else:
            out.append(s)
    return out


# ---- typing + definite assignment ------------------------------------------------------------------------------------
class Types:
    """types: 'S' | 'I' | 'U' (usize) | 'B' | 'C' (char) | ('P', base) | ('PN', base)"""

    def __init__(self, fn, params):
        self.fn = fn
        self.ty = dict(params)          # name -> type
        self.order = [p for p, _ in params]
        self.label_in = {}

    def fail(self, msg):
        raise Refuse(f"{self.fn}: {msg}")

    def as_ptr_type(self, e):
        t = self.etype(e)
        if t == "S":
            if e[0] != "var":
                self.fail("a String expression used as a pointer must be a variable")
            return ("P", e[1])
        if isinstance(t, tuple):
            if t[1] is None:
                self.fail("pointer with undetermined base")
            return t
        self.fail(f"pointer expected, found {t}")

    def etype(self, e):
        k = e[0]
        if k == "num":
            return "I"
        if k == "chr":
            return "C"
        if k == "str":
            return "L"
        if k == "bool":
            return "B"
        if k == "var":
            if e[1] not in self.ty:
                self.fail(f"unknown variable {e[1]}")
            return self.ty[e[1]]
        if k == "not":
            t = self.etype(e[1])
            if t in ("B", "I", "U") or (isinstance(t, tuple) and t[0] == "PN"):
                return "B"
            self.fail(f"`!` on {t}")
        if k == "deref":
            self.as_ptr_type(e[1])
            return "C"
        if k == "idx":
            self.as_ptr_type(e[1])
            if self.etype(e[2]) not in ("I", "U"):
                self.fail("index is no integer")
            return "C"
        if k == "cast":
            t = self.etype(e[2])
            if e[1] == "ptr":
                return ("P", self.as_ptr_type(e[2])[1])
            if e[1] in ("usize", "int"):
                if t not in ("I", "U"):
                    self.fail(f"cast of {t} to an integer")
                return "U" if e[1] == "usize" else "I"
            self.fail(f"cast to {e[1]}")
        if k == "bin":
            op = e[1]
            if op in ("&&", "||"):
                for x in (e[2], e[3]):
                    self.cond_type(x)
                return "B"
            if op in ("+", "-"):
                a, b = self.etype(e[2]), self.etype(e[3])
                pa = isinstance(a, tuple) or a == "S"
                pb = isinstance(b, tuple) or b == "S"
                if pa and pb:
                    if op != "-" or self.as_ptr_type(e[2])[1] != self.as_ptr_type(e[3])[1]:
                        self.fail("pointer arithmetic on two pointers of different strings")
                    return "I"
                if pa and b in ("I", "U"):
                    return ("P", self.as_ptr_type(e[2])[1])
                if pb and a in ("I", "U") and op == "+":
                    return ("P", self.as_ptr_type(e[3])[1])
                if a in ("I", "U") and b in ("I", "U"):
                    return "U" if "U" in (a, b) else "I"
                self.fail(f"`{op}` on {a} and {b}")
            if op in ("==", "!=", "<", ">", "<=", ">="):
                if e[2][0] == "scall" or e[3][0] == "scall":
                    sc, z = (e[2], e[3]) if e[2][0] == "scall" else (e[3], e[2])
                    if sc[1] != "compare" or len(sc[2]) != 2 or z != ("num", 0) or op not in ("==", "!="):
                        self.fail("String::compare is understood only as `String::compare(p, q) ==/!= 0`")
                    for x in sc[2]:
                        if x[0] != "str":
                            self.as_ptr_type(x)
                    return "B"
                a, b = self.etype(e[2]), self.etype(e[3])
                pa = isinstance(a, tuple) or a == "S"
                pb = isinstance(b, tuple) or b == "S"
                if pa and pb:
                    ta, tb = self.as_ptr_type(e[2]), self.as_ptr_type(e[3])
                    if ta[1] != tb[1] or ta[0] != "P" or tb[0] != "P":
                        self.fail("comparison of pointers into different strings / of a nullable pointer")
                    return "B"
                if a in ("I", "U") and b in ("I", "U"):
                    return "B"
                if a == "C" and b == "C" and op in ("==", "!="):
                    return "B"
                self.fail(f"`{op}` on {a} and {b}")
            self.fail(f"operator {op}")
        if k == "member":
            if e[1][0] != "var" or self.etype(e[1]) != "S":
                self.fail("member call on something that is no String variable")
            m, a = e[2], e[3]
            if m == "findLast" and len(a) == 1 and a[0][0] == "chr":
                return ("PN", e[1][1])
            if m == "length" and not a:
                return "U"
            if m == "isEmpty" and not a:
                return "B"
            if m == "substr" and len(a) == 2 and all(self.etype(x) in ("I", "U") for x in a):
                return "S"
            self.fail(f"String::{m}/{len(a)} is not understood")
        if k == "ctor":
            a = e[1]
            if len(a) == 0:
                return "S"
            if len(a) == 1 and a[0][0] == "str":
                return "S"
            if len(a) == 2 and self.etype(a[1]) in ("I", "U"):
                self.as_ptr_type(a[0])
                return "S"
            self.fail("String(...) constructor not understood")
        if k == "call":
            return ("CALL", e[1])
        if k == "cond":
            self.cond_type(e[1])
            a, b = self.etype(e[2]), self.etype(e[3])
            if a in ("I", "U") and b in ("I", "U"):
                return "U" if a == "U" and b == "U" else "I"
            self.fail(f"`?:` on {a} and {b}")
        self.fail(f"expression {k}")

    def cond_type(self, e):
        t = self.etype(e)
        if t in ("B", "I", "U") or (isinstance(t, tuple) and t[0] == "PN"):
            return
        self.fail(f"condition of type {t}")

    def reads(self, e, acc):
        k = e[0]
        if k == "var":
            acc.add(e[1])
        elif k in ("not", "deref"):
            self.reads(e[1], acc)
        elif k == "bin":
            self.reads(e[2], acc)
            self.reads(e[3], acc)
        elif k == "idx":
            self.reads(e[1], acc)
            self.reads(e[2], acc)
        elif k == "cast":
            self.reads(e[2], acc)
        elif k == "member":
            self.reads(e[1], acc)
            for a in e[3]:
                self.reads(a, acc)
        elif k in ("scall", "call"):
            for a in e[2]:
                self.reads(a, acc)
        elif k == "ctor":
            for a in e[1]:
                self.reads(a, acc)
        elif k == "cond":
            for a in e[1:]:
                self.reads(a, acc)
        return acc

    def need(self, e, asg):
        if asg is None:
            return
        for v in self.reads(e, set()):
            # a pointer also needs its base string
            t = self.ty.get(v)
            if v not in asg:
                self.fail(f"{v} may be read before it is assigned")
            if isinstance(t, tuple) and t[1] is not None and t[1] not in asg:
                self.fail(f"{v} points into {t[1]}, which may be unassigned")

    def walk(self, stmts, asg, in_loop):
        """forward pass: declares the types, checks definite assignment; asg = set of assigned names or None (unreachable).
        returns the set after the sequence"""
        for s in stmts:
            k = s[0]
            if k == "decl":
                ty, n, init, ctor = s[1], s[2], s[3], s[4]
                self.order.append(n)
                if ty == "ptr":
                    if init is None:
                        self.ty[n] = ("P", None)
                    elif init == ("num", 0):
                        self.ty[n] = ("PN", None)
                        if asg is not None:
                            asg = asg | {n}
                    elif init[0] == "member" and init[2] == "findLast":
                        self.need(init, asg)
                        self.ty[n] = self.etype(init)
                        if asg is not None:
                            asg = asg | {n}
                    else:
                        self.need(init, asg)
                        self.ty[n] = ("P", self.as_ptr_type(init)[1])
                        if asg is not None:
                            asg = asg | {n}
                elif ty in ("usize", "int", "bool"):
                    self.ty[n] = {"usize": "U", "int": "I", "bool": "B"}[ty]
                    if init is not None:
                        self.need(init, asg)
                        t = self.etype(init)
                        if ty == "bool":
                            if t != "B":
                                self.fail(f"bool {n} initialised with {t}")
                        elif t not in ("I", "U"):
                            self.fail(f"{ty} {n} initialised with {t}")
                        if asg is not None:
                            asg = asg | {n}
                elif ty == "String":
                    self.ty[n] = "S"
                    if ctor is not None:
                        if len(ctor) != 1 or self.etype(ctor[0]) not in ("I", "U"):
                            self.fail(f"String {n}(...) is understood only with a capacity")
                        self.need(ctor[0], asg)
                    elif init is not None:
                        self.need(init, asg)
                        if self.etype(init) != "S":
                            self.fail(f"String {n} initialised with something that is no String")
                    if asg is not None:
                        asg = asg | {n}
            elif k == "assign":
                n, e = s[1], s[2]
                self.need(e, asg)
                t = self.ty.get(n)
                if t is None:
                    self.fail(f"assignment to unknown {n}")
                if n in self.order[:self.nparams]:
                    self.fail(f"assignment to the parameter {n}")
                if isinstance(t, tuple):
                    b = self.as_ptr_type(e)
                    if b[0] != "P":
                        self.fail("assignment of a nullable pointer")
                    if t[1] is None:
                        self.ty[n] = (t[0], b[1])
                    elif t[1] != b[1]:
                        self.fail(f"{n} points into {t[1]} and is assigned a pointer into {b[1]}")
                elif t in ("I", "U"):
                    if self.etype(e) not in ("I", "U"):
                        self.fail(f"integer {n} assigned {self.etype(e)}")
                elif t == "B":
                    if self.etype(e) != "B":
                        self.fail(f"bool {n} assigned {self.etype(e)}")
                else:
                    self.fail(f"assignment to {n} of type {t}")
                if asg is not None:
                    asg = asg | {n}
            elif k == "mcall":
                n, m, a = s[1], s[2], s[3]
                if self.ty.get(n) != "S" or n in self.order[:self.nparams]:
                    self.fail(f"{n}.{m}(...): {n} is no local String")
                for x in a:
                    self.need(x, asg)
                if asg is not None and n not in asg:
                    self.fail(f"{n} may be used before it is assigned")
                if m == "resize" and len(a) == 1 and self.etype(a[0]) in ("I", "U"):
                    pass
                elif m == "append" and len(a) == 1 and self.etype(a[0]) in ("C", "S"):
                    pass
                elif m == "append" and len(a) == 2 and self.etype(a[1]) in ("I", "U"):
                    self.as_ptr_type(a[0])
                else:
                    self.fail(f"String::{m}/{len(a)} (statement) is not understood")
            elif k == "if":
                self.need(s[1], asg)
                self.cond_type(s[1])
                a = self.walk(s[2], asg, in_loop)
                b = self.walk(s[3], asg, in_loop)
                asg = b if a is None else a if b is None else a & b
            elif k == "loop":
                asg = self.walk(s[1], asg, in_loop)
                if s[2] is not None:
                    self.need(s[2], asg)
                    self.cond_type(s[2])
                inner = self.walk(s[4], asg, True)
                self.walk(s[3], inner if inner is not None else asg, True)
                # after the loop: what was assigned before it (the body may not have run; `break` sets are supersets)
            elif k == "block":
                asg = self.walk(s[1], asg, in_loop)
            elif k == "goto":
                if asg is not None:
                    cur = self.label_in.get(s[1])
                    self.label_in[s[1]] = asg if cur is None else cur & asg
                asg = None
            elif k == "label":
                if s[1] in self.seen_labels:
                    self.fail(f"label {s[1]} twice")
                self.seen_labels.add(s[1])
                j = self.label_in.get(s[1])
                asg = j if asg is None else asg if j is None else asg & j
            elif k == "return":
                self.need(s[1], asg)
                t = self.etype(s[1])
                if isinstance(t, tuple) and t[0] == "CALL":
                    if self.ret != "S":
                        self.fail("call result returned from a non-String function")
                elif t != self.ret:
                    self.fail(f"return of {t} from a function returning {self.ret}")
                asg = None
            elif k == "break":
                if not in_loop:
                    self.fail("break outside a loop")
                asg = None
            else:
                self.fail(f"statement {k}")
        return asg


# ---- code generation -------------------------------------------------------------------------------------------------
def band(a, b):
    if a is None:
        return b
    if b is None:
        return a
    return f"({a} && {b})"


class Gen:
    def __init__(self, fn, T, ret, known):
        self.fn, self.T, self.ret, self.known = fn, T, ret, known
        self.defs = []
        self.nloop = 0
        self.labels_ids = {}
        self.jumped = set()

    def fail(self, msg):
        raise Refuse(f"{self.fn}: {msg}")

    def v(self, n):
        return f"st.v_{n}"

    # expression -> (lean text, definedness text or None)
    def ptr(self, e):
        """-> (base name, offset text, def)"""
        t = self.T.etype(e)
        if t == "S":
            return e[1], "(0 : Int)", None
        k = e[0]
        if k == "var":
            if t[0] == "PN":
                return t[1], f"({self.v(e[1])}.getD 0)", f"{self.v(e[1])}.isSome"
            return t[1], self.v(e[1]), None
        if k == "cast":
            return self.ptr(e[2])
        if k == "bin":
            a, b = self.T.etype(e[2]), self.T.etype(e[3])
            if isinstance(a, tuple) or a == "S":
                base, o, d = self.ptr(e[2])
                i, di = self.ex(e[3])
                return base, f"({o} {e[1]} {i})", band(d, di)
            base, o, d = self.ptr(e[3])
            i, di = self.ex(e[2])
            return base, f"({i} + {o})", band(di, d)
        self.fail(f"pointer expression {k}")

    def cond(self, e):
        t = self.T.etype(e)
        if t == "B":
            return self.ex(e)
        if t in ("I", "U"):
            x, d = self.ex(e)
            return f"decide ({x} ≠ 0)", d
        if isinstance(t, tuple) and t[0] == "PN" and e[0] == "var":
            return f"{self.v(e[1])}.isSome", None
        self.fail("condition")

    def ex(self, e):
        k = e[0]
        T = self.T
        if k == "num":
            return f"({e[1]} : Int)", None
        if k == "chr":
            return f"({e[1]} : Nat)", None
        if k == "bool":
            return e[1], None
        if k == "var":
            t = T.etype(e)
            if t in ("S", "I", "U", "B"):
                return self.v(e[1]), None
            self.fail(f"variable {e[1]} of type {t} used as a value")
        if k == "not":
            t = T.etype(e[1])
            if isinstance(t, tuple):
                return f"{self.v(e[1][1])}.isNone", None
            c, d = self.cond(e[1])
            return f"(!{c})", d
        if k == "deref":
            b, o, d = self.ptr(e[1])
            return f"cAt {self.v(b)} {o}", band(d, f"inb {self.v(b)} {o}")
        if k == "idx":
            b, o, d = self.ptr(e[1])
            i, di = self.ex(e[2])
            return f"cAt {self.v(b)} ({o} + {i})", band(band(d, di), f"inb {self.v(b)} ({o} + {i})")
        if k == "cast":
            x, d = self.ex(e[2])
            if e[1] == "usize":
                return x, band(d, f"decide ((0 : Int) ≤ {x})")
            return x, d
        if k == "bin":
            op = e[1]
            if op in ("&&", "||"):
                a, da = self.cond(e[2])
                b, db = self.cond(e[3])
                if db is None:
                    d = da
                elif op == "&&":
                    d = band(da, f"(!{a} || {db})")
                else:
                    d = band(da, f"({a} || {db})")
                return f"({a} {op} {b})", d
            if op in ("+", "-"):
                ta, tb = T.etype(e[2]), T.etype(e[3])
                pa = isinstance(ta, tuple) or ta == "S"
                pb = isinstance(tb, tuple) or tb == "S"
                if pa and pb:
                    _, oa, da = self.ptr(e[2])
                    _, ob, db = self.ptr(e[3])
                    return f"({oa} - {ob})", band(da, db)
                if pa or pb:
                    self.fail("pointer used as a value")
                a, da = self.ex(e[2])
                b, db = self.ex(e[3])
                return f"({a} {op} {b})", band(da, db)
            lop = {"==": "=", "!=": "≠", "<": "<", ">": ">", "<=": "≤", ">=": "≥"}[op]
            if e[2][0] == "scall" or e[3][0] == "scall":
                sc = e[2] if e[2][0] == "scall" else e[3]
                parts, d = [], None
                for x in sc[2]:
                    if x[0] == "str":
                        parts.append(f"{x[1]} (0 : Int)")
                    else:
                        b, o, dx = self.ptr(x)
                        parts.append(f"{self.v(b)} {o}")
                        d = band(band(d, dx), f"inb {self.v(b)} {o}")
                t = f"cstrEq {parts[0]} {parts[1]}"
                return (t if op == "==" else f"(!{t})"), d
            ta, tb = T.etype(e[2]), T.etype(e[3])
            if isinstance(ta, tuple) or ta == "S":
                _, a, da = self.ptr(e[2])
                _, b, db = self.ptr(e[3])
            else:
                a, da = self.ex(e[2])
                b, db = self.ex(e[3])
            return f"decide ({a} {lop} {b})", band(da, db)
        if k == "member":
            m, a = e[2], e[3]
            s = self.v(e[1][1])
            if m == "length":
                return f"({s}.length : Int)", None
            if m == "isEmpty":
                return f"{s}.isEmpty", None
            if m == "substr":
                x, dx = self.ex(a[0])
                y, dy = self.ex(a[1])
                return f"substr {s} {x} {y}", band(dx, dy)
        if k == "cond":
            c, dc = self.cond(e[1])
            a, da = self.ex(e[2])
            b, db = self.ex(e[3])
            d = dc if da is None and db is None else band(dc, f"(if {c} then {da or 'true'} else {db or 'true'})")
            return f"(if {c} then {a} else {b})", d
        if k == "ctor":
            a = e[1]
            if len(a) == 0:
                return "([] : Bytes)", None
            if len(a) == 1:
                return f"({a[0][1]} : Bytes)", None
            b, o, d = self.ptr(a[0])
            n, dn = self.ex(a[1])
            return f"mk {self.v(b)} {o} {n}", band(band(d, dn), f"mkOk {self.v(b)} {o} {n}")
        self.fail(f"expression {k}")

    @staticmethod
    def guard(d, lines):
        return ([f"if !({d}) then none else"] if d is not None else []) + lines

    @staticmethod
    def ind(lines):
        return ["  " + l for l in lines]

    def seq(self, stmts, K, ctx):
        """code of `stmts` followed by the code K; ctx = {'labels': {name: lines}, 'brk': lines or None}"""
        ctx = dict(ctx)
        ctx["labels"] = dict(ctx["labels"])
        for s in reversed(stmts):
            if s[0] == "label":
                if ctx.get("top"):
                    # a label of the function level: its continuation becomes a definition of its own
                    name = f"{self.fn}_at_{s[1]}"
                    self.defs.append([f"def {name} (fuel0 : Nat) (st : St) : Option (Exit × St) :="] + self.ind(K) + [""])
                    K = [f"{name} fuel0 st"]
                ctx["labels"][s[1]] = K
            else:
                K = self.stmt(s, K, ctx)
        return K

    def setfield(self, n, val):
        return f"let st := {{ st with v_{n} := {val} }}"

    def stmt(self, s, K, ctx):
        k = s[0]
        T = self.T
        if k == "decl":
            ty, n, init, ctor = s[1], s[2], s[3], s[4]
            if ty == "ptr":
                if init is None:
                    return K
                if init == ("num", 0):
                    return [self.setfield(n, "none")] + K
                if init[0] == "member" and init[2] == "findLast":
                    return [self.setfield(n, f"findLast {self.v(init[1][1])} {init[3][0][1]}")] + K
                _, o, d = self.ptr(init)
                return self.guard(d, [self.setfield(n, o)] + K)
            if ty == "String":
                if ctor is not None:
                    _, d = self.ex(ctor[0])
                    return self.guard(d, [self.setfield(n, "[]")] + K)
                if init is None:
                    return [self.setfield(n, "[]")] + K
            if init is None:
                return K
            return self.stmt(("assign", n, init), K, ctx)
        if k == "assign":
            n, e = s[1], s[2]
            t = T.ty[n]
            if isinstance(t, tuple):
                _, o, d = self.ptr(e)
                return self.guard(d, [self.setfield(n, f"some {o}" if t[0] == "PN" else o)] + K)
            x, d = self.ex(e)
            if t == "U":
                d = band(d, f"decide ((0 : Int) ≤ {x})")
            return self.guard(d, [self.setfield(n, x)] + K)
        if k == "mcall":
            n, m, a = s[1], s[2], s[3]
            if m == "resize":
                x, d = self.ex(a[0])
                d = band(d, f"(decide ((0 : Int) ≤ {x}) && decide ({x} ≤ ({self.v(n)}.length : Int)))")
                return self.guard(d, [self.setfield(n, f"resize {self.v(n)} {x}")] + K)
            if len(a) == 1:
                x, d = self.ex(a[0])
                val = f"{self.v(n)} ++ [{x}]" if T.etype(a[0]) == "C" else f"{self.v(n)} ++ {x}"
                return self.guard(d, [self.setfield(n, val)] + K)
            b, o, d = self.ptr(a[0])
            x, dx = self.ex(a[1])
            d = band(band(d, dx), f"mkOk {self.v(b)} {o} {x}")
            return self.guard(d, [self.setfield(n, f"{self.v(n)} ++ mk {self.v(b)} {o} {x}")] + K)
        if k == "block":
            return self.seq(s[1], K, ctx)
        if k == "if":
            c, d = self.cond(s[1])
            th = self.seq(s[2], K, ctx)
            el = self.seq(s[3], K, ctx)
            return self.guard(d, [f"if {c} then"] + self.ind(th) + ["else"] + self.ind(el))
        if k == "return":
            e = s[1]
            if e[0] == "call":
                if e[1] not in self.known:
                    self.fail(f"call of {e[1]}, which is not a translated function")
                args, d = [], None
                for a in e[2]:
                    x, dx = self.ex(a)
                    if T.etype(a) != "S":
                        self.fail("argument of a call is no String")
                    args.append(x)
                    d = band(d, dx)
                if len(args) != self.known[e[1]]:
                    self.fail(f"call of {e[1]} with {len(args)} arguments")
                return self.guard(d, [f"match {e[1]} fuel0 {' '.join(args)} with", "| none => none",
                                      "| some r => some (Exit.ret, { st with ret := r })"])
            x, d = self.ex(e)
            return self.guard(d, [f"some (Exit.ret, {{ st with ret := {x} }})"])
        if k == "break":
            return ctx["brk"]
        if k == "goto":
            l = s[1]
            if l in ctx["labels"]:
                return ctx["labels"][l]
            if l not in self.T.seen_labels:
                self.fail(f"goto {l}: no such label")
            lid = self.labels_ids.setdefault(l, len(self.labels_ids) + 1)
            self.jumped.add(l)
            return [f"some (Exit.jump {lid}, st)"]
        if k == "loop":
            init, c, step, body = s[1], s[2], s[3], s[4]
            self.nloop += 1
            name = f"{self.fn}_loop{self.nloop}"
            rec = [f"{name} fuel0 fuel st"]
            inner_ctx = {"labels": {}, "brk": ["some (Exit.fall, st)"], "top": False}
            outer_jumped, self.jumped = self.jumped, set()
            stepk = self.seq(step, rec, inner_ctx)
            bodyk = self.seq(body, stepk, inner_ctx)
            if c is not None:
                cc, d = self.cond(c)
                code = self.guard(d, [f"if {cc} then"] + self.ind(bodyk) + ["else", "  some (Exit.fall, st)"])
            else:
                code = bodyk
            # labels jumped to from inside this loop are known only now
            self.defs.append([f"def {name} (fuel0 : Nat) : Nat → St → Option (Exit × St)", "  | 0, _ => none", "  | fuel + 1, st =>"]
                             + ["    " + l for l in code] + [""])
            call = [f"match {name} fuel0 fuel0 st with", "| none => none", "| some (Exit.fall, st) =>"] + self.ind(K)
            mine, self.jumped = self.jumped, outer_jumped
            for l, lid in sorted(self.labels_ids.items(), key=lambda x: x[1]):
                if l not in mine:
                    continue
                if l not in ctx["labels"]:
                    self.jumped.add(l)      # handed on to the caller of the enclosing loop
                else:
                    call += [f"| some (Exit.jump {lid}, st) =>"] + self.ind(ctx["labels"][l])
            call += ["| some r => some r"]
            return self.seq(init, call, ctx)
        self.fail(f"statement {k}")


FUNCS = [
    # name, return regex, return type, must translate (else: a refusal is recorded and the model function stands in)
    ("getDirectoryName", r"String", "S", True),
    ("getBaseName", r"String", "S", True),
    ("getStem", r"String", "S", True),
    ("getExtension", r"String", "S", True),
    ("isAbsolutePath", r"bool", "B", True),
    ("simplifyPath", r"String", "S", True),
]
LEAN_TY = {"S": "Bytes", "I": "Int", "U": "Int", "B": "Bool"}


def parse_params(text, fn):
    ps = []
    for p in [x.strip() for x in text.split(",") if x.strip()]:
        m = re.fullmatch(r"const\s+String\s*&\s*([A-Za-z_]\w*)", p)
        if not m:
            raise Refuse(f"{fn}: parameter {p!r} is not `const String& name`")
        ps.append((m.group(1), "S"))
    return ps


def translate_function(src, name, ret_rx, ret, known):
    fn = name
    ptext, body = extract(src, "File", name, ret_rx)
    params = parse_params(ptext, fn)
    p = P(tokenize(body, fn), fn)
    stmts = p.stmts()
    if p.peek() is not None:
        raise Refuse(f"{fn}: trailing tokens")
    stmts = canonical(inline_helpers(stmts, find_helpers(src), fn))
    used = {n for n, _ in params} | {"ret"}
    stmts = rename(stmts, [dict((n, n) for n, _ in params), {}], used, fn)
    T = Types(fn, params)
    T.nparams = len(params)
    T.ret = ret
    T.seen_labels = set()
    end = T.walk(stmts, {n for n, _ in params}, False)
    if end is not None:
        raise Refuse(f"{fn}: the end of the body can be reached without a return")
    for n, t in T.ty.items():
        if isinstance(t, tuple) and t[1] is None:
            raise Refuse(f"{fn}: pointer {n} is never given a base string")
    g = Gen(fn, T, ret, known)
    code = g.seq(stmts, ["some (Exit.fall, st)"], {"labels": {}, "brk": None, "top": True})
    fields = []
    inits = []
    for n in T.order:
        t = T.ty[n]
        if isinstance(t, tuple):
            lt, dv = ("Option Int", "none") if t[0] == "PN" else ("Int", "0")
        else:
            lt, dv = LEAN_TY[t], {"S": "[]", "I": "0", "U": "0", "B": "false"}[t]
        fields.append(f"  v_{n} : {lt}")
        inits.append(f"v_{n} := " + (f"v_{n}" if n in [q for q, _ in params] else dv))
    rt = LEAN_TY[ret]
    fields.append(f"  ret : {rt}")
    inits.append("ret := " + ("[]" if ret == "S" else "false"))
    out = [f"/-! ### File::{name} -/", f"namespace {name}", "", "structure St where"] + fields + ["", ]
    for d in g.defs:
        out += d
    out += [f"end {name}", "", f"open {name} in",
            f"def {name} (fuel0 : Nat) " + " ".join(f"(v_{n} : Bytes)" for n, _ in params) + f" : Option {rt} :=",
            "  let st : St := { " + ", ".join(inits) + " }",
            "  match ("] + ["    " + l for l in code] + ["  ) with", "  | some (Exit.ret, st) => some st.ret", "  | _ => none", ""]
    nst = sum(1 for _ in re.finditer(r";", body))
    return out, len(params), f"{name}: {nst} statements, {g.nloop} loops"


OUT_CUR = VERIF / "lean" / "Nstd" / "Generated" / "PathScanCur.lean"
PROVED_DIR = VERIF / "tools" / "gen_path_proved"
NPAR = {"getDirectoryName": 1, "getBaseName": 2, "getStem": 2, "getExtension": 1, "isAbsolutePath": 1, "simplifyPath": 1}
LAST_LEVELS = {}


def canon_text(lines):
    """the generated text of one function with its locals renamed by position (renamed locals do not matter)"""
    text = "\n".join(l.rstrip() for l in lines).strip()
    names, inside = [], False
    for l in text.split("\n"):
        if l.startswith("structure St where"):
            inside = True
        elif inside:
            m = re.match(r"  v_(\w+) : ", l)
            if m:
                names.append(m.group(1))
            elif not l.startswith("  "):
                break
    for k, n in sorted(enumerate(names), key=lambda x: -len(x[1])):
        text = re.sub(r"\bv_" + re.escape(n) + r"\b", f"v#{k}", text)
    return text


def qualify(lines, ns):
    rx = r"\bmatch (" + "|".join(NPAR) + r") fuel0"
    return [re.sub(rx, lambda m: f"match Nstd.Generated.{ns}.{m.group(1)} fuel0", l) for l in lines]


def stand_in(name, ret, reason):
    args = " ".join(f"(a{k} : Bytes)" for k in range(NPAR[name]))
    call = " ".join(f"a{k}" for k in range(NPAR[name]))
    return [f"/-! ### File::{name}: NOT translated ({reason.replace('-/', '- /')}) - the model function stands in -/",
            f"def {name} (fuel0 : Nat) {args} : Option {LEAN_TY[ret]} := some (Nstd.Path.{name} {call})", ""]


def generate(repo, out_path=OUT, cur_path=None, record=False):
    """Writes two files (only when the content changes) and returns a one-line summary.

    out_path (Generated/PathScan.lean): per function the translation of the CURRENT body when it is (up to the names of
        locals) the program text the proofs of Nstd/Path/PropsScan.lean were written for, else that PROVED text
        (tools/gen_path_proved/<function>.lean.txt) with `<function>_isCurrent := false`;
    cur_path (Generated/PathScanCur.lean): the translation of the CURRENT body whenever the translator understands it
        (bounded kernel checks of Nstd/Path/PropsScanCur.lean), else the model function as a stand-in.
    LAST_LEVELS[function] = how the current text of the function is tied: "proved" | "bounded…" | "run only…".
    `record=True` stores the current translations as the proved texts (maintenance, after the proofs were adapted)."""
    if cur_path is None:
        cur_path = OUT_CUR if Path(out_path) == OUT else Path(str(out_path) + ".cur")
    src = strip_comments((Path(repo) / "src/File.cpp").read_text(errors="replace"))
    def head(ns, what):
        return [f"/- generated by tools/gen_path.py from src/File.cpp - do not edit ({what}) -/", "import Nstd.Path.Cxx", "",
                "set_option linter.unusedVariables false", "", f"namespace Nstd.Generated.{ns}", "open Nstd.Path", "open Nstd.Path.Cxx", ""]
    scan = head("PathScan", "per function: the current body when it is the text the proofs are about, else the proved text")
    cur = head("PathScanCur", "the current bodies as far as the translator understands them")
    summary = []
    LAST_LEVELS.clear()
    for name, ret_rx, ret, must in FUNCS:
        lines, reason = None, ""
        try:
            earlier = {n: NPAR[n] for n, *_ in FUNCS[:[f[0] for f in FUNCS].index(name)]}
            lines, npar, sm = translate_function(src, name, ret_rx, ret, earlier)
        except Refuse as e:
            reason, sm = str(e), f"{name}: REFUSED ({e})"
        pf = PROVED_DIR / f"{name}.lean.txt"
        if record and lines is not None:
            PROVED_DIR.mkdir(parents=True, exist_ok=True)
            pf.write_text("\n".join(lines))
        if not pf.exists():
            raise Refuse(f"{name}: no proved text recorded ({pf})")
        proved = pf.read_text().split("\n")
        if lines is not None and canon_text(lines) == canon_text(proved):
            scan += qualify(lines, "PathScan") + [f"def {name}_isCurrent : Bool := true", ""]
            cur += qualify(lines, "PathScanCur")
            LAST_LEVELS[name] = "proved"
        else:
            scan += qualify(proved, "PathScan") + [f"def {name}_isCurrent : Bool := false", ""]
            if lines is not None:
                cur += qualify(lines, "PathScanCur")
                LAST_LEVELS[name] = "bounded kernel check of the current translation + correspondence run (the current text is not the proved one)"
                sm += " [NOT the proved text]"
            else:
                cur += stand_in(name, ret, reason)
                LAST_LEVELS[name] = f"correspondence run only (translator refuses the current text: {reason})"
        summary.append(sm)
    scan += ["end Nstd.Generated.PathScan", ""]
    cur += ["end Nstd.Generated.PathScanCur", ""]
    for path_, parts in ((out_path, scan), (cur_path, cur)):
        text = "\n".join(parts)
        path_ = Path(path_)
        path_.parent.mkdir(parents=True, exist_ok=True)
        if not path_.exists() or path_.read_text() != text:
            path_.write_text(text)
    return "; ".join(summary)


if __name__ == "__main__":
    args = [a for a in sys.argv[1:] if a != "--record"]
    repo = args[0] if args else "/repo"
    out = args[1] if len(args) > 1 else str(OUT)
    try:
        print(generate(repo, out, record="--record" in sys.argv))
        for k, v in LAST_LEVELS.items():
            print(f"  {k}: {v}")
    except Refuse as e:
        print("REFUSED:", e)
        sys.exit(1)
