#!/usr/bin/env python3
"""Prepare a harmless-change round: for each property a scratch worktree of /repo HEAD and a prompt for a fresh
sub-agent that is given ONLY the text of the property and asked for THREE changes that KEEP the property true
(realistic refactorings of the anchored code).  They measure false alarms of the checks.

  harmround.py prepare <round> [Cxx ...]   -> /tmp/harm<round>-Cxx (worktree), /tmp/harm<round>-Cxx-out/PROMPT.md
  harmround.py cleanup <round> [Cxx ...]
"""
import json
import shutil
import subprocess
import sys
from pathlib import Path

VERIF = Path(__file__).resolve().parents[1]

TEMPLATE = """You are working on the C++ library craflin/libnstd (a cross-platform STL-replacement library).
Your own scratch git worktree of it is `{wt}` (its HEAD is the current state of the library).  Work ONLY inside
`{wt}` and your output directory `{out}`.  The directories /repo and /verif are off limits: do not read,
list or write anything there.  Never use `git stash` (it is shared between worktrees).

## The property

The library is supposed to satisfy the following semantic property (JSON, with anchors into the source):

```json
{prop}
```

## Your task

Write THREE independent changes to the library (each one a separate patch against the HEAD of your worktree) to the
code this property is anchored in, each of which **keeps the property true**: realistic maintenance edits that a
reviewer would accept as behaviour-preserving with respect to everything the property states.  Aim each at a
DIFFERENT anchored mechanism and make them of different kinds:

1. `structural` — a real restructuring of the control flow of one anchored mechanism (loop shape, early returns,
   extracted private helper, merged/split branches, goto <-> loop, recursion <-> iteration), not only renaming;
2. `performance` — an optimisation or a changed internal policy that is NOT observable through what the property
   states (e.g. a fast path, a different but still valid growth policy or internal order of independent steps,
   avoiding a redundant operation);
3. `defensive` — clean-up / hardening (const-correctness, local renames, asserts, re-ordered independent
   statements, de-duplicated code, clearer arithmetic) touching several functions.

Each change must be non-trivial (at least ~15 changed lines in the anchored code) and must compile; the
repository's existing test suite must still pass unchanged
(`cmake -G Ninja -S {wt} -B {wt}/_b -DCMAKE_BUILD_TYPE=Debug && cmake --build {wt}/_b -j8 && ctest --test-dir {wt}/_b -j8 --timeout 900`
must report `100% tests passed, 0 tests failed out of 34`).  Convince yourself that the property still holds: write
a differential check program (`check.cpp`, C headers only — a translation unit that includes nstd headers cannot
include C++ standard library headers such as <new>, <vector>, <string>) that exercises the changed mechanism
thoroughly against a simple reference or against recorded outputs, build it with
`g++ -std=gnu++11 -g -fsanitize=address,undefined -fno-sanitize-recover=all -I{wt}/include check.cpp {wt}/src/*.cpp {wt}/src/*/*.cpp -lpthread -ldl -o check`
and make sure it passes before AND after each change with identical printed results.

For each change i (1, 2, 3) deliver in `{out}/harm_i/`:
* `patch.diff` — `git diff` against HEAD; must apply with `git apply` to a clean checkout of HEAD; only library
  sources (include/, src/) may change — not the tests;
* `meta.json` — `{{"property": "{pid}", "kind": "structural|performance|defensive", "summary": "<what the change does>",
  "why_harmless": "<why everything the property states is unchanged>", "tests": "<what you ran and the results>"}}`.

Leave the worktree clean (no applied patch) and delete `{wt}/_b` and built binaries at the end.  Your final message:
three short paragraphs (one per change).
"""


def sh(cmd):
    return subprocess.run(cmd, stdout=subprocess.PIPE, stderr=subprocess.STDOUT, text=True)


def main():
    cmd, rnd = sys.argv[1], sys.argv[2]
    P = {}
    for line in (VERIF / "properties.jsonl").read_text().splitlines():
        if line.strip():
            p = json.loads(line)
            P[p["id"]] = p
    for pid in sys.argv[3:] or sorted(P):
        wt, out = Path(f"/tmp/harm{rnd}-{pid}"), Path(f"/tmp/harm{rnd}-{pid}-out")
        if cmd == "prepare":
            if not wt.exists():
                r = sh(["git", "-C", "/repo", "worktree", "add", "--detach", str(wt), "HEAD"])
                if r.returncode:
                    print(r.stdout)
                    continue
            out.mkdir(exist_ok=True)
            (out / "PROMPT.md").write_text(TEMPLATE.format(wt=wt, out=out, pid=pid, prop=json.dumps(P[pid], indent=1)))
            print(pid, "prepared")
        else:
            sh(["git", "-C", "/repo", "worktree", "remove", "--force", str(wt)])
            shutil.rmtree(wt, ignore_errors=True)
            shutil.rmtree(out, ignore_errors=True)
            print(pid, "removed")
    sh(["git", "-C", "/repo", "worktree", "prune"])


if __name__ == "__main__":
    main()
