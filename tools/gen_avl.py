#!/usr/bin/env python3
"""Translator for the pointer code of the AVL rotations of Map.hpp / MultiMap.hpp (property C01).

Extracts the bodies of `Item::updateHeightAndSlope`, `rotr`, `rotl`, `shiftr`, `shiftl` and `rebal` from the CURRENT
headers (tokenizer + recursive-descent parser for the C++ subset these functions are written in), type-checks them
against the field declarations of `struct Item` (also read from the header) and writes them as Lean functions over the
record-of-nodes heap of lean/Nstd/Avl/Heap.lean into lean/Nstd/Generated/AvlRot.lean.  Props.lean proves that the
generated functions are the model's `upd/rotr/rotl/shiftr/shiftl/rebal` on the abstraction (`Repr`).

Anything outside the understood subset is REFUSED (exception -> the check reports a broken tie): unknown statements,
unknown fields or members, loops, pointer arithmetic, address-of, calls to other functions, assignments inside
expressions other than `if((lvalue = pointer))`, type mismatches (e.g. an `ssize` value stored into a `usize`).

Semantics of the translation (the assumptions are listed in the MANIFEST note):
  Item*            -> Nat, 0 = null, the item with id i is pointer i+1
  Item*& / lvalue  -> Heap.Cell (root | left p | right p)
  usize            -> Nat (no overflow: heights are < 2^63)
  ssize            -> Int; `usize - usize` stored into an ssize is the mathematical difference (exact while |difference| < 2^63)
  ASSERT(e)        -> skipped (must be free of assignments / increments)
"""
import re
import sys
from pathlib import Path

FUNCS = ["updateHeightAndSlope", "rotr", "rotl", "shiftr", "shiftl", "rebal"]
HEADERS = {"Map": "include/nstd/Map.hpp", "Multi": "include/nstd/MultiMap.hpp"}
FIELD_TYPES = {"Item*": "ptr", "usize": "usize", "ssize": "ssize"}
HEAP_FIELDS = {"parent": "ptr", "left": "ptr", "right": "ptr", "height": "usize", "slope": "ssize"}   # what Heap.lean offers


class Refuse(Exception):
    pass


def strip_comments(src):
    src = re.sub(r"/\*.*?\*/", " ", src, flags=re.S)
    return re.sub(r"//[^\n]*", "", src)


TOK = re.compile(r"\s*(->|==|!=|<=|>=|&&|\|\||\+\+|--|[A-Za-z_]\w*|\d+|[{}()\[\];,<>=+\-*/!?:&.~|^%])")


def tokenize(text):
    toks, pos = [], 0
    text = text.rstrip()
    while pos < len(text):
        m = TOK.match(text, pos)
        if not m:
            if text[pos:].strip() == "":
                break
            raise Refuse(f"cannot tokenize at {text[pos:pos + 30]!r}")
        toks.append(m.group(1))
        pos = m.end()
    return toks


def balanced(src, start, open_ch="{", close_ch="}"):
    """index just behind the bracket that closes the one at `start`"""
    depth = 0
    for i in range(start, len(src)):
        if src[i] == open_ch:
            depth += 1
        elif src[i] == close_ch:
            depth -= 1
            if depth == 0:
                return i + 1
    raise Refuse("unbalanced brackets")


def extract(src, name):
    """(return type, static?, parameter text, body text) of the single definition of `name`"""
    rx = re.compile(r"(static\s+)?(void|Item\s*\*)\s+" + name + r"\s*\(([^)]*)\)\s*\{")
    ms = list(rx.finditer(src))
    if len(ms) != 1:
        raise Refuse(f"{name}: {len(ms)} definitions found, expected exactly one")
    m = ms[0]
    end = balanced(src, m.end() - 1)
    return re.sub(r"\s+", "", m.group(2)), bool(m.group(1)), m.group(3), src[m.end():end - 1], m.start()


def item_fields(src):
    m = re.search(r"struct\s+Item\s*\{", src)
    if not m:
        raise Refuse("struct Item not found")
    end = balanced(src, m.end() - 1)
    body = src[m.end():end - 1]
    # drop member functions / constructors (anything with a brace body)
    out, i = "", 0
    while i < len(body):
        if body[i] == "{":
            j = balanced(body, i)
            # remove the declarator that precedes the body, back to the previous ';' or '}'
            k = max(out.rfind(";"), out.rfind("}"))
            out = out[:k + 1]
            i = j
        else:
            out += body[i]
            i += 1
    fields = {}
    for decl in out.split(";"):
        d = decl.strip()
        if not d:
            continue
        m2 = re.fullmatch(r"(const\s+)?(\w+)\s*(\*?)\s*(\w+)", d)
        if not m2:
            raise Refuse(f"struct Item: cannot read the member declaration {d!r}")
        fields[m2.group(4)] = (m2.group(2) + m2.group(3), bool(m2.group(1)))
    return fields, (m.start(), end)


# ---- parser ------------------------------------------------------------------------------------------------------
class P:
    def __init__(self, toks, fn):
        self.t, self.i, self.fn = toks, 0, fn

    def peek(self, k=0):
        return self.t[self.i + k] if self.i + k < len(self.t) else None

    def eat(self, x=None):
        tok = self.peek()
        if tok is None or (x is not None and tok != x):
            raise Refuse(f"{self.fn}: expected {x!r}, found {tok!r} (token {self.i})")
        self.i += 1
        return tok

    # statements
    def block_items(self):
        items = []
        while self.peek() is not None and self.peek() != "}":
            items.append(self.stmt())
        return items

    def stmt(self):
        tok = self.peek()
        if tok == "{":
            self.eat("{")
            b = self.block_items()
            self.eat("}")
            return ("block", b)
        if tok == "if":
            self.eat("if"); self.eat("(")
            c = self.expr()
            self.eat(")")
            a = self.stmt()
            b = ("block", [])
            if self.peek() == "else":
                self.eat("else")
                b = self.stmt()
            return ("if", c, a, b)
        if tok == "return":
            self.eat("return")
            if self.peek() == ";":
                self.eat(";")
                return ("return", None)
            e = self.expr()
            self.eat(";")
            return ("return", e)
        if tok == "ASSERT":
            self.eat("ASSERT")
            depth, inner = 0, []
            while True:
                x = self.eat()
                if x == "(":
                    depth += 1
                elif x == ")":
                    depth -= 1
                    if depth == 0:
                        break
                inner.append(x)
            if any(x in ("=", "++", "--") for x in inner):
                raise Refuse(f"{self.fn}: ASSERT with a side effect")
            self.eat(";")
            return ("skip",)
        if tok in ("for", "while", "do", "goto", "switch", "break", "continue", "new", "delete"):
            raise Refuse(f"{self.fn}: statement `{tok}` is outside the translated subset")
        # declaration?
        if tok in ("Item", "usize", "ssize") and self.peek(1) not in ("->", "=", "(", "."):
            ty = self.eat()
            if self.peek() == "*":
                self.eat("*"); ty += "*"
                if self.peek() == "*":
                    raise Refuse(f"{self.fn}: pointer to pointer")
            if self.peek() == "&":
                self.eat("&"); ty += "&"
            name = self.eat()
            if not re.fullmatch(r"[A-Za-z_]\w*", name):
                raise Refuse(f"{self.fn}: declarator {name!r}")
            if self.peek() != "=":
                raise Refuse(f"{self.fn}: declaration of `{name}` without initialiser")
            self.eat("=")
            e = self.expr()
            self.eat(";")
            return ("decl", ty, name, e)
        e = self.expr()
        self.eat(";")
        return ("expr", e)

    # expressions (assignment is right-associative and lowest)
    def expr(self):
        lhs = self.ternary()
        if self.peek() == "=":
            self.eat("=")
            return ("assign", lhs, self.expr())
        return lhs

    def ternary(self):
        c = self.lor()
        if self.peek() == "?":
            self.eat("?")
            a = self.expr()
            self.eat(":")
            b = self.ternary()
            return ("tern", c, a, b)
        return c

    def lor(self):
        a = self.land()
        while self.peek() == "||":
            self.eat()
            a = ("bin", "||", a, self.land())
        return a

    def land(self):
        a = self.cmp()
        while self.peek() == "&&":
            self.eat()
            a = ("bin", "&&", a, self.cmp())
        return a

    def cmp(self):
        a = self.add()
        if self.peek() in ("==", "!=", "<", ">", "<=", ">="):
            op = self.eat()
            return ("bin", op, a, self.add())
        return a

    def add(self):
        a = self.unary()
        while self.peek() in ("+", "-"):
            op = self.eat()
            a = ("bin", op, a, self.unary())
        return a

    def unary(self):
        tok = self.peek()
        if tok == "-":
            self.eat()
            return ("neg", self.unary())
        if tok == "!":
            self.eat()
            return ("not", self.unary())
        if tok in ("*", "&", "++", "--", "~"):
            raise Refuse(f"{self.fn}: operator `{tok}` is outside the translated subset")
        return self.postfix()

    def postfix(self):
        tok = self.eat()
        if tok == "(":
            e = self.expr()
            self.eat(")")
            a = ("paren", e)
        elif re.fullmatch(r"\d+", tok):
            a = ("lit", int(tok))
        elif re.fullmatch(r"[A-Za-z_]\w*", tok):
            if self.peek() == "(":
                self.eat("(")
                args = []
                if self.peek() != ")":
                    args.append(self.expr())
                    while self.peek() == ",":
                        self.eat(",")
                        args.append(self.expr())
                self.eat(")")
                a = ("call", tok, args)
            else:
                a = ("id", tok)
        else:
            raise Refuse(f"{self.fn}: unexpected token {tok!r}")
        while self.peek() in ("->", ".", "[", "++", "--"):
            op = self.eat()
            if op != "->":
                raise Refuse(f"{self.fn}: operator `{op}` is outside the translated subset")
            f = self.eat()
            if self.peek() == "(":
                self.eat("("); self.eat(")")
                a = ("mcall", a, f)
            else:
                a = ("field", a, f)
        return a


# ---- translation to Lean -------------------------------------------------------------------------------------------
def lean_name(x):
    return "v_" + x


class Tr:
    def __init__(self, fn, sigs, fields, in_item):
        self.fn, self.sigs, self.fields, self.in_item = fn, sigs, fields, in_item
        self.fresh = 0

    def field_type(self, f):
        if f not in self.fields:
            raise Refuse(f"{self.fn}: `{f}` is not a member of Item")
        ty, const = self.fields[f]
        if f not in HEAP_FIELDS or FIELD_TYPES.get(ty) != HEAP_FIELDS[f]:
            raise Refuse(f"{self.fn}: member `{f}` of type `{ty}` is not part of the translated heap")
        return HEAP_FIELDS[f]

    def strip(self, e):
        while e[0] == "paren":
            e = e[1]
        return e

    def rv(self, e, env, want=None):
        """(lean term, type) of an rvalue; types: ptr usize ssize bool lit"""
        e = self.strip(e)
        k = e[0]
        if k == "lit":
            if want == "ssize":
                return f"({e[1]} : Int)", "ssize"
            if want == "ptr":
                if e[1] != 0:
                    raise Refuse(f"{self.fn}: integer {e[1]} used as a pointer")
                return "0", "ptr"
            return f"{e[1]}", ("usize" if want == "usize" else "lit")
        if k == "neg":
            a = self.strip(e[1])
            if a[0] == "lit":
                return f"(-{a[1]} : Int)", "ssize"
            t, ty = self.rv(a, env, "ssize")
            if ty != "ssize":
                raise Refuse(f"{self.fn}: unary minus on {ty}")
            return f"(-{t})", "ssize"
        if k == "id":
            x = e[1]
            if x in env:
                ty = env[x]
                if ty == "cell":
                    return f"(h.get {lean_name(x)})", "ptr"
                return lean_name(x), ty
            if x == "this" and self.in_item:
                return "self", "ptr"
            if self.in_item and x in self.fields:
                return f"(h.{x} self)", self.field_type(x)
            if not self.in_item and x == "root":
                return "h.root", "ptr"
            raise Refuse(f"{self.fn}: unknown name `{x}`")
        if k == "field":
            t, ty = self.rv(e[1], env, "ptr")
            if ty != "ptr":
                raise Refuse(f"{self.fn}: `->{e[2]}` applied to {ty}")
            return f"(h.{e[2]} {t})", self.field_type(e[2])
        if k == "tern":
            c = self.cond(e[1], env)
            a, ta = self.rv(e[2], env, want)
            b, tb = self.rv(e[3], env, want)
            if ta == "lit" and tb != "lit":
                a, ta = self.rv(e[2], env, tb)
            if tb == "lit" and ta != "lit":
                b, tb = self.rv(e[3], env, ta)
            if ta != tb:
                raise Refuse(f"{self.fn}: branches of ?: have types {ta} / {tb}")
            return f"(if {c} then {a} else {b})", ta
        if k == "bin" and e[1] in ("+", "-"):
            a, ta = self.rv(e[2], env)
            b, tb = self.rv(e[3], env)
            if ta == "lit" and tb != "lit":
                a, ta = self.rv(e[2], env, tb)
            if tb == "lit" and ta != "lit":
                b, tb = self.rv(e[3], env, ta)
            if ta != tb or ta not in ("usize", "ssize", "lit"):
                raise Refuse(f"{self.fn}: `{e[1]}` on {ta} / {tb}")
            if e[1] == "+":
                return f"({a} + {b})", ta
            if ta == "usize":
                if want != "ssize":
                    raise Refuse(f"{self.fn}: unsigned subtraction whose result is not stored into an ssize")
                return f"((({a} : Nat) : Int) - (({b} : Nat) : Int))", "ssize"
            if ta == "ssize":
                return f"({a} - {b})", "ssize"
            raise Refuse(f"{self.fn}: subtraction of literals")
        if k in ("bin", "not"):
            return self.cond(e, env), "bool"
        raise Refuse(f"{self.fn}: expression form `{k}` is outside the translated subset")

    def cond(self, e, env):
        e = self.strip(e)
        if e[0] == "not":
            return f"(¬ {self.cond(e[1], env)})"
        if e[0] == "bin" and e[1] in ("&&", "||"):
            return f"({self.cond(e[2], env)} {'∧' if e[1] == '&&' else '∨'} {self.cond(e[3], env)})"
        if e[0] == "bin" and e[1] in ("==", "!=", "<", ">", "<=", ">="):
            a, ta = self.rv(e[2], env)
            b, tb = self.rv(e[3], env)
            if ta == "lit" and tb != "lit":
                a, ta = self.rv(e[2], env, tb)
            if tb == "lit" and ta != "lit":
                b, tb = self.rv(e[3], env, ta)
            if ta != tb or ta not in ("ptr", "usize", "ssize"):
                raise Refuse(f"{self.fn}: comparison of {ta} with {tb}")
            if ta == "ptr" and e[1] not in ("==", "!="):
                raise Refuse(f"{self.fn}: ordering comparison of pointers")
            op = {"==": "=", "!=": "≠", "<=": "≤", ">=": "≥"}.get(e[1], e[1])
            return f"({a} {op} {b})"
        t, ty = self.rv(e, env)
        if ty == "ptr":
            return f"({t} ≠ 0)"
        if ty == "bool":
            return t
        raise Refuse(f"{self.fn}: {ty} used as a condition")

    def lv(self, e, env):
        """lean term of type Cell for an lvalue of type Item*"""
        e = self.strip(e)
        if e[0] == "id":
            x = e[1]
            if x in env and env[x] == "cell":
                return lean_name(x)
            if x not in env and not self.in_item and x == "root":
                return "Cell.root"
            raise Refuse(f"{self.fn}: `{x}` is not an Item* lvalue the translation knows")
        if e[0] == "field" and e[2] in ("left", "right"):
            self.field_type(e[2])
            t, ty = self.rv(e[1], env, "ptr")
            if ty != "ptr":
                raise Refuse(f"{self.fn}: `->{e[2]}` applied to {ty}")
            return f"(Cell.{e[2]} {t})"
        if e[0] == "tern":
            return f"(if {self.cond(e[1], env)} then {self.lv(e[2], env)} else {self.lv(e[3], env)})"
        raise Refuse(f"{self.fn}: lvalue form `{e[0]}` is outside the translated subset")

    def assign(self, lhs, rhs, env, ind):
        """lean `let` line(s) of `lhs = rhs`, the updated env and the term holding the assigned value"""
        lhs = self.strip(lhs)
        if lhs[0] == "id" and lhs[1] in env:
            x, ty = lhs[1], env[lhs[1]]
            if ty == "cell":
                t, tt = self.rv(rhs, env, "ptr")
                if tt != "ptr":
                    raise Refuse(f"{self.fn}: {tt} stored through an Item*&")
                return f"{ind}let h := h.set {lean_name(x)} {t}\n", env, None
            t, tt = self.rv(rhs, env, ty)
            if tt != ty:
                raise Refuse(f"{self.fn}: {tt} stored into the {ty} variable `{x}`")
            return f"{ind}let {lean_name(x)} := {t}\n", env, lean_name(x)
        if lhs[0] == "id" and self.in_item and lhs[1] in self.fields:
            lhs = ("field", ("id", "this"), lhs[1])
        if lhs[0] == "id" and not self.in_item and lhs[1] == "root":
            t, tt = self.rv(rhs, env, "ptr")
            if tt != "ptr":
                raise Refuse(f"{self.fn}: {tt} stored into root")
            return f"{ind}let h := h.set Cell.root {t}\n", env, None
        if lhs[0] == "field":
            fty = self.field_type(lhs[2])
            if self.fields[lhs[2]][1]:
                raise Refuse(f"{self.fn}: store into const member `{lhs[2]}`")
            p, pt = self.rv(lhs[1], env, "ptr")
            if pt != "ptr":
                raise Refuse(f"{self.fn}: `->{lhs[2]}` applied to {pt}")
            t, tt = self.rv(rhs, env, fty)
            if tt != fty:
                raise Refuse(f"{self.fn}: {tt} stored into the {fty} member `{lhs[2]}`")
            self.fresh += 1
            val = f"t{self.fresh}"
            setter = "set" + lhs[2][0].upper() + lhs[2][1:]
            return f"{ind}let {val} := {t}\n{ind}let h := h.{setter} {p} {val}\n", env, val
        raise Refuse(f"{self.fn}: store into `{lhs}` is outside the translated subset")

    def stmts(self, items, env, ind, ret):
        """lean term for the statement list (continuation style: the rest is duplicated into both branches of an if)"""
        if not items:
            if ret != "void":
                raise Refuse(f"{self.fn}: control reaches the end of a non-void function")
            return f"{ind}h\n"
        s, rest = items[0], items[1:]
        k = s[0]
        if k == "skip":
            return self.stmts(rest, env, ind, ret)
        if k == "block" and always_returns(s):
            return self.stmts(list(s[1]), env, ind, ret)     # what follows the block is never reached on this path
        if k == "block":
            # declarations inside a nested block would go out of scope: only allowed when nothing follows
            if rest and any(x[0] == "decl" for x in s[1]):
                raise Refuse(f"{self.fn}: declaration inside a nested block followed by more statements")
            return self.stmts(list(s[1]) + rest, env, ind, ret)
        if k == "return":
            if rest:
                raise Refuse(f"{self.fn}: statements behind a return")
            if s[1] is None:
                if ret != "void":
                    raise Refuse(f"{self.fn}: return without value")
                return f"{ind}h\n"
            if ret != "Item*":
                raise Refuse(f"{self.fn}: return with a value in a void function")
            t, ty = self.rv(s[1], env, "ptr")
            if ty != "ptr":
                raise Refuse(f"{self.fn}: returns {ty}")
            return f"{ind}(h, {t})\n"
        if k == "decl":
            _, ty, name, init = s
            if name in env or (self.in_item and name in self.fields) or name in ("h", "self", "root", "this"):
                raise Refuse(f"{self.fn}: `{name}` redeclared / shadows a member")
            env2 = dict(env)
            if ty == "Item*&":
                env2[name] = "cell"
                return f"{ind}let {lean_name(name)} : Cell := {self.lv(init, env)}\n" + self.stmts(rest, env2, ind, ret)
            if ty not in FIELD_TYPES:
                raise Refuse(f"{self.fn}: local of type `{ty}`")
            lt = FIELD_TYPES[ty]
            if self.strip(init)[0] == "assign":
                raise Refuse(f"{self.fn}: assignment inside an initialiser")
            t, tt = self.rv(init, env, lt)
            if tt != lt:
                raise Refuse(f"{self.fn}: `{name}` of type {ty} initialised with {tt}")
            env2[name] = lt
            lty = {"ptr": "Nat", "usize": "Nat", "ssize": "Int"}[lt]
            return f"{ind}let {lean_name(name)} : {lty} := {t}\n" + self.stmts(rest, env2, ind, ret)
        if k == "if":
            c = self.strip(s[1])
            pre = ""
            if c[0] == "assign":
                pre, env, val = self.assign(c[1], c[2], env, ind)
                if val is None:
                    raise Refuse(f"{self.fn}: assignment through a reference used as a condition")
                cond = f"({val} ≠ 0)"
                # only pointer-valued assignments are understood as conditions
                lhs = self.strip(c[1])
                lty = env.get(lhs[1]) if lhs[0] == "id" else (self.field_type(lhs[2]) if lhs[0] == "field" else None)
                if lty != "ptr":
                    raise Refuse(f"{self.fn}: non-pointer assignment used as a condition")
            else:
                cond = self.cond(c, env)
            a = self.stmts([s[2]] + rest, env, ind + "  ", ret)
            b = self.stmts([s[3]] + rest, env, ind + "  ", ret)
            return f"{pre}{ind}if {cond} then\n{a}{ind}else\n{b}"
        if k == "expr":
            e = self.strip(s[1])
            if e[0] == "assign":
                line, env, _ = self.assign(e[1], e[2], env, ind)
                return line + self.stmts(rest, env, ind, ret)
            if e[0] == "mcall":
                if e[2] != "updateHeightAndSlope":
                    raise Refuse(f"{self.fn}: call of member `{e[2]}`")
                t, ty = self.rv(e[1], env, "ptr")
                if ty != "ptr":
                    raise Refuse(f"{self.fn}: method call on {ty}")
                return f"{ind}let h := updateHeightAndSlope h {t}\n" + self.stmts(rest, env, ind, ret)
            if e[0] == "call":
                f = e[1]
                if f not in self.sigs or f == self.fn:
                    raise Refuse(f"{self.fn}: call of `{f}` is outside the translated subset")
                rty, params = self.sigs[f]
                if rty != "void":
                    raise Refuse(f"{self.fn}: result of `{f}` discarded")
                if len(params) != len(e[2]):
                    raise Refuse(f"{self.fn}: `{f}` called with {len(e[2])} arguments")
                args = []
                for (pty, _), a in zip(params, e[2]):
                    args.append(self.lv(a, env) if pty == "cell" else self.rv(a, env, "ptr")[0])
                return f"{ind}let h := {f} h {' '.join(args)}\n" + self.stmts(rest, env, ind, ret)
        raise Refuse(f"{self.fn}: statement form `{k}` is outside the translated subset")


def always_returns(s):
    if s[0] == "return":
        return True
    if s[0] == "block":
        return bool(s[1]) and always_returns(s[1][-1])
    if s[0] == "if":
        return always_returns(s[2]) and always_returns(s[3])
    return False


def parse_params(fn, text):
    params = []
    text = text.strip()
    if not text:
        return params
    for p in text.split(","):
        m = re.fullmatch(r"\s*Item\s*\*\s*(&?)\s*(\w+)\s*", p)
        if not m:
            raise Refuse(f"{fn}: parameter `{p.strip()}`")
        params.append(("cell" if m.group(1) else "ptr", m.group(2)))
    return params


def translate_header(path):
    src = strip_comments(Path(path).read_text())
    fields, (istart, iend) = item_fields(src)
    for f, want in HEAP_FIELDS.items():
        if f not in fields or FIELD_TYPES.get(fields[f][0]) != want:
            raise Refuse(f"struct Item: member `{f}` is {fields.get(f)}, the heap model expects {want}")
    raw, sigs = {}, {}
    for fn in FUNCS:
        rty, static, ptxt, body, pos = extract(src, fn)
        in_item = istart < pos < iend
        if fn == "updateHeightAndSlope" and not in_item:
            raise Refuse("updateHeightAndSlope is not a member of Item")
        if fn != "updateHeightAndSlope" and in_item:
            raise Refuse(f"{fn} is a member of Item")
        params = parse_params(fn, ptxt)
        raw[fn] = (rty, params, body, in_item)
        sigs[fn] = (rty, params)
    out, norm = {}, {}
    for fn in FUNCS:
        rty, params, body, in_item = raw[fn]
        toks = tokenize(body)
        norm[fn] = toks
        p = P(toks, fn)
        items = p.block_items()
        if p.peek() is not None:
            raise Refuse(f"{fn}: trailing tokens")
        tr = Tr(fn, sigs, fields, in_item)
        env = {name: ty for ty, name in params}
        binders = "(h : Heap)" + (" (self : Nat)" if in_item else "") + "".join(
            f" ({lean_name(n)} : {'Cell' if ty == 'cell' else 'Nat'})" for ty, n in params)
        body_l = tr.stmts(items, env, "  ", rty)
        out[fn] = f"def {fn} {binders} : {'Heap' if rty == 'void' else 'Heap × Nat'} :=\n{body_l}"
    return out, norm


def generate(repo, out_path):
    parts = ["/- generated by tools/gen_avl.py from include/nstd/{Map,MultiMap}.hpp - do not edit -/\n"
             "import Nstd.Avl.Heap\n\nnamespace Nstd.Generated.AvlRot\nopen Nstd.Avl.Heap\n"]
    same = []
    norms = {}
    for tag, rel in HEADERS.items():
        try:
            fns, norm = translate_header(Path(repo) / rel)
        except OSError as e:
            raise Refuse(f"{rel}: {e}")
        except Refuse as e:
            raise Refuse(f"{rel}: {e}")
        norms[tag] = norm
        parts.append(f"\n/-! ### {rel} -/\nnamespace {tag}\n\n" + "\n".join(fns[f] for f in FUNCS) + f"\nend {tag}\n")
    same = [f for f in FUNCS if norms["Map"][f] == norms["Multi"][f]]
    parts.append("\nend Nstd.Generated.AvlRot\n")
    text = "".join(parts)
    out_path = Path(out_path)
    out_path.parent.mkdir(parents=True, exist_ok=True)
    if not out_path.exists() or out_path.read_text() != text:
        out_path.write_text(text)
    return f"{len(FUNCS)} functions x 2 headers translated ({len(same)} token-identical in both headers)"


if __name__ == "__main__":
    repo = sys.argv[1] if len(sys.argv) > 1 else "/repo"
    outp = sys.argv[2] if len(sys.argv) > 2 else str(Path(__file__).resolve().parent.parent / "lean/Nstd/Generated/AvlRot.lean")
    try:
        print(generate(repo, outp))
    except Refuse as e:
        print("REFUSED:", e)
        sys.exit(1)
