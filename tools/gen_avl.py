#!/usr/bin/env python3
"""Translator for the pointer code of Map.hpp / MultiMap.hpp (property C01).

From the CURRENT headers (tokenizer + recursive-descent parser for the C++ subset these functions are written in, field
types read from `struct Item`) into Lean functions over the record-of-nodes heap of lean/Nstd/Avl/Heap.lean
(lean/Nstd/Generated/AvlRot.lean, namespaces Map / Multi):
  * `Item::updateHeightAndSlope`, `rotr`, `rotl`, `shiftr`, `shiftl`, `rebal`                       (PropsRot.lean: gen_*_eq_model)
  * `find`, MultiMap `count`, `clear` (loops become functions recursive in a fuel argument; key comparisons are counted)
  * private `insert(cell, parent, key, value)`: descent (`insertDescend`; goto shape and for shape), the linking part
    (`insertLeaf`: `Item* item = freeItem`, the block allocation recognised as a unit -> `Heap.allocBlock N`, `new(item) Item(..)`
    as the stores of the constructor's initialiser list, `*cell = item`, `++_size`, first-item case, and — outlined, i.e. replaced
    by calls of the fragments cut from the same text — `insertThread` and `insertRebalance`), composed: `insertPrivate`
  * public `insert(key, value)` (`insertPlain`) and `insert(position, key, value)` (`insertHint` + `insertAt`)
  * `remove(const Iterator&)`: one function `remove` (labels as continuations), its pieces `removeHead`, `removeRebal`
    (the `rebalParent:` do-while), `removeUpwards` (the `rebalParentUpwards:` while), `removeTail`
PropsRot / PropsComp / PropsComp2 / PropsComp3 prove that the generated functions are the model's functions on the
abstraction (`Repr`, `DList`, `FreeRepr`, `ReprSt`).

Anything outside the understood subset is REFUSED (exception -> the check reports a broken tie): unknown statements,
unknown fields or members, nested loops, pointer arithmetic outside the allocation idiom, calls to other functions,
assignments inside expressions other than `if((lvalue = pointer))`, `(a = b)->f = c`, `a = b = c`, type mismatches.

Semantics of the translation (the assumptions are listed in the MANIFEST note):
  Item*            -> Nat, 0 = null, the item with id i is pointer i+1
  Item*& / Item**  -> Heap.Cell (root | left p | right p)
  usize            -> Nat (no overflow: heights are < 2^63); `--_size` is truncated subtraction (never at 0: an item exists)
  ssize            -> Int; `usize - usize` stored into an ssize is the mathematical difference (exact while |difference| < 2^63)
  ASSERT(e)        -> skipped (must be free of assignments / increments)
  p->~Item()       -> skipped (destroys key and value; links and stored fields stay)
  block allocation -> never fails; the block allocated as the b-th holds the pointers N*b+1 .. N*b+N (Heap.nblocks)
  (a = b)->f = c   -> c, then a = b, then the store (C++17 order; the other order gives the same in the one place it is used)
"""
import re
import sys
from pathlib import Path

FUNCS = ["updateHeightAndSlope", "rotr", "rotl", "shiftr", "shiftl", "rebal"]
HEADERS = {"Map": "include/nstd/Map.hpp", "Multi": "include/nstd/MultiMap.hpp"}
FIELD_TYPES = {"Item*": "ptr", "usize": "usize", "ssize": "ssize", "T": "key", "Iterator": "ptr", "V": "val"}
HEAP_FIELDS = {"parent": "ptr", "left": "ptr", "right": "ptr", "height": "usize", "slope": "ssize",
               "key": "key", "next": "ptr", "prev": "ptr", "value": "val"}   # what Heap.lean offers


class Refuse(Exception):
    pass


def strip_comments(src):
    src = re.sub(r"/\*.*?\*/", " ", src, flags=re.S)
    src = re.sub(r"//[^\n]*", "", src)
    # `const` on locals does not change what the code does: `Item* const x`, `Item** const x`, `const usize x`, `const Item* x`
    src = re.sub(r"(\*\s*)const\b(?=\s*\w+\s*[=;])", r"\1", src)
    src = re.sub(r"\bconst\s+(usize|ssize|Item\s*\*|Iterator)(?=\s*\w+\s*[=;])", r"\1", src)
    # a cast of an unsigned height to ssize: `usize - usize` stored into an ssize is translated as the exact difference anyway
    src = re.sub(r"\(\s*ssize\s*\)\s*(\w+)", r"\1", src)
    return src


TOK = re.compile(r"\s*(->|==|!=|<=|>=|&&|\|\||\+\+|--|[A-Za-z_]\w*|\d+|[{}()\[\];,<>=+\-*/!?:&.~|^%])")


def tokenize(text):
    toks, pos = [], 0
    text = text.rstrip()
    while pos < len(text):
        m = TOK.match(text, pos)
        if not m:
            if text[pos:].strip() == "":
                break
            raise Refuse(f"cannot tokenize at {text[pos:pos + 30]!r}")
        toks.append(m.group(1))
        pos = m.end()
    return toks


def balanced(src, start, open_ch="{", close_ch="}"):
    """index just behind the bracket that closes the one at `start`"""
    depth = 0
    for i in range(start, len(src)):
        if src[i] == open_ch:
            depth += 1
        elif src[i] == close_ch:
            depth -= 1
            if depth == 0:
                return i + 1
    raise Refuse("unbalanced brackets")


def extract(src, name):
    """(return type, static?, parameter text, body text) of the single definition of `name`"""
    rx = re.compile(r"(static\s+)?(void|Item\s*\*|Iterator|usize)\s+" + name + r"\s*\(([^)]*)\)\s*(?:const\s*)?\{")
    ms = list(rx.finditer(src))
    if len(ms) != 1:
        raise Refuse(f"{name}: {len(ms)} definitions found, expected exactly one")
    m = ms[0]
    end = balanced(src, m.end() - 1)
    return re.sub(r"\s+", "", m.group(2)), bool(m.group(1)), m.group(3), src[m.end():end - 1], m.start()


def item_fields(src):
    m = re.search(r"struct\s+Item\s*\{", src)
    if not m:
        raise Refuse("struct Item not found")
    end = balanced(src, m.end() - 1)
    body = src[m.end():end - 1]
    # drop member functions / constructors (anything with a brace body)
    out, i = "", 0
    while i < len(body):
        if body[i] == "{":
            j = balanced(body, i)
            # remove the declarator that precedes the body, back to the previous ';' or '}'
            k = max(out.rfind(";"), out.rfind("}"))
            out = out[:k + 1]
            i = j
        else:
            out += body[i]
            i += 1
    fields = {}
    for decl in out.split(";"):
        d = decl.strip()
        if not d:
            continue
        m2 = re.fullmatch(r"(const\s+)?(\w+)\s*(\*?)\s*(\w+)", d)
        if not m2:
            raise Refuse(f"struct Item: cannot read the member declaration {d!r}")
        fields[m2.group(4)] = (m2.group(2) + m2.group(3), bool(m2.group(1)))
    return fields, (m.start(), end)


# ---- parser ------------------------------------------------------------------------------------------------------
class P:
    def __init__(self, toks, fn):
        self.t, self.i, self.fn = toks, 0, fn

    def peek(self, k=0):
        return self.t[self.i + k] if self.i + k < len(self.t) else None

    def eat(self, x=None):
        tok = self.peek()
        if tok is None or (x is not None and tok != x):
            raise Refuse(f"{self.fn}: expected {x!r}, found {tok!r} (token {self.i})")
        self.i += 1
        return tok

    # statements
    def block_items(self):
        items = []
        while self.peek() is not None and self.peek() != "}":
            items.append(self.stmt())
        return items

    def stmt(self):
        tok = self.peek()
        if tok == "{":
            self.eat("{")
            b = self.block_items()
            self.eat("}")
            return ("block", b)
        if tok == "if":
            self.eat("if"); self.eat("(")
            c = self.expr()
            self.eat(")")
            a = self.stmt()
            b = ("block", [])
            if self.peek() == "else":
                self.eat("else")
                b = self.stmt()
            return ("if", c, a, b)
        if tok == "return":
            self.eat("return")
            if self.peek() == ";":
                self.eat(";")
                return ("return", None)
            e = self.expr()
            self.eat(";")
            return ("return", e)
        if tok == "ASSERT":
            self.eat("ASSERT")
            depth, inner = 0, []
            while True:
                x = self.eat()
                if x == "(":
                    depth += 1
                elif x == ")":
                    depth -= 1
                    if depth == 0:
                        break
                inner.append(x)
            if any(x in ("=", "++", "--") for x in inner):
                raise Refuse(f"{self.fn}: ASSERT with a side effect")
            self.eat(";")
            return ("skip",)
        if tok == "for":
            self.eat("for"); self.eat("(")
            init = None
            if self.peek() != ";":
                init = self.stmt()                 # declaration or expression statement, eats the ';'
                if init[0] not in ("decl", "expr", "multidecl"):
                    raise Refuse(f"{self.fn}: for-init of kind {init[0]}")
            else:
                self.eat(";")
            cond = None
            if self.peek() != ";":
                cond = self.expr()
            self.eat(";")
            step = []
            if self.peek() != ")":
                step.append(("expr", self.expr()))
                while self.peek() == ",":
                    self.eat(",")
                    step.append(("expr", self.expr()))
            self.eat(")")
            return ("for", init, cond, step, self.stmt())
        if tok == "while":
            self.eat("while"); self.eat("(")
            c = self.expr()
            self.eat(")")
            return ("for", None, c, [], self.stmt())
        if tok == "do":
            self.eat("do")
            b = self.stmt()
            self.eat("while"); self.eat("(")
            c = self.expr()
            self.eat(")"); self.eat(";")
            return ("dowhile", b, c)
        if tok in ("break", "continue"):
            self.eat(); self.eat(";")
            return (tok,)
        if tok == "goto":
            self.eat()
            lab = self.eat()
            self.eat(";")
            return ("goto", lab)
        if tok == "new" and self.peek(1) == "(":
            # placement new of an item: `new(p) Item(a, b, c);`
            self.eat("new"); self.eat("(")
            target = self.expr()
            self.eat(")")
            if self.eat() != "Item":
                raise Refuse(f"{self.fn}: placement new of something that is not an Item")
            self.eat("(")
            args = []
            if self.peek() != ")":
                args.append(self.expr())
                while self.peek() == ",":
                    self.eat(",")
                    args.append(self.expr())
            self.eat(")"); self.eat(";")
            return ("construct", target, args)
        if tok in ("switch", "new", "delete"):
            raise Refuse(f"{self.fn}: statement `{tok}` is outside the translated subset")
        # declaration?
        if tok in ("Item", "usize", "ssize", "Iterator") and self.peek(1) not in ("->", "=", "(", "."):
            ty = self.eat()
            if self.peek() == "*":
                self.eat("*"); ty += "*"
                if self.peek() == "*":
                    self.eat("*"); ty += "*"
            if self.peek() == "&":
                self.eat("&"); ty += "&"
            name = self.eat()
            if not re.fullmatch(r"[A-Za-z_]\w*", name):
                raise Refuse(f"{self.fn}: declarator {name!r}")
            if self.peek() == ";":
                self.eat(";")
                return ("decl", ty, name, None)
            if self.peek() != "=":
                raise Refuse(f"{self.fn}: declarator of `{name}`")
            self.eat("=")
            e = self.expr()
            if self.peek() == "," and ty == "Item*":
                # `Item* a = x, * b = y;`
                decls = [("decl", ty, name, e)]
                while self.peek() == ",":
                    self.eat(","); self.eat("*")
                    n2 = self.eat()
                    if not re.fullmatch(r"[A-Za-z_]\w*", n2):
                        raise Refuse(f"{self.fn}: declarator {n2!r}")
                    self.eat("=")
                    decls.append(("decl", ty, n2, self.expr()))
                self.eat(";")
                return ("multidecl", decls)
            self.eat(";")
            return ("decl", ty, name, e)
        e = self.expr()
        self.eat(";")
        return ("expr", e)

    # expressions (assignment is right-associative and lowest)
    def expr(self):
        lhs = self.ternary()
        if self.peek() == "=":
            self.eat("=")
            return ("assign", lhs, self.expr())
        return lhs

    def ternary(self):
        c = self.lor()
        if self.peek() == "?":
            self.eat("?")
            a = self.expr()
            self.eat(":")
            b = self.ternary()
            return ("tern", c, a, b)
        return c

    def lor(self):
        a = self.land()
        while self.peek() == "||":
            self.eat()
            a = ("bin", "||", a, self.land())
        return a

    def land(self):
        a = self.cmp()
        while self.peek() == "&&":
            self.eat()
            a = ("bin", "&&", a, self.cmp())
        return a

    def cmp(self):
        a = self.add()
        if self.peek() in ("==", "!=", "<", ">", "<=", ">="):
            op = self.eat()
            return ("bin", op, a, self.add())
        return a

    def add(self):
        a = self.unary()
        while self.peek() in ("+", "-"):
            op = self.eat()
            a = ("bin", op, a, self.unary())
        return a

    def unary(self):
        tok = self.peek()
        if tok == "-":
            self.eat()
            return ("neg", self.unary())
        if tok == "!":
            self.eat()
            return ("not", self.unary())
        if tok == "&" and self.peek(1) == "endItem" and self.peek(2) not in ("->", ".", "["):
            self.eat(); self.eat()
            return ("endptr",)
        if tok == "++":
            self.eat()
            return ("preinc", self.unary())
        if tok == "&":
            self.eat()
            return ("addr", self.unary())
        if tok == "*":
            self.eat()
            return ("deref", self.unary())
        if tok == "--":
            self.eat()
            return ("predec", self.unary())
        if tok == "~":
            raise Refuse(f"{self.fn}: operator `{tok}` is outside the translated subset")
        return self.postfix()

    def postfix(self):
        tok = self.eat()
        if tok == "(":
            e = self.expr()
            self.eat(")")
            a = ("paren", e)
        elif re.fullmatch(r"\d+", tok):
            a = ("lit", int(tok))
        elif re.fullmatch(r"[A-Za-z_]\w*", tok):
            if self.peek() == "(":
                self.eat("(")
                args = []
                if self.peek() != ")":
                    args.append(self.expr())
                    while self.peek() == ",":
                        self.eat(",")
                        args.append(self.expr())
                self.eat(")")
                a = ("call", tok, args)
            else:
                a = ("id", tok)
        else:
            raise Refuse(f"{self.fn}: unexpected token {tok!r}")
        while self.peek() in ("->", ".", "[", "++", "--"):
            op = self.eat()
            if op == "." and self.peek() == "item":
                self.eat()
                a = ("dotitem", a)
                continue
            if op == "." and a == ("id", "endItem"):
                a = ("field", ("endptr",), self.eat())      # `endItem.prev` is `(&endItem)->prev`
                continue
            if op != "->":
                raise Refuse(f"{self.fn}: operator `{op}` is outside the translated subset")
            f = self.eat()
            if f == "~":
                if self.eat() != "Item":
                    raise Refuse(f"{self.fn}: destructor call of something that is not an Item")
                self.eat("("); self.eat(")")
                a = ("dtor", a)
                continue
            if self.peek() == "(":
                self.eat("("); self.eat(")")
                a = ("mcall", a, f)
            else:
                a = ("field", a, f)
        return a


# ---- translation to Lean -------------------------------------------------------------------------------------------
def lean_name(x):
    return "v_" + x


class Tr:
    def __init__(self, fn, sigs, fields, in_item):
        self.fn, self.sigs, self.fields, self.in_item = fn, sigs, fields, in_item
        self.fresh = 0

    def field_type(self, f):
        if f not in self.fields:
            raise Refuse(f"{self.fn}: `{f}` is not a member of Item")
        ty, const = self.fields[f]
        if f not in HEAP_FIELDS or FIELD_TYPES.get(ty) != HEAP_FIELDS[f]:
            raise Refuse(f"{self.fn}: member `{f}` of type `{ty}` is not part of the translated heap")
        return HEAP_FIELDS[f]

    def strip(self, e):
        while e[0] == "paren":
            e = e[1]
        return e

    def rv(self, e, env, want=None):
        """(lean term, type) of an rvalue; types: ptr usize ssize bool lit"""
        e = self.strip(e)
        k = e[0]
        if k == "lit":
            if want == "ssize":
                return f"({e[1]} : Int)", "ssize"
            if want == "ptr":
                if e[1] != 0:
                    raise Refuse(f"{self.fn}: integer {e[1]} used as a pointer")
                return "0", "ptr"
            return f"{e[1]}", ("usize" if want == "usize" else "lit")
        if k == "neg":
            a = self.strip(e[1])
            if a[0] == "lit":
                return f"(-{a[1]} : Int)", "ssize"
            t, ty = self.rv(a, env, "ssize")
            if ty != "ssize":
                raise Refuse(f"{self.fn}: unary minus on {ty}")
            return f"(-{t})", "ssize"
        if k == "id":
            x = e[1]
            if x in env:
                ty = env[x]
                if ty == "cell":
                    return f"(h.get {lean_name(x)})", "ptr"
                return lean_name(x), ty
            if x == "this" and self.in_item:
                return "self", "ptr"
            if self.in_item and x in self.fields:
                return f"(h.{x} self)", self.field_type(x)
            if not self.in_item and x == "root":
                return "h.root", "ptr"
            if not self.in_item and x == "_end":
                return "h.endItem", "ptr"             # the Iterator whose item is &endItem
            if not self.in_item and x == "_begin" and "_begin" not in env:
                return "h.beginItem", "ptr"           # the Iterator whose item is _begin.item
            if not self.in_item and x == "freeItem":
                return "h.freeItem", "ptr"
            if not self.in_item and x == "_size":
                return "h.size", "usize"
            raise Refuse(f"{self.fn}: unknown name `{x}`")
        if k == "deref":
            x = self.strip(e[1])
            if x[0] != "id" or env.get(x[1]) != "cellptr":
                raise Refuse(f"{self.fn}: `*` applied to something that is not an Item** local")
            return f"(h.get {lean_name(x[1])})", "ptr"
        if k == "leanterm":
            return e[1], e[2]
        if k == "endptr":
            if self.in_item:
                raise Refuse(f"{self.fn}: &endItem inside Item")
            return "h.endItem", "ptr"
        if k == "dotitem" and self.strip(e[1]) == ("id", "_begin") and not self.in_item and "_begin" not in env:
            return "h.beginItem", "ptr"
        if k == "dotitem":
            t, ty = self.rv(e[1], env, "ptr")
            if ty != "ptr":
                raise Refuse(f"{self.fn}: `.item` applied to {ty}")
            return t, "ptr"
        if k == "call" and e[1] == "Iterator" and len(e[2]) == 1:
            t, ty = self.rv(e[2][0], env, "ptr")
            if ty != "ptr":
                raise Refuse(f"{self.fn}: Iterator({ty})")
            return t, "ptr"
        if k == "field":
            t, ty = self.rv(e[1], env, "ptr")
            if ty != "ptr":
                raise Refuse(f"{self.fn}: `->{e[2]}` applied to {ty}")
            return f"(h.{e[2]} {t})", self.field_type(e[2])
        if k == "tern":
            c = self.cond(e[1], env)
            a, ta = self.rv(e[2], env, want)
            b, tb = self.rv(e[3], env, want)
            if ta == "lit" and tb != "lit":
                a, ta = self.rv(e[2], env, tb)
            if tb == "lit" and ta != "lit":
                b, tb = self.rv(e[3], env, ta)
            if ta != tb:
                raise Refuse(f"{self.fn}: branches of ?: have types {ta} / {tb}")
            return f"(if {c} then {a} else {b})", ta
        if k == "bin" and e[1] in ("+", "-"):
            a, ta = self.rv(e[2], env)
            b, tb = self.rv(e[3], env)
            if ta == "lit" and tb != "lit":
                a, ta = self.rv(e[2], env, tb)
            if tb == "lit" and ta != "lit":
                b, tb = self.rv(e[3], env, ta)
            if ta != tb or ta not in ("usize", "ssize", "lit"):
                raise Refuse(f"{self.fn}: `{e[1]}` on {ta} / {tb}")
            if e[1] == "+":
                return f"({a} + {b})", ta
            if ta == "usize":
                if want != "ssize":
                    raise Refuse(f"{self.fn}: unsigned subtraction whose result is not stored into an ssize")
                return f"((({a} : Nat) : Int) - (({b} : Nat) : Int))", "ssize"
            if ta == "ssize":
                return f"({a} - {b})", "ssize"
            raise Refuse(f"{self.fn}: subtraction of literals")
        if k in ("bin", "not"):
            return self.cond(e, env), "bool"
        raise Refuse(f"{self.fn}: expression form `{k}` is outside the translated subset")

    def cond(self, e, env):
        e = self.strip(e)
        if e[0] == "not":
            return f"(¬ {self.cond(e[1], env)})"
        if e[0] == "bin" and e[1] in ("&&", "||"):
            return f"({self.cond(e[2], env)} {'∧' if e[1] == '&&' else '∨'} {self.cond(e[3], env)})"
        if e[0] == "bin" and e[1] in ("==", "!="):
            x, y = self.strip(e[2]), self.strip(e[3])
            if y[0] == "id" and env.get(y[1]) == "cellptr":
                x, y = y, x
            if x[0] == "id" and env.get(x[1]) == "cellptr":
                if y[0] != "addr":
                    raise Refuse(f"{self.fn}: Item** compared with something that is not `&lvalue`")
                return f"({lean_name(x[1])} {'=' if e[1] == '==' else '≠'} {self.lv(y[1], env)})"
        if e[0] == "bin" and e[1] in ("==", "!=", "<", ">", "<=", ">="):
            a, ta = self.rv(e[2], env)
            b, tb = self.rv(e[3], env)
            if ta == "lit" and tb != "lit":
                a, ta = self.rv(e[2], env, tb)
            if tb == "lit" and ta != "lit":
                b, tb = self.rv(e[3], env, ta)
            if ta != tb or ta not in ("ptr", "usize", "ssize", "key"):
                raise Refuse(f"{self.fn}: comparison of {ta} with {tb}")
            if ta == "ptr" and e[1] not in ("==", "!="):
                raise Refuse(f"{self.fn}: ordering comparison of pointers")
            if ta == "ptr" and b.startswith("(") and not a.startswith("("):
                a, b = b, a                      # normal form: `p->f == x` and `x == p->f` are written the same way
            op = {"==": "=", "!=": "≠", "<=": "≤", ">=": "≥"}.get(e[1], e[1])
            return f"({a} {op} {b})"
        t, ty = self.rv(e, env)
        if ty == "ptr":
            return f"({t} ≠ 0)"
        if ty == "bool":
            return t
        raise Refuse(f"{self.fn}: {ty} used as a condition")

    def lv(self, e, env):
        """lean term of type Cell for an lvalue of type Item*"""
        e = self.strip(e)
        if e[0] == "id":
            x = e[1]
            if x in env and env[x] == "cell":
                return lean_name(x)
            if x not in env and not self.in_item and x == "root":
                return "Cell.root"
            raise Refuse(f"{self.fn}: `{x}` is not an Item* lvalue the translation knows")
        if e[0] == "field" and e[2] in ("left", "right"):
            self.field_type(e[2])
            t, ty = self.rv(e[1], env, "ptr")
            if ty != "ptr":
                raise Refuse(f"{self.fn}: `->{e[2]}` applied to {ty}")
            return f"(Cell.{e[2]} {t})"
        if e[0] == "tern":
            return f"(if {self.cond(e[1], env)} then {self.lv(e[2], env)} else {self.lv(e[3], env)})"
        if e[0] == "call" and e[1] in CELL_HELPERS and len(e[2]) == 1:
            # a private helper returning `Item*&`: its body (locals + one reference + return) is inlined on the argument
            pname, items = CELL_HELPERS[e[1]]
            t, ty = self.rv(e[2][0], env, "ptr")
            if ty != "ptr":
                raise Refuse(f"{self.fn}: `{e[1]}` called on {ty}")
            sub = Tr(e[1], self.sigs, self.fields, False)
            env2 = {pname: "ptr"}
            binds = f"let {lean_name(pname)} : Nat := {t}; "
            for st in items:
                if st[0] == "skip":
                    continue
                if st[0] == "decl" and st[1] == "Item*" and st[3] is not None:
                    tt, tty = sub.rv(st[3], env2, "ptr")
                    if tty != "ptr":
                        raise Refuse(f"{e[1]}: local `{st[2]}`")
                    binds += f"let {lean_name(st[2])} : Nat := {tt}; "
                    env2[st[2]] = "ptr"
                elif st[0] == "decl" and st[1] == "Item*&" and st[3] is not None:
                    binds += f"let {lean_name(st[2])} : Cell := {sub.lv(st[3], env2)}; "
                    env2[st[2]] = "cell"
                elif st[0] == "return" and st[1] is not None:
                    return f"({binds}{sub.lv(st[1], env2)})"
                else:
                    raise Refuse(f"{e[1]}: statement `{st[0]}` in a helper that returns Item*&")
            raise Refuse(f"{e[1]}: no return")
        raise Refuse(f"{self.fn}: lvalue form `{e[0]}` is outside the translated subset")

    def assign(self, lhs, rhs, env, ind):
        """lean `let` line(s) of `lhs = rhs`, the updated env and the term holding the assigned value"""
        lhs = self.strip(lhs)
        if lhs[0] == "id" and lhs[1] in env:
            x, ty = lhs[1], env[lhs[1]]
            if ty == "cell":
                t, tt = self.rv(rhs, env, "ptr")
                if tt != "ptr":
                    raise Refuse(f"{self.fn}: {tt} stored through an Item*&")
                return f"{ind}let h := h.set {lean_name(x)} {t}\n", env, None
            t, tt = self.rv(rhs, env, ty)
            if tt != ty:
                raise Refuse(f"{self.fn}: {tt} stored into the {ty} variable `{x}`")
            return f"{ind}let {lean_name(x)} := {t}\n", env, lean_name(x)
        if lhs[0] == "id" and self.in_item and lhs[1] in self.fields:
            lhs = ("field", ("id", "this"), lhs[1])
        if lhs[0] == "dotitem" and self.strip(lhs[1]) == ("id", "_begin") and not self.in_item:
            t, tt = self.rv(rhs, env, "ptr")
            if tt != "ptr":
                raise Refuse(f"{self.fn}: {tt} stored into _begin.item")
            return f"{ind}let h := h.setBegin {t}\n", env, None
        if lhs[0] == "id" and not self.in_item and lhs[1] == "root":
            t, tt = self.rv(rhs, env, "ptr")
            if tt != "ptr":
                raise Refuse(f"{self.fn}: {tt} stored into root")
            return f"{ind}let h := h.set Cell.root {t}\n", env, None
        if lhs[0] == "id" and not self.in_item and lhs[1] == "freeItem" and "freeItem" not in env:
            t, tt = self.rv(rhs, env, "ptr")
            if tt != "ptr":
                raise Refuse(f"{self.fn}: {tt} stored into freeItem")
            return f"{ind}let h := h.setFree {t}\n", env, None
        if lhs[0] == "id" and not self.in_item and lhs[1] == "_size" and "_size" not in env:
            t, tt = self.rv(rhs, env, "usize")
            if tt != "usize":
                raise Refuse(f"{self.fn}: {tt} stored into _size")
            return f"{ind}let h := h.setSize {t}\n", env, None
        if lhs[0] == "field":
            fty = self.field_type(lhs[2])
            if self.fields[lhs[2]][1]:
                raise Refuse(f"{self.fn}: store into const member `{lhs[2]}`")
            p, pt = self.rv(lhs[1], env, "ptr")
            if pt != "ptr":
                raise Refuse(f"{self.fn}: `->{lhs[2]}` applied to {pt}")
            t, tt = self.rv(rhs, env, fty)
            if tt != fty:
                raise Refuse(f"{self.fn}: {tt} stored into the {fty} member `{lhs[2]}`")
            self.fresh += 1
            val = f"t{self.fresh}"
            setter = "set" + lhs[2][0].upper() + lhs[2][1:]
            return f"{ind}let {val} := {t}\n{ind}let h := h.{setter} {p} {val}\n", env, val
        raise Refuse(f"{self.fn}: store into `{lhs}` is outside the translated subset")

    def stmts(self, items, env, ind, ret):
        """lean term for the statement list (continuation style: the rest is duplicated into both branches of an if)"""
        if not items:
            if ret != "void":
                raise Refuse(f"{self.fn}: control reaches the end of a non-void function")
            return f"{ind}h\n"
        s, rest = items[0], items[1:]
        k = s[0]
        if k == "skip":
            return self.stmts(rest, env, ind, ret)
        if k == "block" and always_returns(s):
            return self.stmts(list(s[1]), env, ind, ret)     # what follows the block is never reached on this path
        if k == "block":
            # declarations inside a nested block would go out of scope: only allowed when nothing follows
            if rest and any(x[0] == "decl" for x in s[1]):
                raise Refuse(f"{self.fn}: declaration inside a nested block followed by more statements")
            return self.stmts(list(s[1]) + rest, env, ind, ret)
        if k == "return":
            if s[1] is None:
                if ret != "void":
                    raise Refuse(f"{self.fn}: return without value")
                return f"{ind}h\n"
            if ret != "Item*":
                raise Refuse(f"{self.fn}: return with a value in a void function")
            t, ty = self.rv(s[1], env, "ptr")
            if ty != "ptr":
                raise Refuse(f"{self.fn}: returns {ty}")
            return f"{ind}(h, {t})\n"
        if k == "decl":
            _, ty, name, init = s
            if name in env or (self.in_item and name in self.fields) or name in ("h", "self", "root", "this"):
                raise Refuse(f"{self.fn}: `{name}` redeclared / shadows a member")
            env2 = dict(env)
            if ty == "Item*&":
                env2[name] = "cell"
                return f"{ind}let {lean_name(name)} : Cell := {self.lv(init, env)}\n" + self.stmts(rest, env2, ind, ret)
            if ty not in FIELD_TYPES:
                raise Refuse(f"{self.fn}: local of type `{ty}`")
            lt = FIELD_TYPES[ty]
            if self.strip(init)[0] == "assign":
                raise Refuse(f"{self.fn}: assignment inside an initialiser")
            t, tt = self.rv(init, env, lt)
            if tt != lt:
                raise Refuse(f"{self.fn}: `{name}` of type {ty} initialised with {tt}")
            env2[name] = lt
            lty = {"ptr": "Nat", "usize": "Nat", "ssize": "Int"}[lt]
            return f"{ind}let {lean_name(name)} : {lty} := {t}\n" + self.stmts(rest, env2, ind, ret)
        if k == "if":
            c = self.strip(s[1])
            pre = ""
            if c[0] == "assign":
                pre, env, val = self.assign(c[1], c[2], env, ind)
                if val is None:
                    raise Refuse(f"{self.fn}: assignment through a reference used as a condition")
                cond = f"({val} ≠ 0)"
                # only pointer-valued assignments are understood as conditions
                lhs = self.strip(c[1])
                lty = env.get(lhs[1]) if lhs[0] == "id" else (self.field_type(lhs[2]) if lhs[0] == "field" else None)
                if lty != "ptr":
                    raise Refuse(f"{self.fn}: non-pointer assignment used as a condition")
            else:
                cond = self.cond(c, env)
            a = self.stmts([s[2]] + rest, env, ind + "  ", ret)
            b = self.stmts([s[3]] + rest, env, ind + "  ", ret)
            return f"{pre}{ind}if {cond} then\n{a}{ind}else\n{b}"
        if k == "expr":
            e = self.strip(s[1])
            if e[0] == "assign":
                line, env, _ = self.assign(e[1], e[2], env, ind)
                return line + self.stmts(rest, env, ind, ret)
            if e[0] == "mcall":
                if e[2] != "updateHeightAndSlope":
                    raise Refuse(f"{self.fn}: call of member `{e[2]}`")
                t, ty = self.rv(e[1], env, "ptr")
                if ty != "ptr":
                    raise Refuse(f"{self.fn}: method call on {ty}")
                return f"{ind}let h := updateHeightAndSlope h {t}\n" + self.stmts(rest, env, ind, ret)
            if e[0] == "call":
                f = e[1]
                if f not in self.sigs or f == self.fn:
                    raise Refuse(f"{self.fn}: call of `{f}` is outside the translated subset")
                rty, params = self.sigs[f]
                if rty != "void":
                    raise Refuse(f"{self.fn}: result of `{f}` discarded")
                if len(params) != len(e[2]):
                    raise Refuse(f"{self.fn}: `{f}` called with {len(e[2])} arguments")
                args = []
                for (pty, _), a in zip(params, e[2]):
                    args.append(self.lv(a, env) if pty == "cell" else self.rv(a, env, "ptr")[0])
                return f"{ind}let h := {f} h {' '.join(args)}\n" + self.stmts(rest, env, ind, ret)
        raise Refuse(f"{self.fn}: statement form `{k}` is outside the translated subset")


LEAN_TY = {"ptr": "Nat", "usize": "Nat", "ssize": "Int", "key": "Int", "cell": "Cell", "val": "Int", "cellptr": "Cell"}


def always_exits(s):
    if s[0] in ("return", "break", "continue", "goto", "exit"):
        return True
    if s[0] == "block":
        return bool(s[1]) and always_exits(s[1][-1])
    if s[0] == "if":
        return always_exits(s[2]) and always_exits(s[3])
    return False


def writes_heap(node, sigs_pure):
    """does the statement / expression tree store into the heap (directly or through a callee)?"""
    if isinstance(node, tuple):
        if node and node[0] == "assign":
            lhs = node[1]
            while lhs[0] == "paren":
                lhs = lhs[1]
            if lhs[0] == "field":
                return True
        if node and node[0] == "mcall":
            return True
        if node and node[0] == "call" and node[1] in sigs_pure and not sigs_pure[node[1]]:
            return True
        return any(writes_heap(x, sigs_pure) for x in node[1:])
    if isinstance(node, list):
        return any(writes_heap(x, sigs_pure) for x in node)
    return False


def has_loop(node):
    if isinstance(node, tuple):
        if node and node[0] in ("for", "dowhile"):
            return True
        return any(has_loop(x) for x in node[1:])
    if isinstance(node, list):
        return any(has_loop(x) for x in node)
    return False


class Tr2(Tr):
    """translation with loops (a loop becomes a function recursive in a fuel argument; running out of fuel is `none`),
    `break` / `continue` / `return` inside loops, and a counter `c` of the key comparisons in evaluation order
    (`&&`, `||`, `!` in conditions are desugared into nested ifs so that short-circuit evaluation is counted exactly)"""

    def __init__(self, fn, sigs, fields, in_item, info):
        super().__init__(fn, sigs, fields, in_item)
        self.info = info              # name -> dict(pure, counting, fuel, ret, params)
        me = info[fn]
        self.pure, self.counting, self.fuel, self.ret = me["pure"], me["counting"], me["fuel"], me["ret"]
        self.loops = []
        self.nloops = 0
        self.ctor = None

    # -- results
    def res_type(self):
        parts = ([] if self.pure else ["Heap"]) + ({"void": [], "ptr": ["Nat"], "usize": ["Nat"], "ptrtag": ["Nat × Nat"], "desc": ["Nat × Nat × Cell"]}[self.ret]) + (["Nat"] if self.counting else [])
        t = " × ".join(parts) if parts else "Unit"
        return f"Option ({t})" if self.fuel else t

    def result(self, val, ind):
        parts = ([] if self.pure else ["h"]) + ([val] if val is not None else []) + (["c"] if self.counting else [])
        t = "()" if not parts else (parts[0] if len(parts) == 1 else "(" + ", ".join(parts) + ")")
        return f"{ind}{'some ' if self.fuel else ''}{t}\n"

    def binders(self, env_items):
        return "".join(f" ({lean_name(n)} : {LEAN_TY[ty]})" for n, ty in env_items)

    exits = None

    def lvaddr(self, e, env):
        """Cell for an expression of type Item**: `&lvalue` or a ?: of such"""
        e = self.strip(e)
        if e[0] == "addr":
            return self.lv(e[1], env)
        if e[0] == "tern":
            return f"(if {self.cond(e[1], env)} then {self.lvaddr(e[2], env)} else {self.lvaddr(e[3], env)})"
        raise Refuse(f"{self.fn}: Item** initialised with `{e[0]}`")

    # -- conditions with counting
    def is_keycmp(self, e, env):
        e = self.strip(e)
        if e[0] == "bin" and e[1] in ("==", "!=", "<", ">", "<=", ">="):
            try:
                _, ta = self.rv(e[2], env)
            except Refuse:
                return False
            return ta == "key"
        return False

    def ifthen(self, c, env, ind, T, E):
        c = self.strip(c)
        if c[0] == "not":
            return self.ifthen(c[1], env, ind, E, T)
        if c[0] == "bin" and c[1] == "&&":
            return self.ifthen(c[2], env, ind, lambda i: self.ifthen(c[3], env, i, T, E), E)
        if c[0] == "bin" and c[1] == "||":
            return self.ifthen(c[2], env, ind, T, lambda i: self.ifthen(c[3], env, i, T, E))
        pre = ""
        if self.is_keycmp(c, env):
            if not self.counting:
                raise Refuse(f"{self.fn}: key comparison in a function without key parameter")
            pre = f"{ind}let c := c + 1\n"
        cond = self.cond(c, env)
        return f"{pre}{ind}if {cond} then\n{T(ind + '  ')}{ind}else\n{E(ind + '  ')}"

    # -- statements
    def stmts2(self, items, env, ind, lp):
        if not items:
            if lp is not None:
                return lp["cont"](env, ind)
            if self.ret != "void":
                raise Refuse(f"{self.fn}: control reaches the end of a non-void function")
            return self.result(None, ind)
        s, rest = items[0], items[1:]
        k = s[0]
        if k == "skip":
            return self.stmts2(rest, env, ind, lp)
        if k == "block":
            if always_exits(s):
                return self.stmts2(list(s[1]), env, ind, lp)
            # a local of a nested block stays visible in what follows the block; harmless: a name can never be declared
            # twice on one path (refused), so nothing that follows can mean another variable by it
            return self.stmts2(list(s[1]) + rest, env, ind, lp)
        if k == "return":
            if s[1] is None:
                if self.ret != "void":
                    raise Refuse(f"{self.fn}: return without value")
                return self.result(None, ind)
            if self.ret == "void":
                raise Refuse(f"{self.fn}: return with a value in a void function")
            if self.ret == "desc":
                e0 = self.strip(s[1])
                if e0[0] == "call" and e0[1] == "insert" and len(e0[2]) == 4:
                    # `return insert(&cell, parent, key, value);` : the private insert is started in that cell
                    kk, vv = self.strip(e0[2][2]), self.strip(e0[2][3])
                    if kk[0] != "id" or env.get(kk[1]) != "key" or vv[0] != "id" or env.get(vv[1]) != "val":
                        raise Refuse(f"{self.fn}: the private insert is not called with the key and value parameters")
                    cellt = self.lvaddr(e0[2][0], env)
                    pt, pty = self.rv(e0[2][1], env, "ptr")
                    if pty != "ptr":
                        raise Refuse(f"{self.fn}: parent argument of the private insert is {pty}")
                    return self.result(f"1, {pt}, {cellt}", ind)
                t, ty = self.rv(s[1], env, "ptr")
                cells = [n for n, tt in env.items() if tt == "cellptr"]
                if ty != "ptr" or len(cells) > 1:
                    raise Refuse(f"{self.fn}: return in the descent")
                return self.result(f"0, {t}, {lean_name(cells[0]) if cells else 'Cell.root'}", ind)
            t, ty = self.rv(s[1], env, self.ret)
            if ty != self.ret:
                raise Refuse(f"{self.fn}: returns {ty}, declared {self.ret}")
            return self.result(t, ind)
        if k == "goto":
            if self.exits is None or s[1] not in self.exits:
                raise Refuse(f"{self.fn}: goto {s[1]}")
            if self.exits[s[1]] == "continue":
                if lp is None:
                    raise Refuse(f"{self.fn}: goto {s[1]} outside the loop it restarts")
                return lp["cont"](env, ind)
            return self.exits[s[1]](env, ind)
        if k == "exit":
            return s[1](env, ind)
        if k in ("break", "continue"):
            if lp is None:
                raise Refuse(f"{self.fn}: `{k}` outside a loop")
            return lp["brk" if k == "break" else "cont"](env, ind)
        if k == "decl":
            _, ty, name, init = s
            if name in env or (self.in_item and name in self.fields) or name in ("h", "c", "fuel", "self", "root", "this"):
                raise Refuse(f"{self.fn}: `{name}` redeclared / shadows a member")
            env2 = dict(env)
            if ty == "Item*&":
                env2[name] = "cell"
                return f"{ind}let {lean_name(name)} : Cell := {self.lv(init, env)}\n" + self.stmts2(rest, env2, ind, lp)
            if ty == "Item**":
                # a pointer to an Item* lvalue: only ever initialised with `&lvalue` (or a ?: of such) and used as `*name`
                env2[name] = "cellptr"
                return f"{ind}let {lean_name(name)} : Cell := {self.lvaddr(init, env)}\n" + self.stmts2(rest, env2, ind, lp)
            if ty not in FIELD_TYPES or ty == "T":
                raise Refuse(f"{self.fn}: local of type `{ty}`")
            lt = FIELD_TYPES[ty]
            if init is not None and self.strip(init)[0] == "assign":
                # `T a = b = e;`  is  `b = e; T a = b;`
                inner = self.strip(init)
                return self.stmts2([("expr", inner), ("decl", ty, name, inner[1])] + rest, env, ind, lp)
            env2[name] = lt
            if init is None:
                # uninitialised local: every read must be preceded by a store (not checked); it starts as 0 / null here
                return f"{ind}let {lean_name(name)} : {LEAN_TY[lt]} := 0\n" + self.stmts2(rest, env2, ind, lp)
            ini = self.strip(init)
            if ini[0] == "assign":
                raise Refuse(f"{self.fn}: assignment inside an initialiser")
            if ini[0] == "call" and ini[1] in self.info and ini[1] != "Iterator":
                return self.call_bind(ini, name, lt, env, env2, rest, ind, lp)
            t, tt = self.rv(init, env, lt)
            if tt != lt:
                raise Refuse(f"{self.fn}: `{name}` of type {ty} initialised with {tt}")
            return f"{ind}let {lean_name(name)} : {LEAN_TY[lt]} := {t}\n" + self.stmts2(rest, env2, ind, lp)
        if k == "if":
            c = self.strip(s[1])
            if c[0] == "assign":
                pre, env, val = self.assign(c[1], c[2], env, ind)
                lhs = self.strip(c[1])
                lty = env.get(lhs[1]) if lhs[0] == "id" else (self.field_type(lhs[2]) if lhs[0] == "field" else None)
                if val is None or lty != "ptr":
                    raise Refuse(f"{self.fn}: this assignment cannot be used as a condition")
                a = self.stmts2([s[2]] + rest, env, ind + "  ", lp)
                b = self.stmts2([s[3]] + rest, env, ind + "  ", lp)
                return f"{pre}{ind}if ({val} ≠ 0) then\n{a}{ind}else\n{b}"
            return self.ifthen(c, env, ind, lambda i: self.stmts2([s[2]] + rest, env, i, lp),
                               lambda i: self.stmts2([s[3]] + rest, env, i, lp))
        if k == "multidecl":
            return self.stmts2(list(s[1]) + rest, env, ind, lp)
        if k == "expr" and self.strip(s[1])[0] == "dtor":
            # `p->~Item();` destroys key and value: no effect on the heap model (the links and stored fields stay)
            t, ty = self.rv(self.strip(s[1])[1], env, "ptr")
            if ty != "ptr":
                raise Refuse(f"{self.fn}: destructor call on {ty}")
            return self.stmts2(rest, env, ind, lp)
        if k == "construct":
            # `new(p) Item(parent, key, value);` : the stores of the constructor's initialiser list (read from struct Item)
            if self.ctor is None:
                raise Refuse(f"{self.fn}: placement new, but no constructor Item(Item*, const T&, const V&) with an empty body was found")
            cparams, inits = self.ctor
            if len(s[2]) != len(cparams):
                raise Refuse(f"{self.fn}: Item constructed with {len(s[2])} arguments")
            tgt, tty = self.rv(s[1], env, "ptr")
            if tty != "ptr":
                raise Refuse(f"{self.fn}: placement new at {tty}")
            argt = {}
            for (pty, pname), a in zip(cparams, s[2]):
                t, tt = self.rv(a, env, pty)
                if tt != pty:
                    raise Refuse(f"{self.fn}: constructor argument `{pname}` is {tt}, expected {pty}")
                argt[pname] = (t, tt)
            lines = ""
            for f, val in inits:
                fty = self.field_type(f)
                if val in argt:
                    t, tt = argt[val]
                elif re.fullmatch(r"\d+", val):
                    t, tt = self.rv(("lit", int(val)), env, fty)
                    if tt == "lit":
                        tt = fty
                else:
                    raise Refuse(f"{self.fn}: constructor initialiser `{f}({val})`")
                if tt != fty:
                    raise Refuse(f"{self.fn}: constructor stores {tt} into the {fty} member `{f}`")
                lines += f"{ind}let h := h.set{f[0].upper() + f[1:]} {tgt} {t}\n"
            return lines + self.stmts2(rest, env, ind, lp)
        if k == "expr":
            e = self.strip(s[1])
            if e[0] in ("preinc", "predec"):
                x = self.strip(e[1])
                op = "+" if e[0] == "preinc" else "-"
                if x == ("id", "_size") and "_size" not in env and not self.in_item:
                    return f"{ind}let h := h.setSize (h.size {op} 1)\n" + self.stmts2(rest, env, ind, lp)
                if x[0] != "id" or env.get(x[1]) != "usize" or op == "-":
                    raise Refuse(f"{self.fn}: `{op}{op}` on something that is not a usize local")
                return f"{ind}let {lean_name(x[1])} := {lean_name(x[1])} + 1\n" + self.stmts2(rest, env, ind, lp)
            if e[0] == "assign":
                rhs = self.strip(e[2])
                lhs = self.strip(e[1])
                if rhs[0] == "assign":
                    # `a = b = e;` is `b = e; a = b;`
                    return self.stmts2([("expr", rhs), ("expr", ("assign", lhs, rhs[1]))] + rest, env, ind, lp)
                if lhs[0] == "field" and self.strip(lhs[1])[0] == "assign":
                    # `(a = b)->f = c;` : c first (C++17: the right operand of `=` is sequenced before the left), then `a = b`,
                    # then the store into member f of the pointer just assigned
                    inner = self.strip(lhs[1])
                    fty = self.field_type(lhs[2])
                    if self.fields[lhs[2]][1]:
                        raise Refuse(f"{self.fn}: store into const member `{lhs[2]}`")
                    ct, ctt = self.rv(rhs, env, fty)
                    if ctt != fty:
                        raise Refuse(f"{self.fn}: {ctt} stored into the {fty} member `{lhs[2]}`")
                    bt, btt = self.rv(inner[2], env, "ptr")
                    if btt != "ptr":
                        raise Refuse(f"{self.fn}: `(a = b)->{lhs[2]}` with b of type {btt}")
                    self.fresh += 2
                    tc, tb = f"t{self.fresh - 1}", f"t{self.fresh}"
                    line, env, _ = self.assign(inner[1], ("leanterm", tb, "ptr"), env, ind)
                    setter = "set" + lhs[2][0].upper() + lhs[2][1:]
                    return (f"{ind}let {tc} := {ct}\n{ind}let {tb} := {bt}\n{line}{ind}let h := h.{setter} {tb} {tc}\n"
                            + self.stmts2(rest, env, ind, lp))
                if rhs[0] == "call" and rhs[1] == "__allocBlock":
                    # the block allocation idiom (recognised as a unit in front of the parser)
                    if lhs[0] != "id" or env.get(lhs[1]) != "ptr" or len(rhs[2]) != 1 or self.strip(rhs[2][0])[0] != "lit":
                        raise Refuse(f"{self.fn}: block allocation stored into something that is not an Item* local")
                    self.fresh += 1
                    tmp = f"r{self.fresh}"
                    return (f"{ind}let {tmp} := h.allocBlock {self.strip(rhs[2][0])[1]} 0\n{ind}let h := {tmp}.1\n"
                            f"{ind}let {lean_name(lhs[1])} := {tmp}.2\n") + self.stmts2(rest, env, ind, lp)
                if lhs[0] == "id" and env.get(lhs[1]) == "cellptr":
                    return f"{ind}let {lean_name(lhs[1])} : Cell := {self.lvaddr(rhs, env)}\n" + self.stmts2(rest, env, ind, lp)
                if lhs[0] == "deref":
                    x = self.strip(lhs[1])
                    if x[0] != "id" or env.get(x[1]) != "cellptr":
                        raise Refuse(f"{self.fn}: store through `*` of something that is not an Item** local")
                    t, tt = self.rv(rhs, env, "ptr")
                    if tt != "ptr":
                        raise Refuse(f"{self.fn}: {tt} stored through an Item**")
                    return f"{ind}let h := h.set {lean_name(x[1])} {t}\n" + self.stmts2(rest, env, ind, lp)
                if rhs[0] == "call" and rhs[1] in self.info:
                    if lhs[0] != "id" or lhs[1] not in env:
                        raise Refuse(f"{self.fn}: result of `{rhs[1]}` stored into something that is not a local")
                    return self.call_bind(rhs, lhs[1], env[lhs[1]], env, env, rest, ind, lp)
                line, env, _ = self.assign(e[1], e[2], env, ind)
                return line + self.stmts2(rest, env, ind, lp)
            if e[0] == "mcall":
                if e[2] != "updateHeightAndSlope":
                    raise Refuse(f"{self.fn}: call of member `{e[2]}`")
                t, ty = self.rv(e[1], env, "ptr")
                return f"{ind}let h := updateHeightAndSlope h {t}\n" + self.stmts2(rest, env, ind, lp)
            if e[0] == "call" and e[1] == "__allocItems" and len(e[2]) == 1 and self.strip(e[2][0])[0] == "lit":
                # the helper that prepends a fresh block of N items to the free list (recognised in front of the parser)
                self.fresh += 1
                tmp = f"r{self.fresh}"
                return (f"{ind}let {tmp} := h.allocBlock {self.strip(e[2][0])[1]} h.freeItem\n{ind}let h := {tmp}.1\n"
                        f"{ind}let h := h.setFree {tmp}.2\n") + self.stmts2(rest, env, ind, lp)
            if e[0] == "call" and e[1] in self.info and e[1] not in self.sigs and self.info[e[1]]["ret"] == "void":
                # a fragment outlined by the translator (insertThread / insertRebalance): called on the enclosing locals
                inf = self.info[e[1]]
                if len(inf["params"]) != len(e[2]) or inf["pure"] or inf["counting"]:
                    raise Refuse(f"{self.fn}: call of `{e[1]}`")
                args = []
                for (pty, _), a in zip(inf["params"], e[2]):
                    a = self.strip(a)
                    if pty == "cellptr":
                        if a[0] != "id" or env.get(a[1]) != "cellptr":
                            raise Refuse(f"{self.fn}: `{e[1]}` needs an Item** local")
                        args.append(lean_name(a[1]))
                    else:
                        t, tt = self.rv(a, env, pty)
                        if tt != pty:
                            raise Refuse(f"{self.fn}: argument of `{e[1]}` is {tt}, expected {pty}")
                        args.append(t)
                if inf["fuel"]:
                    if not self.fuel:
                        raise Refuse(f"{self.fn}: calls the looping `{e[1]}` but has no fuel itself")
                    body = self.stmts2(rest, env, ind + "    ", lp)
                    return f"{ind}match {e[1]} fuel h {' '.join(args)} with\n{ind}| none => none\n{ind}| some h =>\n{body}"
                return f"{ind}let h := {e[1]} h {' '.join(args)}\n" + self.stmts2(rest, env, ind, lp)
            if e[0] == "call" and e[1] in self.sigs and self.sigs[e[1]][0] == "void":
                rty, params = self.sigs[e[1]]
                if len(params) != len(e[2]):
                    raise Refuse(f"{self.fn}: `{e[1]}` called with {len(e[2])} arguments")
                args = [self.lv(a, env) if pty == "cell" else self.rv(a, env, "ptr")[0] for (pty, _), a in zip(params, e[2])]
                return f"{ind}let h := {e[1]} h {' '.join(args)}\n" + self.stmts2(rest, env, ind, lp)
            raise Refuse(f"{self.fn}: expression statement `{e[0]}` is outside the translated subset")
        if k in ("for", "dowhile"):
            if lp is not None:
                raise Refuse(f"{self.fn}: nested loop")
            return self.loop(s, rest, env, ind)
        raise Refuse(f"{self.fn}: statement form `{k}` is outside the translated subset")

    def call_bind(self, call, name, lt, env, env2, rest, ind, lp):
        """`name = f(args)` for a translated function f with a result"""
        f = call[1]
        inf = self.info[f]
        if inf["ret"] != lt or lt == "void":
            raise Refuse(f"{self.fn}: `{f}` returns {inf['ret']}, stored into {lt}")
        if len(inf["params"]) != len(call[2]):
            raise Refuse(f"{self.fn}: `{f}` called with {len(call[2])} arguments")
        args = []
        for (pty, _), a in zip(inf["params"], call[2]):
            if pty == "cell":
                args.append(self.lv(a, env))
            else:
                t, tt = self.rv(a, env, pty)
                if tt != pty:
                    raise Refuse(f"{self.fn}: argument of `{f}` is {tt}, expected {pty}")
                args.append(t)
        if inf["fuel"] and not self.fuel:
            raise Refuse(f"{self.fn}: calls the looping `{f}` but has no fuel itself")
        if inf["counting"] and not self.counting:
            raise Refuse(f"{self.fn}: calls the comparing `{f}` but has no key parameter")
        if not inf["pure"] and self.pure:
            raise Refuse(f"{self.fn}: calls the storing `{f}` but is translated as read-only")
        head = f"{f}{' fuel' if inf['fuel'] else ''} h{' c' if inf['counting'] else ''} {' '.join(args)}".rstrip()
        pat = ([] if inf["pure"] else ["h"]) + [lean_name(name)] + (["c"] if inf["counting"] else [])
        pat_t = pat[0] if len(pat) == 1 else "(" + ", ".join(pat) + ")"
        body = self.stmts2(rest, env2, ind + ("    " if inf["fuel"] else ""), lp)
        if inf["fuel"]:
            return f"{ind}match {head} with\n{ind}| none => none\n{ind}| some {pat_t} =>\n{body}"
        if len(pat) == 1:
            return f"{ind}let {pat_t} := {head}\n{body}"
        self.fresh += 1
        tmp = f"r{self.fresh}"
        lines = f"{ind}let {tmp} := {head}\n"
        for j, x in enumerate(pat):
            proj = ".".join(["2"] * j + (["1"] if j < len(pat) - 1 else []))
            lines += f"{ind}let {x} := {tmp}.{proj}\n"
        return lines + body

    def loop(self, s, rest, env, ind):
        if not self.fuel:
            raise Refuse(f"{self.fn}: loop in a function translated without fuel")
        self.nloops += 1
        name = f"{self.fn}_loop{self.nloops if self.nloops > 1 else ''}"
        pre = ""
        env2 = dict(env)
        if s[0] == "for":
            _, init, cond, step, body = s
            if init is not None and init[0] == "multidecl":
                # a further declarator `* end = &endItem` that is never assigned is just a name for the sentinel's address
                keep = []
                for d in init[1]:
                    if d is not init[1][0] and d[3] is not None and self.strip(d[3]) == ("endptr",) and not assigns_to((cond, step, body), d[2]):
                        cond, step, body = subst_id((cond, step, body), d[2], ("endptr",))
                    else:
                        keep.append(d)
                for d in keep:
                    _, ty, nm, ini = d
                    if nm in env2 or ty not in FIELD_TYPES or ty in ("T", "V"):
                        raise Refuse(f"{self.fn}: for-init `{ty} {nm}`")
                    lt = FIELD_TYPES[ty]
                    t, tt = self.rv(ini, env2, lt)
                    if tt != lt:
                        raise Refuse(f"{self.fn}: for-init `{nm}` of type {ty} initialised with {tt}")
                    pre += f"{ind}let {lean_name(nm)} : {LEAN_TY[lt]} := {t}\n"
                    env2[nm] = lt
            elif init is not None:
                if init[0] == "decl":
                    _, ty, nm, ini = init
                    if nm in env or ty not in FIELD_TYPES or ty in ("T", "V"):
                        raise Refuse(f"{self.fn}: for-init `{ty} {nm}`")
                    lt = FIELD_TYPES[ty]
                    if ini is None:
                        t, tt = "0", lt
                    else:
                        t, tt = self.rv(ini, env, lt)
                    if tt != lt:
                        raise Refuse(f"{self.fn}: for-init `{nm}` of type {ty} initialised with {tt}")
                    pre = f"{ind}let {lean_name(nm)} : {LEAN_TY[lt]} := {t}\n"
                    env2[nm] = lt
                else:
                    e = self.strip(init[1])
                    if e[0] != "assign":
                        raise Refuse(f"{self.fn}: for-init expression")
                    pre, env2, _ = self.assign(e[1], e[2], env2, ind)
        else:
            _, body, cond = s
            step = []
        params = list(env2.items())
        call_args = " ".join(lean_name(n) for n, _ in params)
        call = lambda e_, i_: f"{i_}{name} fuel h{' c' if self.counting else ''} {call_args}\n".replace("  \n", "\n")
        outer_rest = lambda e_, i_: self.stmts2(rest, e_, i_, None)
        if s[0] == "for":
            def cont(e_, i_):
                return self.stmts2(list(step), e_, i_, {"cont": call, "brk": call})   # after the step: next iteration
            lp = {"cont": cont, "brk": outer_rest}
            if cond is None:
                inner = self.stmts2([body], env2, "    ", lp)
            elif self.strip(cond)[0] == "assign":
                # `for(...; (x = e); ...)`: store, then test the stored pointer
                cc = self.strip(cond)
                prel, env3, val = self.assign(cc[1], cc[2], env2, "    ")
                lhs = self.strip(cc[1])
                if val is None or lhs[0] != "id" or env2.get(lhs[1]) != "ptr":
                    raise Refuse(f"{self.fn}: this assignment cannot be used as a loop condition")
                inner = (prel + f"    if ({val} ≠ 0) then\n" + self.stmts2([body], env3, "      ", lp) +
                         "    else\n" + outer_rest(env3, "      "))
            else:
                inner = self.ifthen(cond, env2, "    ", lambda i: self.stmts2([body], env2, i, lp), lambda i: outer_rest(env2, i))
        else:
            def cont(e_, i_):
                return self.ifthen(cond, e_, i_, lambda i: call(e_, i), lambda i: outer_rest(e_, i))
            lp = {"cont": cont, "brk": outer_rest}
            inner = self.stmts2([body], env2, "    ", lp)
        self.loops.append(
            f"def {name} (fuel : Nat) (h : Heap){' (c : Nat)' if self.counting else ''}{self.binders(params)} : {self.res_type()} :=\n"
            f"  match fuel with\n  | 0 => none\n  | fuel + 1 =>\n{inner}")
        return pre + call(env2, ind)


def assigns_to(node, name):
    if isinstance(node, tuple):
        if node and node[0] == "assign":
            l = node[1]
            while l[0] == "paren":
                l = l[1]
            if l == ("id", name):
                return True
        if node and node[0] in ("preinc", "predec") and node[1] == ("id", name):
            return True
        return any(assigns_to(x, name) for x in node[1:])
    if isinstance(node, list):
        return any(assigns_to(x, name) for x in node)
    return False


def subst_id(node, name, repl):
    if isinstance(node, tuple):
        if node == ("id", name):
            return repl
        return tuple(subst_id(x, name, repl) for x in node)
    if isinstance(node, list):
        return [subst_id(x, name, repl) for x in node]
    return node


def always_returns(s):
    if s[0] == "return":
        return True
    if s[0] == "block":
        return bool(s[1]) and always_returns(s[1][-1])
    if s[0] == "if":
        return always_returns(s[2]) and always_returns(s[3])
    return False


def parse_params(fn, text):
    params = []
    text = text.strip()
    if not text:
        return params
    for p in text.split(","):
        m = re.fullmatch(r"\s*Item\s*\*\s*(&?)\s*(\w+)\s*", p)
        mk = re.fullmatch(r"\s*const\s+T\s*&\s*(\w+)\s*", p)
        if mk:
            params.append(("key", mk.group(1)))
            continue
        mv = re.fullmatch(r"\s*const\s+V\s*&\s*(\w+)\s*", p)
        if mv:
            params.append(("val", mv.group(1)))
            continue
        mc = re.fullmatch(r"\s*Item\s*\*\s*\*\s*(\w+)\s*", p)
        if mc:
            params.append(("cellptr", mc.group(1)))
            continue
        if not m:
            raise Refuse(f"{fn}: parameter `{p.strip()}`")
        params.append(("cell" if m.group(1) else "ptr", m.group(2)))
    return params


CELL_HELPERS = {}


def find_cell_helpers(src):
    CELL_HELPERS.clear()
    for m in re.finditer(r"Item\s*\*\s*&\s*(\w+)\s*\(\s*Item\s*\*\s*(\w+)\s*\)\s*\{", src):
        body = src[m.end():balanced(src, m.end() - 1) - 1]
        p = P(tokenize(body), m.group(1))
        items = p.block_items()
        if p.peek() is None:
            CELL_HELPERS[m.group(1)] = (m.group(2), items)


def translate_header(path):
    src = strip_comments(Path(path).read_text())
    find_cell_helpers(src)
    fields, (istart, iend) = item_fields(src)
    for f, want in HEAP_FIELDS.items():
        if f not in fields or FIELD_TYPES.get(fields[f][0]) != want:
            raise Refuse(f"struct Item: member `{f}` is {fields.get(f)}, the heap model expects {want}")
    raw, sigs = {}, {}
    for fn in FUNCS:
        rty, static, ptxt, body, pos = extract(src, fn)
        in_item = istart < pos < iend
        if fn == "updateHeightAndSlope" and not in_item:
            raise Refuse("updateHeightAndSlope is not a member of Item")
        if fn != "updateHeightAndSlope" and in_item:
            raise Refuse(f"{fn} is a member of Item")
        params = parse_params(fn, ptxt)
        raw[fn] = (rty, params, body, in_item)
        sigs[fn] = (rty, params)
    out, norm = {}, {}
    for fn in FUNCS:
        rty, params, body, in_item = raw[fn]
        toks = tokenize(body)
        norm[fn] = toks
        p = P(toks, fn)
        items = p.block_items()
        if p.peek() is not None:
            raise Refuse(f"{fn}: trailing tokens")
        tr = Tr(fn, sigs, fields, in_item)
        env = {name: ty for ty, name in params}
        binders = "(h : Heap)" + (" (self : Nat)" if in_item else "") + "".join(
            f" ({lean_name(n)} : {'Cell' if ty == 'cell' else 'Nat'})" for ty, n in params)
        body_l = tr.stmts(items, env, "  ", rty)
        out[fn] = f"def {fn} {binders} : {'Heap' if rty == 'void' else 'Heap × Nat'} :=\n{body_l}"
    # ---- second layer: loops (fuel), key comparisons (counter) ----
    info = {fn: {"pure": False, "counting": False, "fuel": False, "ret": {"void": "void", "Item*": "ptr"}[sigs[fn][0]],
                 "params": sigs[fn][1]} for fn in FUNCS}
    order2 = []
    asts = {}
    # public find / count
    for fn in ("find", "count"):
        try:
            rty, static, ptxt, body, pos = extract(src, fn)
        except Refuse as e:
            if fn == "count" and "0 definitions" in str(e):
                continue                      # Map has no count
            raise
        params = parse_params(fn, ptxt)
        toks = tokenize(body)
        norm[fn] = toks
        p = P(toks, fn)
        items = p.block_items()
        if p.peek() is not None:
            raise Refuse(f"{fn}: trailing tokens")
        asts[fn] = (items, params, {"Iterator": "ptr", "usize": "usize", "void": "void", "Item*": "ptr"}[rty])
        order2.append(fn)
    # the upward loop of the private insert: `do { ... } while(parent);`
    m = re.search(r"Iterator\s+insert\s*\(\s*Item\s*\*\*\s*cell\s*,\s*Item\s*\*\s*parent\s*,[^)]*\)\s*\{", src)
    if not m:
        raise Refuse("private insert(Item** cell, Item* parent, ...) not found")
    ibody = src[m.end():balanced(src, m.end() - 1) - 1]
    dos = [x.start() for x in re.finditer(r"\bdo\b", ibody)]
    if len(dos) != 1:
        raise Refuse(f"private insert: {len(dos)} do-while loops, expected exactly one (the upward rebalancing loop)")
    bstart = ibody.index("{", dos[0])
    bend = balanced(ibody, bstart)
    mw = re.match(r"\s*while\s*\(", ibody[bend:])
    if not mw:
        raise Refuse("private insert: `do {...}` without `while(`")
    wend = balanced(ibody, bend + mw.end() - 1, "(", ")")
    frag = ibody[dos[0]:wend] + ";"
    toks = tokenize(frag)
    norm["insertRebalance"] = toks
    p = P(toks, "insertRebalance")
    items = p.block_items()
    if p.peek() is not None or len(items) != 1 or items[0][0] != "dowhile":
        raise Refuse("insertRebalance: the extracted fragment is not one do-while statement")
    # a scalar declared at the top level of the loop body is re-initialised in every iteration: it is the same as a local
    # declared before the loop and assigned there (normal form: the loop function always has the same parameters)
    hoisted = []
    body0 = items[0][1]
    if body0[0] == "block":
        nb = []
        for st in body0[1]:
            if st[0] == "decl" and st[3] is not None and st[1] in ("usize", "ssize", "Item*"):
                hoisted.append(("decl", st[1], st[2], None))
                nb.append(("expr", ("assign", ("id", st[2]), st[3])))
            else:
                nb.append(st)
        items = [("dowhile", ("block", nb), items[0][2])]
    # variables the loop uses but does not declare: `parent` (parameter) and locals declared before the loop
    used, declared = set(), set()

    def walk(n):
        if isinstance(n, tuple):
            if n and n[0] == "id":
                used.add(n[1])
            if n and n[0] == "decl":
                declared.add(n[2])
            if n and n[0] == "field":
                walk(n[1])
                return
            for x in n[1:]:
                walk(x)
        elif isinstance(n, list):
            for x in n:
                walk(x)
    walk(items)
    pre = []
    for v in sorted(used - declared - {"parent"} - {d[2] for d in hoisted}):
        if v in FUNCS or v in ("this",):
            continue
        md = re.search(r"\b(usize|ssize|Item\s*\*)\s+" + v + r"\s*;", ibody[:dos[0]])
        if not md:
            raise Refuse(f"insertRebalance: `{v}` is neither declared in the loop nor a plain local declared before it")
        pre.append(("decl", re.sub(r"\s+", "", md.group(1)), v, None))
    pre = sorted(pre + hoisted, key=lambda d: d[2])
    asts["insertRebalance"] = (pre + items, [("ptr", "parent")], "void")
    order2.append("insertRebalance")
    # the descent of the private insert.  Two shapes are understood:
    #   A  `begin: ... Item* position = *cell; if(!position) { <link the new item> } else { compare; cell = ...; goto begin; }`
    #   B  `for(Item* position; (position = *cell); parent = position) { compare; cell = ...; }  <link the new item>`
    # In both the part that links the new item is cut off (exit `leaf` with the cell and the parent reached).
    mpar = re.search(r"Iterator\s+insert\s*\(([^)]*Item\s*\*\*[^)]*)\)\s*\{", src)
    iparams = parse_params("insertDescend", mpar.group(1))
    mb = re.search(r"\bbegin\s*:", ibody)
    mnew = re.search(r"\bnew\b", ibody)
    if mb and (not mnew or mb.start() < mnew.start()):
        rest_txt = ibody[mb.end():]
        mi = re.search(r"if\s*\(\s*!\s*position\s*\)\s*\{", rest_txt)
        if not mi:
            raise Refuse("insertDescend: `if(!position) {` not found behind `begin:`")
        bend = balanced(rest_txt, mi.end() - 1)
        cut = rest_txt[:mi.end()] + " goto insertLeaf; }" + rest_txt[bend:]
        toks = tokenize(cut)
        p = P(toks, "insertDescend")
        body_items = p.block_items()
        if p.peek() is not None:
            raise Refuse("insertDescend: trailing tokens")
        loop = ("for", None, None, [], ("block", body_items))
        dshape = "goto"
        leaf_span = (mb.end() + mi.end(), mb.end() + bend - 1)      # the content of `if(!position) { ... }`
    else:
        mf = re.search(r"\bfor\s*\(", ibody)
        if not mf or (mnew and mf.start() > mnew.start()):
            raise Refuse("insertDescend: neither the `begin:`/goto shape nor a descending for loop in front of the allocation")
        pend = balanced(ibody, mf.end() - 1, "(", ")")
        bstart = ibody.index("{", pend)
        if ibody[pend:bstart].strip():
            raise Refuse("insertDescend: the descending for loop has no block body")
        bend = balanced(ibody, bstart)
        toks = tokenize(ibody[mf.start():bend])
        p = P(toks, "insertDescend")
        loop = p.stmt()
        if p.peek() is not None or loop[0] != "for":
            raise Refuse("insertDescend: the extracted fragment is not one for loop")
        dshape = "for"
        leaf_span = (bend, len(ibody))                               # what follows the descending loop
    norm["insertDescend"] = toks
    loop, hoisted = hoist_loop_locals(loop)
    if dshape == "for" and loop[1] is not None and loop[1][0] == "decl" and loop[1][3] is None:
        # `for(Item* position; ...` : the same as a local declared in front of the loop
        hoisted = hoisted + [("decl", loop[1][1], loop[1][2], None)]
        loop = ("for", None) + loop[2:]
    asts["insertDescend"] = (sorted(hoisted, key=lambda d: d[2]) + [loop, ("goto", "insertLeaf")], iparams, "desc")
    order2.append("insertDescend")
    # the threading of the new item into the prev/next list: the statements between the `if(!parent) { first item }`
    # block and the upward loop
    mfp = re.search(r"if\s*\(\s*!\s*parent\s*\)\s*\{", ibody)
    if not mfp:
        raise Refuse("insertThread: `if(!parent) {` not found in the private insert")
    fend = balanced(ibody, mfp.end() - 1)
    if fend > dos[0]:
        raise Refuse("insertThread: the upward loop is not behind the first-item block")
    frag = ibody[fend:dos[0]]
    frag = re.sub(r"^\s*else\s*\{", "", frag)
    frag = re.sub(r"(usize|ssize)\s+\w+\s*;\s*$", "", frag.rstrip()) if re.search(r"(usize|ssize)\s+\w+\s*;\s*$", frag.rstrip()) else frag
    toks = tokenize(frag)
    norm["insertThread"] = toks
    p = P(toks, "insertThread")
    items = p.block_items()
    if p.peek() is not None or not items:
        raise Refuse("insertThread: cannot isolate the threading statements")
    asts["insertThread"] = (items, [("cellptr", "cell"), ("ptr", "parent"), ("ptr", "item")], "void")
    order2.append("insertThread")
    # the part of the private insert that links the new item (everything the descent was cut off from): allocation,
    # construction, `*cell = item`, `++_size`, first-item case, threading, upward loop.  The threading statements and the
    # upward loop are outlined: replaced by calls of the fragments `insertThread` / `insertRebalance` translated above
    # (the SAME text spans), so that the theorems about them apply.
    if not (leaf_span[0] <= mfp.start() and wend <= leaf_span[1]):
        raise Refuse("insertLeaf: the first-item test / the upward loop are not inside the part that links the new item")
    after = ibody[wend:leaf_span[1]]
    msc = re.match(r"\s*;", after)
    if not msc:
        raise Refuse("insertLeaf: `do {...} while(...)` without `;`")
    mid = ibody[fend:dos[0]]
    has_else = re.match(r"\s*else\s*\{", mid) is not None
    leaf_txt = (ibody[leaf_span[0]:fend] + (" else { " if has_else else " ") + "insertThread(cell, parent, item); insertRebalance(parent); "
                + after[msc.end():])
    leaf_txt, nalloc = outline_alloc(leaf_txt, src)
    BLOCK_SIZES[str(path)] = nalloc
    toks = tokenize(leaf_txt)
    norm["insertLeaf"] = toks
    p = P(toks, "insertLeaf")
    items = p.block_items()
    if p.peek() is not None:
        raise Refuse("insertLeaf: trailing tokens")
    asts["insertLeaf"] = (items, iparams, "ptr")
    order2.append("insertLeaf")
    ctor = item_ctor(src[istart:iend])
    # the public plain insert: `return insert(&root, 0, key, value);`
    mp = re.search(r"Iterator\s+insert\s*\(\s*const\s+T\s*&\s*(\w+)\s*,\s*const\s+V\s*&\s*(\w+)\s*\)\s*\{", src)
    if not mp:
        raise Refuse("insert(const T&, const V&) not found")
    pbody = src[mp.end():balanced(src, mp.end() - 1) - 1]
    toks = tokenize(pbody)
    norm["insertPlainHead"] = toks
    p = P(toks, "insertPlainHead")
    items = p.block_items()
    if p.peek() is not None:
        raise Refuse("insertPlainHead: trailing tokens")
    asts["insertPlainHead"] = (items, [("key", mp.group(1)), ("val", mp.group(2))], "desc")
    order2.append("insertPlainHead")
    # clear()
    mc = re.search(r"void\s+clear\s*\(\s*\)\s*\{", src)
    if not mc:
        raise Refuse("clear() not found")
    cbody = src[mc.end():balanced(src, mc.end() - 1) - 1]
    toks = tokenize(cbody)
    norm["clear"] = toks
    p = P(toks, "clear")
    items = p.block_items()
    if p.peek() is not None:
        raise Refuse("clear: trailing tokens")
    asts["clear"] = (items, [], "void")
    order2.append("clear")
    # the hinted insert: the neighbour tests in front of the private insert
    mh = re.search(r"Iterator\s+insert\s*\(\s*const\s+Iterator\s*&\s*(\w+)\s*,\s*const\s+T\s*&\s*(\w+)\s*,"
                   r"\s*const\s+V\s*&\s*(\w+)\s*\)\s*\{", src)
    if not mh:
        raise Refuse("insert(const Iterator&, const T&, const V&) not found")
    hbody = src[mh.end():balanced(src, mh.end() - 1) - 1]
    toks = tokenize(hbody)
    norm["insertHint"] = toks
    p = P(toks, "insertHint")
    items = p.block_items()
    if p.peek() is not None:
        raise Refuse("insertHint: trailing tokens")
    asts["insertHint"] = (items, [("ptr", mh.group(1)), ("key", mh.group(2)), ("val", mh.group(3))], "desc")
    order2.append("insertHint")
    # the head of remove(it): cell computation, the three trivial cases, the choice of the neighbour
    m = re.search(r"Iterator\s+remove\s*\(\s*const\s+Iterator\s*&\s*(\w+)\s*\)\s*\{", src)
    if not m:
        raise Refuse("remove(const Iterator&) not found")
    rbody = src[m.end():balanced(src, m.end() - 1) - 1]
    ml = re.search(r"\brebalParent\s*:", rbody)
    if not ml:
        raise Refuse("remove: label rebalParent not found")
    head = rbody[:ml.start()]
    if head.count("{") != head.count("}"):
        raise Refuse("remove: the label rebalParent is not at the top level of the function")
    toks = tokenize(head)
    norm["removeHead"] = toks
    p = P(toks, "removeHead")
    items = p.block_items()
    if p.peek() is not None or not items or items[-1][0] != "if" or not always_goto(items[-1][2], "rebalParent") \
            or not always_goto(items[-1][3], "rebalParent"):
        raise Refuse("removeHead: the statements in front of `rebalParent:` do not end with the two-children if/else "
                     "whose branches both go to rebalParent")
    asts["removeHead"] = (items, [("ptr", m.group(1))], "ptrtag")
    order2.append("removeHead")
    # the loop behind the label rebalParentUpwards: `while(parent) { ... }`
    mu = re.search(r"\brebalParentUpwards\s*:", rbody)
    if not mu:
        raise Refuse("remove: label rebalParentUpwards not found")
    toks = tokenize(rbody[mu.end():])
    p = P(toks, "removeUpwards")
    loop = p.stmt()
    if loop[0] != "for" or loop[1] is not None or loop[3]:
        raise Refuse("removeUpwards: the statement behind `rebalParentUpwards:` is not a while loop")
    norm["removeUpwards"] = toks[:p.i]
    loop, hoisted = hoist_loop_locals(loop)
    pre = free_locals([loop], hoisted, ["parent"], rbody[:mu.start()], "removeUpwards")
    asts["removeUpwards"] = (pre + [loop], [("ptr", "parent")], "void")
    order2.append("removeUpwards")
    # the loop behind the label rebalParent: `do { ... } while(parent != origParent);` — falls through to rebalParentUpwards
    rtxt = rbody[ml.end():mu.start()]
    toks = tokenize(rtxt)
    norm["removeRebal"] = toks
    p = P(toks, "removeRebal")
    items = p.block_items()
    if p.peek() is not None or len(items) != 1 or items[0][0] != "dowhile":
        raise Refuse("removeRebal: what stands between `rebalParent:` and `rebalParentUpwards:` is not one do-while loop")
    rloop, rhoist = hoist_loop_locals(items[0])
    asts["removeRebal"] = (sorted(rhoist, key=lambda d: d[2]) + [rloop, ("goto", "rebalDone")],
                           [("cellptr", "cell"), ("ptr", "origParent"), ("ptr", "parent")], "ptr")
    order2.append("removeRebal")
    # what follows the rebalParentUpwards loop: unlinking from the prev/next list, `--_size`, pushing onto the free list
    tail_txt = rbody[mu.end():]
    ptail = P(tokenize(tail_txt), "removeTail")
    ptail.stmt()                                  # the while loop (already translated as removeUpwards)
    tail_toks = ptail.t[ptail.i:]
    norm["removeTail"] = tail_toks
    p = P(tail_toks, "removeTail")
    items = p.block_items()
    if p.peek() is not None:
        raise Refuse("removeTail: trailing tokens")
    asts["removeTail"] = (items, [("ptr", "item")], "ptr")
    order2.append("removeTail")
    # the complete remove(it): the statements in front of `rebalParent:` with the labels as continuations
    p = P(tokenize(head), "remove")
    asts["remove"] = (p.block_items(), [("ptr", m.group(1))], "ptr")
    order2.append("remove")
    pure_of = {fn: False for fn in FUNCS}
    for fn in order2:
        items, params, ret = asts[fn]
        pure = not writes_heap(items, pure_of)
        pure_of[fn] = pure
        fuel = has_loop(items) or any(info[g]["fuel"] for g in info if ("call", g) in {(x[0], x[1]) for x in _calls(items)})
        if fn == "remove":
            fuel, pure = True, False          # its labels continue into the looping removeRebal / removeUpwards
        info[fn] = {"pure": pure, "counting": any(t == "key" for t, _ in params), "fuel": fuel, "ret": ret, "params": params}
    for fn in order2:
        items, params, ret = asts[fn]
        tr = Tr2(fn, sigs, fields, False, info)
        tr.ctor = ctor
        env = {name: ty for ty, name in params}
        if fn == "insertDescend":
            def leaf(env_, ind_):
                cells = [n for n, tt in env_.items() if tt == "cellptr"]
                if env_.get("parent") != "ptr" or len(cells) != 1:
                    raise Refuse("insertDescend: no Item* parent / Item** cell in scope where the new item is linked")
                return tr.result(f"1, {lean_name('parent')}, {lean_name(cells[0])}", ind_)
            tr.exits = {"insertLeaf": leaf, "begin": "continue"}
        if fn == "removeHead":
            def mk_exit(tag):
                def ex(env_, ind_):
                    if env_.get("parent") != "ptr":
                        raise Refuse("removeHead: no Item* parent in scope at an exit")
                    return tr.result(f"{lean_name('parent')}, {tag}", ind_)
                return ex
            tr.exits = {"rebalParentUpwards": mk_exit(0)}
            last = items[-1]
            items = items[:-1] + [("if", last[1], ("exit", mk_exit(1)), ("exit", mk_exit(2)))]
        if fn == "removeRebal":
            def done(env_, ind_):
                return tr.result(lean_name("parent"), ind_)
            tr.exits = {"rebalDone": done}
        if fn == "remove":
            def need(env_, names):
                for n_, t_ in names:
                    if env_.get(n_) != t_:
                        raise Refuse(f"remove: no {t_} local `{n_}` in scope at a label")
            def upwards(env_, ind_):
                need(env_, [("parent", "ptr"), ("item", "ptr")])
                return (f"{ind_}match removeUpwards fuel h v_parent with\n{ind_}| none => none\n{ind_}| some h =>\n"
                        f"{ind_}    some (removeTail h v_item)\n")
            def rebalp(env_, ind_):
                need(env_, [("parent", "ptr"), ("origParent", "ptr"), ("cell", "cellptr")])
                return (f"{ind_}match removeRebal fuel h v_cell v_origParent v_parent with\n{ind_}| none => none\n"
                        f"{ind_}| some (h, v_parent) =>\n" + upwards(env_, ind_ + "    "))
            tr.exits = {"rebalParentUpwards": upwards, "rebalParent": rebalp}
        body_l = tr.stmts2(items, env, "  ", None)
        binders = (" (fuel : Nat)" if info[fn]["fuel"] else "") + " (h : Heap)" + (" (c : Nat)" if info[fn]["counting"] else "") + tr.binders([(n, t) for t, n in params])
        out[fn] = "\n".join(tr.loops) + ("\n" if tr.loops else "") + f"def {fn}{binders} : {tr.res_type()} :=\n{body_l}"
    # ---- compositions: the complete private insert = descent, then (tag 1) the linking part in the cell / under the
    # parent the descent reached; the public inserts = their head (which cell the private insert is started in), then the
    # private insert.  Tag 0 = the function returned the item in the second component.
    def compose(name, head, head_args, binders, callee):
        hp = info[head]["pure"]
        pat = ("(tag, p, cell, c)" if hp else "(h, tag, p, cell, c)")
        call = f"{head}{' fuel' if info[head]['fuel'] else ''} h c {head_args}"
        tail = f"if tag = 0 then some (h, p, c) else {callee} fuel h c cell p v_key v_value"
        if info[head]["fuel"]:
            return (f"def {name} (fuel : Nat) (h : Heap) (c : Nat){binders} : Option (Heap × Nat × Nat) :=\n"
                    f"  match {call} with\n  | none => none\n  | some {pat} => {tail}\n")
        return (f"def {name} (fuel : Nat) (h : Heap) (c : Nat){binders} : Option (Heap × Nat × Nat) :=\n"
                f"  match {call} with\n  | {pat} => {tail}\n")
    kv = " (v_key : Int) (v_value : Int)"
    if [n for _, n in iparams] != ["cell", "parent", "key", "value"]:
        raise Refuse(f"private insert: parameters {iparams}, expected (cell, parent, key, value)")
    for fn_, want in (("insertPlainHead", ["key", "value"]), ("insertHint", ["position", "key", "value"])):
        got = [n for _, n in asts[fn_][1]]
        if got[-2:] != ["key", "value"] or len(got) != len(want):
            raise Refuse(f"{fn_}: parameters {got}, expected {want}")
    hint_pos = lean_name(asts["insertHint"][1][0][1])
    out["insertPrivate"] = compose("insertPrivate", "insertDescend", "v_cell v_parent v_key v_value",
                                   " (v_cell : Cell) (v_parent : Nat)" + kv, "insertLeaf")
    out["insertPlain"] = compose("insertPlain", "insertPlainHead", "v_key v_value", kv, "insertPrivate")
    out["insertAt"] = compose("insertAt", "insertHint", f"{hint_pos} v_key v_value", f" ({hint_pos} : Nat)" + kv, "insertPrivate")
    order2 += ["insertPrivate", "insertPlain", "insertAt"]
    # ---- the one-line public bodies over find / remove(it): recognised by the shape of their syntax tree
    info["oneLiner"] = {"pure": True, "counting": False, "fuel": False, "ret": "void", "params": []}
    trx = Tr2("oneLiner", sigs, fields, False, info)

    def body_of(rx, what):
        mm = re.search(rx, src)
        if not mm:
            raise Refuse(f"{what} not found")
        pp = P(tokenize(src[mm.end():balanced(src, mm.end() - 1) - 1]), what)
        its = pp.block_items()
        if pp.peek() is not None:
            raise Refuse(f"{what}: trailing tokens")
        return mm, [x for x in its if x[0] != "skip"]

    def is_find_call(e, key):
        e = trx.strip(e)
        return e[0] == "call" and e[1] == "find" and len(e[2]) == 1 and trx.strip(e[2][0]) == ("id", key)

    # bool contains(const T& key) const {return find(key) != _end;}
    mm, its = body_of(r"bool\s+contains\s*\(\s*const\s+T\s*&\s*(\w+)\s*\)\s*(?:const\s*)?\{", "contains")
    e = trx.strip(its[0][1]) if len(its) == 1 and its[0][0] == "return" and its[0][1] is not None else None
    if not (e and e[0] == "bin" and e[1] == "!=" and is_find_call(e[2], mm.group(1)) and trx.strip(e[3]) == ("id", "_end")):
        raise Refuse("contains: body is not `return find(key) != _end;`")
    out["contains"] = ("def contains (fuel : Nat) (h : Heap) (c : Nat) (v_key : Int) : Option (Bool × Nat) :=\n"
                       "  match find fuel h c v_key with\n  | none => none\n  | some (v_it, c) => some (decide (v_it ≠ h.endItem), c)\n")
    # Iterator removeFront() {return remove(_begin);}   Iterator removeBack() {return remove(_end.item->prev);}
    for nm in ("removeFront", "removeBack"):
        mm, its = body_of(r"Iterator\s+" + nm + r"\s*\(\s*\)\s*\{", nm)
        e = trx.strip(its[0][1]) if len(its) == 1 and its[0][0] == "return" and its[0][1] is not None else None
        if not (e and e[0] == "call" and e[1] == "remove" and len(e[2]) == 1):
            raise Refuse(f"{nm}: body is not `return remove(<iterator>);`")
        trx.fn = nm
        t, ty = trx.rv(e[2][0], {}, "ptr")
        if ty != "ptr":
            raise Refuse(f"{nm}: remove called with {ty}")
        out[nm] = f"def {nm} (fuel : Nat) (h : Heap) : Option (Heap × Nat) :=\n  remove fuel h {t}\n"
    # void remove(const T& key) { Iterator it = find(key); if(it != _end) remove(it); }
    mm, its = body_of(r"void\s+remove\s*\(\s*const\s+T\s*&\s*(\w+)\s*\)\s*\{", "remove(key)")
    ok = (len(its) == 2 and its[0][0] == "decl" and its[0][1] == "Iterator" and its[0][3] is not None
          and is_find_call(its[0][3], mm.group(1)) and its[1][0] == "if")
    if ok:
        itn = its[0][2]
        cnd, thn, els = trx.strip(its[1][1]), its[1][2], its[1][3]
        while thn[0] == "block" and len(thn[1]) == 1:
            thn = thn[1][0]
        call = trx.strip(thn[1]) if thn[0] == "expr" else None
        ok = (cnd == ("bin", "!=", ("id", itn), ("id", "_end")) and els == ("block", []) and call is not None
              and call[0] == "call" and call[1] == "remove" and len(call[2]) == 1 and trx.strip(call[2][0]) == ("id", itn))
    if not ok:
        raise Refuse("remove(key): body is not `Iterator it = find(key); if(it != _end) remove(it);`")
    out["removeKey"] = ("def removeKey (fuel : Nat) (h : Heap) (c : Nat) (v_key : Int) : Option (Heap × Nat) :=\n"
                        "  match find fuel h c v_key with\n  | none => none\n  | some (v_it, c) =>\n"
                        "    if (v_it ≠ h.endItem) then\n      match remove fuel h v_it with\n      | none => none\n"
                        "      | some (h, _) => some (h, c)\n    else\n      some (h, c)\n")
    order2 += ["contains", "removeFront", "removeBack", "removeKey"]
    return out, norm, order2


RX_ALLOC_CORE = (r"ItemBlock\s*\*\s*(?P<b>\w+)\s*=\s*\(\s*ItemBlock\s*\*\s*\)\s*new\s+char\s*\[\s*sizeof\s*\(\s*ItemBlock\s*\)\s*\+\s*"
                 r"sizeof\s*\(\s*Item\s*\)\s*\*\s*(?P<n1>\w+)\s*\]\s*;\s*(?P=b)\s*->\s*next\s*=\s*blocks\s*;\s*blocks\s*=\s*(?P=b)\s*;\s*")
RX_ALLOC_FILL = (r"for\s*\(\s*Item\s*\*\s*(?P<i>\w+)\s*=\s*\(\s*Item\s*\*\s*\)\s*\(\s*(?P=b)\s*\+\s*1\s*\)\s*,\s*\*\s*(?P<e>\w+)\s*=\s*(?P=i)\s*\+\s*"
                 r"(?P<n2>\w+)\s*;\s*(?P=i)\s*<\s*(?P=e)\s*;\s*\+\+\s*(?P=i)\s*\)\s*\{\s*(?P=i)\s*->\s*prev\s*=\s*(?P=x)\s*;\s*(?P=x)\s*=\s*(?P=i)\s*;\s*\}\s*")


def resolve_const(tok, src):
    if re.fullmatch(r"\d+", tok):
        return int(tok)
    for rx in (r"enum\s*\w*\s*\{[^}]*\b" + tok + r"\s*=\s*(\d+)", r"static\s+const\s+\w+\s+" + tok + r"\s*=\s*(\d+)\s*;"):
        m = re.search(rx, src)
        if m:
            return int(m.group(1))
    raise Refuse(f"block allocation: cannot evaluate `{tok}`")


def outline_alloc(txt, src):
    """replace the block allocation idiom by `x = __allocBlock(N);`.  Two forms are recognised:
       inline   `if(!x) { ItemBlock* b = (ItemBlock*)new char[...N]; b->next = blocks; blocks = b; for(...fill...) {i->prev = x; x = i;} freeItem = x; }`
       function `x = f()` where `Item* f() { ItemBlock* b = ...; Item* y = 0; for(...fill onto y...) return y; }`
    (the chain starts at null in both: the inline form is guarded by `!x`)"""
    def same_n(m):
        n1, n2 = resolve_const(m.group("n1"), src), resolve_const(m.group("n2"), src)
        if n1 != n2 or n1 < 1:
            raise Refuse(f"block allocation: the block has room for {n1} items, the fill loop covers {n2}")
        return n1
    rx_inline = re.compile(r"if\s*\(\s*!\s*(?P<x>\w+)\s*\)\s*\{\s*" + RX_ALLOC_CORE + RX_ALLOC_FILL + r"freeItem\s*=\s*(?P=x)\s*;\s*\}")
    ms = list(rx_inline.finditer(txt))
    if len(ms) == 1:
        m = ms[0]
        n = same_n(m)
        x = m.group("x")
        return txt[:m.start()] + f"if(!{x}) {{ {x} = __allocBlock({n}); freeItem = {x}; }}" + txt[m.end():], n
    rx_fun = re.compile(r"Item\s*\*\s*(?P<f>\w+)\s*\(\s*\)\s*\{\s*" + RX_ALLOC_CORE + r"Item\s*\*\s*(?P<x>\w+)\s*=\s*0\s*;\s*" + RX_ALLOC_FILL
                        + r"return\s+(?P=x)\s*;\s*\}")
    fs = list(rx_fun.finditer(src))
    if len(fs) == 1:
        m = fs[0]
        n = same_n(m)
        calls = list(re.finditer(r"\b" + m.group("f") + r"\s*\(\s*\)", txt))
        if len(calls) == 1:
            c = calls[0]
            return txt[:c.start()] + f"__allocBlock({n})" + txt[c.end():], n
    # form 3: `void f(usize count) { <block of count items>; Item* y = freeItem; <fill onto y> freeItem = y; }`, called as `f(N);`
    rx_fun3 = re.compile(r"void\s+(?P<f>\w+)\s*\(\s*usize\s+(?P<cnt>\w+)\s*\)\s*\{\s*" + RX_ALLOC_CORE + r"Item\s*\*\s*(?P<x>\w+)\s*=\s*freeItem\s*;\s*"
                         + RX_ALLOC_FILL + r"freeItem\s*=\s*(?P=x)\s*;\s*\}")
    fs = list(rx_fun3.finditer(src))
    if len(fs) == 1:
        m = fs[0]
        if m.group("n1") != m.group("cnt") or m.group("n2") != m.group("cnt"):
            raise Refuse("block allocation: the helper does not size the block and the fill loop by its parameter")
        calls = list(re.finditer(r"\b" + m.group("f") + r"\s*\(\s*(\w+)\s*\)\s*;", txt))
        if len(calls) == 1:
            c = calls[0]
            n = resolve_const(c.group(1), src)
            if n < 1:
                raise Refuse(f"block allocation: a block of {n} items")
            return txt[:c.start()] + f"__allocItems({n});" + txt[c.end():], n
    raise Refuse("insertLeaf: the block allocation (`new char[sizeof(ItemBlock) + sizeof(Item) * N]` + fill loop) is not in a recognised form")


def item_ctor(item_src):
    """parameters and initialiser list of `Item(Item* parent, const T& key, const V& value) : a(x), ... {}`"""
    m = re.search(r"\bItem\s*\(\s*Item\s*\*\s*(\w+)\s*,\s*const\s+T\s*&\s*(\w+)\s*,\s*const\s+V\s*&\s*(\w+)\s*\)\s*:\s*([^{}]*)\{\s*\}", item_src)
    if not m:
        return None
    inits = []
    for part in m.group(4).split(","):
        mi = re.fullmatch(r"\s*(\w+)\s*\(\s*(\w+)\s*\)\s*", part)
        if not mi:
            raise Refuse(f"Item constructor: initialiser `{part.strip()}`")
        inits.append((mi.group(1), mi.group(2)))
    return [("ptr", m.group(1)), ("key", m.group(2)), ("val", m.group(3))], inits


def hoist_loop_locals(loop):
    """a scalar declared at the top level of a loop body is re-initialised in every iteration: it is the same as a local
    declared before the loop and assigned there (normal form: the loop function always has the same parameters)"""
    hoisted = []
    body = loop[1] if loop[0] == "dowhile" else loop[4]
    if body[0] == "block":
        nb = []
        for st in body[1]:
            if st[0] == "decl" and st[3] is not None and st[1] in ("usize", "ssize", "Item*"):
                hoisted.append(("decl", st[1], st[2], None))
                nb.append(("expr", ("assign", ("id", st[2]), st[3])))
            else:
                nb.append(st)
        body = ("block", nb)
    loop = ("dowhile", body, loop[2]) if loop[0] == "dowhile" else loop[:4] + (body,)
    return loop, hoisted


def free_locals(items, hoisted, params, text_before, fn):
    """uninitialised declarations for the plain locals the fragment uses and that are declared in front of it"""
    used, declared = set(), set()

    def walk(n):
        if isinstance(n, tuple):
            if n and n[0] == "id":
                used.add(n[1])
            if n and n[0] == "decl":
                declared.add(n[2])
            if n and n[0] == "field":
                walk(n[1])
                return
            for x in n[1:]:
                walk(x)
        elif isinstance(n, list):
            for x in n:
                walk(x)
    walk(items)
    pre = []
    for v in sorted(used - declared - set(params) - {d[2] for d in hoisted}):
        if v in FUNCS or v == "this":
            continue
        md = re.search(r"\b(usize|ssize|Item\s*\*)\s+" + v + r"\s*;", text_before)
        if not md:
            raise Refuse(f"{fn}: `{v}` is neither declared in the loop nor a plain local declared before it")
        pre.append(("decl", re.sub(r"\s+", "", md.group(1)), v, None))
    return sorted(pre + hoisted, key=lambda d: d[2])


def always_goto(s, label):
    """does the statement always end in `goto label`?"""
    if s[0] == "goto":
        return s[1] == label
    if s[0] == "block":
        return bool(s[1]) and always_goto(s[1][-1], label)
    if s[0] == "if":
        return always_goto(s[2], label) and always_goto(s[3], label)
    return False


def _calls(n):
    if isinstance(n, tuple):
        if n and n[0] == "call":
            yield n
        for x in n[1:]:
            yield from _calls(x)
    elif isinstance(n, list):
        for x in n:
            yield from _calls(x)


BLOCK_SIZES = {}


def generate(repo, out_path):
    parts = ["/- generated by tools/gen_avl.py from include/nstd/{Map,MultiMap}.hpp - do not edit -/\n"
             "import Nstd.Avl.Heap\n\nnamespace Nstd.Generated.AvlRot\nopen Nstd.Avl.Heap\n"]
    same = []
    norms = {}
    for tag, rel in HEADERS.items():
        try:
            fns, norm, order2 = translate_header(Path(repo) / rel)
        except OSError as e:
            raise Refuse(f"{rel}: {e}")
        except Refuse as e:
            raise Refuse(f"{rel}: {e}")
        norms[tag] = norm
        parts.append(f"\n/-! ### {rel} -/\nnamespace {tag}\n\n" + "\n".join(fns[f] for f in FUNCS + order2) + f"\nend {tag}\n")
    same = [f for f in FUNCS if norms["Map"][f] == norms["Multi"][f]]
    nfun = sum(len(n) for n in norms.values())
    parts.append("\nend Nstd.Generated.AvlRot\n")
    text = "".join(parts)
    out_path = Path(out_path)
    out_path.parent.mkdir(parents=True, exist_ok=True)
    if not out_path.exists() or out_path.read_text() != text:
        out_path.write_text(text)
    return (f"{nfun} functions translated (rotations x 2 headers: {len(same)} of {len(FUNCS)} token-identical; find, count, clear; private insert: "
            "descent, linking part incl. allocation idiom / constructor / first item, threading, upward loop, composed to insertPrivate / "
            "insertPlain / insertAt; remove(it): head, rebalParent loop, rebalParentUpwards loop, tail, composed to remove)")


if __name__ == "__main__":
    repo = sys.argv[1] if len(sys.argv) > 1 else "/repo"
    outp = sys.argv[2] if len(sys.argv) > 2 else str(Path(__file__).resolve().parent.parent / "lean/Nstd/Generated/AvlRot.lean")
    try:
        print(generate(repo, outp))
    except Refuse as e:
        print("REFUSED:", e)
        sys.exit(1)
