#!/usr/bin/env python3
"""Translator of the Json area (property C15).  Two halves: escape TABLES by execution (below) and
statement TRANSLATION of stripComments / the string and number blocks of readToken / skipSpace
(tools/gen_json_cxx.py -> lean/Nstd/Generated/JsonCode.lean, see `translate_code`).

Regenerates `lean/Nstd/Generated/JsonTables.lean` from the CURRENT sources of the repo by
EXECUTION: the harness (harness/json.cpp, built from the current src/Document/Json.cpp) answers
the op `tables` with
    e<c>=<hex of Json::toString(String(1, c))>      for every byte c = 1..255
    u<e>=<dump of Json::parse("\\<e>A")> | err       for every byte e = 1..255
and the tables are read off these observations:
  * `escSet`   = the bytes that toString does not write raw;
  * `escTable` = those of them whose escape text is two bytes long (byte -> text);
  * the others must all be written as one common prefix followed by two digits of one
    16-letter alphabet indexed by the high and the low nibble (`escDefaultPrefix`, `hexAlphabet`);
  * `unescTable` = the letters e for which `"\\eA"` parses to the two-byte string [b, 'A']
    (letter -> b); a letter that gives [0x5c, e, 'A'] (backslash kept) or an error is no entry.
The tables therefore depend on the CONTENT of the escape logic only, not on where it lives or how
it is written (helpers, strpbrk set vs explicit predicate, order of the cases ...).  The Lean
model (`Nstd/Json/Model.lean`) is written over the generated definitions and the table lemmas
(`Nstd/Json/LemmasTables.lean`, `decide`) re-check on every run what the round-trip theorem
needs of them, so a change of table content in Json.cpp re-checks the theorems.

The translator refuses (returns not ok = a broken tie) observations it cannot interpret: a
serialisation that is not `"` + text + `"` + LF, longer escapes without a common prefix or with
an inconsistent digit alphabet, a crash of the probe.
"""
import hashlib
import os
import re
import subprocess
import sys
from pathlib import Path

VERIF = Path(__file__).resolve().parents[1]
OUT = VERIF / "lean" / "Nstd" / "Generated" / "JsonTables.lean"
OUT_CODE = VERIF / "lean" / "Nstd" / "Generated" / "JsonCode.lean"
PROBE_SOURCES = ["src/Document/Json.cpp", "src/String.cpp", "src/Variant.cpp", "src/Error.cpp", "src/Memory.cpp"]


class Untranslatable(Exception):
    pass


def unhx(t):
    return b"" if t == "-" else bytes.fromhex(t)


def observe(harness):
    """run the `tables` op of a built harness; returns (esc: c -> bytes, unesc: e -> dump-or-err)"""
    try:
        p = subprocess.run([str(harness)], input="tables\n", stdout=subprocess.PIPE, stderr=subprocess.PIPE,
                           text=True, errors="replace", timeout=120)
    except subprocess.TimeoutExpired:
        raise Untranslatable("the table probe hangs")
    lines = [l for l in p.stdout.splitlines() if l.startswith("tables ")]
    if p.returncode != 0 or len(lines) != 1:
        raise Untranslatable(f"the table probe failed (exit {p.returncode}): {p.stderr[-300:].strip()}")
    esc, unesc = {}, {}
    for tok in lines[0].split()[1:]:
        m = re.fullmatch(r"([eu])(\d+)=(\S+)", tok)
        if not m:
            raise Untranslatable(f"unreadable probe token {tok[:40]!r}")
        (esc if m.group(1) == "e" else unesc)[int(m.group(2))] = m.group(3)
    if sorted(esc) != list(range(1, 256)) or sorted(unesc) != list(range(1, 256)):
        raise Untranslatable("the table probe did not answer for every byte value")
    return esc, unesc


def tables_from(esc_obs, unesc_obs):
    # ---- serialiser ----
    texts = {}
    for c, h in esc_obs.items():
        try:
            b = unhx(h)
        except ValueError:
            raise Untranslatable(f"toString of byte {c}: not hex")
        if len(b) < 3 or b[0] != 0x22 or b[-2:] != b'"\n':
            raise Untranslatable(f"toString of the one-byte string {c:#x} is not a quoted text and a line feed: {h}")
        texts[c] = list(b[1:-2])
    esc_set = [c for c in range(1, 256) if texts[c] != [c]]
    esc_table = [(c, texts[c]) for c in esc_set if len(texts[c]) == 2]
    rest = [c for c in esc_set if len(texts[c]) != 2]
    prefix, alphabet = [], []
    if rest:
        ln = len(texts[rest[0]])
        if ln < 3 or any(len(texts[c]) != ln for c in rest):
            raise Untranslatable("the longer escape texts of toString do not have one common length")
        prefix = texts[rest[0]][:ln - 2]
        if any(texts[c][:ln - 2] != prefix for c in rest):
            raise Untranslatable("the longer escape texts of toString do not share one prefix")
        alpha = {}
        for c in rest:
            for idx, d in ((c >> 4, texts[c][ln - 2]), (c & 15, texts[c][ln - 1])):
                if alpha.setdefault(idx, d) != d:
                    raise Untranslatable("the digits of the longer escape texts are not one alphabet indexed by the nibbles")
        alphabet = [alpha.get(i, 0) for i in range(16)]     # an index never used by the code stays 0
    # ---- tokenizer ----
    unesc = []
    for e in range(1, 256):
        o = unesc_obs[e]
        m = re.fullmatch(r"s((?:[0-9a-f][0-9a-f])+)", o)
        if not m:
            continue                                # error / not a string: no entry
        b = bytes.fromhex(m.group(1))
        if len(b) == 2 and b[1] == 0x41:
            unesc.append((e, b[0]))
        # anything else ([0x5c, e, 'A'] = backslash kept, ...) is no entry of the switch
    return unesc, esc_set, esc_table, prefix, alphabet


def lean_list(xs):
    return "[" + ", ".join(str(x) for x in xs) + "]"


def render(unesc, esc_set, esc, prefix, alphabet):
    out = ["/- GENERATED by tools/gen_json.py by executing src/Document/Json.cpp of the current working tree\n"
           "   (op `tables` of harness/json.cpp).  Do not edit. -/\n",
           "namespace Nstd.Generated.Json\n\n",
           "/-- the tokenizer's escape switch: letter after the backslash ↦ byte appended -/\n",
           "def unescTable : List (Nat × Nat) :=\n  [" + ", ".join(f"({k}, {v})" for k, v in unesc) + "]\n\n",
           "/-- the bytes that `appendEscapedString` does not copy raw -/\n",
           "def escSet : List Nat :=\n  " + lean_list(esc_set) + "\n\n",
           "/-- the two-byte escape texts of `appendEscapedString`: byte ↦ text appended -/\n",
           "def escTable : List (Nat × List Nat) :=\n  [" + ", ".join(f"({k}, {lean_list(v)})" for k, v in esc) + "]\n\n",
           "/-- every other byte of the set: this prefix, then two digits of `hexAlphabet` (high, low nibble) -/\n",
           "def escDefaultPrefix : List Nat := " + lean_list(prefix) + "\n\n",
           "def hexAlphabet : List Nat := " + lean_list(alphabet) + "\n\n",
           "end Nstd.Generated.Json\n"]
    return "".join(out)


def build_probe(repo):
    """compile harness/json.cpp against `repo` without sanitizers (used when no built harness is at hand)"""
    build = Path(os.environ.get("NSTD_BUILD", str(VERIF / ".build")))
    build.mkdir(parents=True, exist_ok=True)
    exe = build / f"gen_json_probe_{os.getpid()}"
    cmd = [os.environ.get("CXX", "g++"), "-std=gnu++11", "-O0", "-DNSTD_VERIF", f"-I{repo}/include", f"-I{VERIF}/harness",
           str(VERIF / "harness" / "json.cpp")] + [str(Path(repo) / s) for s in PROBE_SOURCES] + ["-o", str(exe)]
    p = subprocess.run(cmd, stdout=subprocess.PIPE, stderr=subprocess.STDOUT, text=True, errors="replace", timeout=600)
    if p.returncode != 0:
        raise Untranslatable("the table probe does not compile against the current sources: " + p.stdout[-400:])
    return exe


def run(repo=None, harness=None):
    """returns (ok, message); writes the generated file only when its content changed.
    `harness`: an already built harness/json.cpp executable (else a probe is compiled and removed)."""
    if repo is None:
        import common
        repo = common.REPO
    own = None
    try:
        if harness is None:
            own = harness = build_probe(repo)
        text = render(*tables_from(*observe(harness)))
    except Untranslatable as ex:
        return False, f"gen_json: {ex}"
    finally:
        if own is not None:
            try:
                own.unlink()
            except OSError:
                pass
    OUT.parent.mkdir(parents=True, exist_ok=True)
    if not OUT.exists() or OUT.read_text() != text:
        OUT.write_text(text)
    ok2, msg2 = translate_code(repo)
    if not ok2:
        return False, msg2
    return True, hashlib.sha1(text.encode()).hexdigest()[:12] + "/" + msg2


ASSUMED = []
FUNCTIONS = []


def translate_code(repo):
    """second half of the translator: statements of the current Json.cpp -> Nstd/Generated/JsonCode.lean
    (tools/gen_json_cxx.py).  A refusal leaves the previous file in place (the driver still builds, the
    check reports the broken tie and goes on searching for a failing input)."""
    sys.path.insert(0, str(VERIF / "tools"))
    import gen_json_cxx
    try:
        text, assumed = gen_json_cxx.translate((Path(repo) / "src/Document/Json.cpp").read_text(errors="replace"))
    except gen_json_cxx.Refuse as ex:
        return False, f"gen_json: Json.cpp left the translated C++ subset: {ex}"
    except (OSError, RecursionError, IndexError, KeyError, TypeError, ValueError) as ex:
        return False, f"gen_json: translation of Json.cpp failed: {type(ex).__name__}: {ex}"
    ASSUMED[:] = assumed
    FUNCTIONS[:] = re.findall(r"^def (\w+)", text, flags=re.M)
    if not OUT_CODE.exists() or OUT_CODE.read_text() != text:
        OUT_CODE.write_text(text)
    return True, hashlib.sha1(text.encode()).hexdigest()[:12]


def gen_with(harness):
    """a `gen` hook for common.proof_stage that uses the harness built by the check"""
    def gen(ctx):
        ok, msg = run(harness=harness)
        if ok:
            ctx.notes.append("translator: Nstd/Generated/JsonTables.lean regenerated by executing the current Json.cpp, "
                             "Nstd/Generated/JsonCode.lean by translating stripComments, the string and number blocks of "
                             f"readToken and skipSpace (sha1 {msg})")
            for a in ASSUMED:
                if "translator: " + a not in ctx.assumptions:
                    ctx.assumptions.append("translator: " + a)
            ctx.cov["translated_code"] = {"file": "lean/Nstd/Generated/JsonCode.lean", "sha1": msg.split("/")[-1],
                                          "definitions": list(FUNCTIONS), "lines": len(OUT_CODE.read_text().splitlines()),
                                          "equalities": "Nstd.Json.PropsGen"}
        return ok, msg
    return gen


if __name__ == "__main__":
    sys.path.insert(0, str(VERIF / "tools"))
    ok, msg = run(sys.argv[1] if len(sys.argv) > 1 else None)
    print(("ok " if ok else "FAILED ") + msg)
    sys.exit(0 if ok else 1)
