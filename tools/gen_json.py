#!/usr/bin/env python3
"""Translator of the Json area (property C15).

Regenerates `lean/Nstd/Generated/JsonTables.lean` from the CURRENT sources of the repo
(`src/Document/Json.cpp`): the escape switch of the tokenizer (`readToken`, the letter after a
backslash -> the byte appended), the character set and the switch of `appendEscapedString`
(byte -> escape text, the `\\u00` prefix and the hex alphabet of the default branch).  The Lean
model (`Nstd/Json/Model.lean`) is written over these generated definitions and the table
lemmas (`Nstd/Json/LemmasTables.lean`, `decide`) re-check on every run what the round-trip
theorem needs of them, so a changed table in Json.cpp re-checks the theorems.

The translator refuses (returns not ok = a broken tie) whatever it cannot translate faithfully:
a case group that is not exactly `value.append(X); ++pos.pos; break;`, a default branch other
than "keep the backslash", a `result +=` with anything but a string literal, ...
"""
import hashlib
import re
import sys
from pathlib import Path

VERIF = Path(__file__).resolve().parents[1]
OUT = VERIF / "lean" / "Nstd" / "Generated" / "JsonTables.lean"


class Untranslatable(Exception):
    pass


_SIMPLE = {"b": 8, "f": 12, "n": 10, "r": 13, "t": 9, "a": 7, "v": 11, "\\": 92, "'": 39, '"': 34, "?": 63}


def c_unescape(body):
    """bytes of the body of a C character / string literal (without the quotes)"""
    out = []
    i, n = 0, len(body)
    while i < n:
        c = body[i]
        if c != "\\":
            if ord(c) > 127:
                raise Untranslatable("non-ASCII character in a literal")
            out.append(ord(c))
            i += 1
            continue
        i += 1
        if i >= n:
            raise Untranslatable("dangling backslash in a literal")
        c = body[i]
        if c in _SIMPLE:
            out.append(_SIMPLE[c])
            i += 1
        elif c == "x":
            j = i + 1
            while j < n and body[j] in "0123456789abcdefABCDEF":
                j += 1
            if j == i + 1:
                raise Untranslatable("\\x without digits")
            v = int(body[i + 1:j], 16)
            if v > 255:
                raise Untranslatable("\\x escape out of range")
            out.append(v)
            i = j
        elif c in "01234567":
            j = i
            while j < n and j < i + 3 and body[j] in "01234567":
                j += 1
            out.append(int(body[i:j], 8) & 255)
            i = j
        else:
            raise Untranslatable(f"unknown escape \\{c} in a literal")
    return out


_CHAR = r"'((?:[^'\\]|\\.)+)'"
_STR = r'"((?:[^"\\]|\\.)*)"'


def char_lit(tok):
    m = re.fullmatch(_CHAR, tok.strip())
    if not m:
        raise Untranslatable(f"not a character literal: {tok!r}")
    b = c_unescape(m.group(1))
    if len(b) != 1:
        raise Untranslatable(f"multi-character literal {tok!r}")
    return b[0]


def strip_comments(src):
    """remove // and /* */ comments outside string / character literals (one pass)"""
    out = []
    i, n, q = 0, len(src), None
    while i < n:
        c = src[i]
        if q:
            out.append(c)
            if c == "\\" and i + 1 < n:
                out.append(src[i + 1])
                i += 2
                continue
            if c == q:
                q = None
            i += 1
        elif c in "\"'":
            q = c
            out.append(c)
            i += 1
        elif src.startswith("//", i):
            while i < n and src[i] != "\n":
                i += 1
        elif src.startswith("/*", i):
            j = src.find("*/", i + 2)
            i = n if j < 0 else j + 2
            out.append(" ")
        else:
            out.append(c)
            i += 1
    return "".join(out)


def function_body(src, header_rx):
    m = re.search(header_rx, src)
    if not m:
        raise Untranslatable(f"function not found: {header_rx}")
    i = src.index("{", m.end() - 1)
    depth, j, q = 0, i, None
    while j < len(src):
        c = src[j]
        if q:
            if c == "\\":
                j += 2
                continue
            if c == q:
                q = None
        elif c in "\"'":
            q = c
        elif c == "{":
            depth += 1
        elif c == "}":
            depth -= 1
            if depth == 0:
                return src[i:j + 1]
        j += 1
    raise Untranslatable("unbalanced braces")


def unescape_table(src):
    body = function_body(src, r"bool\s+Json::Private::readToken\s*\(\s*\)\s*")
    # the outer string loop case for the backslash, then the inner switch up to `case 'u':`
    m = re.search(r"case\s+'\\\\'\s*:\s*\{\s*\+\+pos\.pos\s*;\s*switch\s*\(\s*\*pos\.pos\s*\)\s*\{", body)
    if not m:
        raise Untranslatable("escape switch of readToken not found")
    rest = body[m.end():]
    mu = re.search(r"case\s+'u'\s*:", rest)
    if not mu:
        raise Untranslatable("case 'u' of the escape switch not found")
    region = rest[:mu.start()]
    table = []
    pos = 0
    group_rx = re.compile(r"\s*((?:case\s+" + _CHAR + r"\s*:\s*)+)value\.append\(\s*(\*pos\.pos|" + _CHAR +
                          r")\s*\)\s*;\s*\+\+pos\.pos\s*;\s*break\s*;")
    while region[pos:].strip():
        g = group_rx.match(region, pos)
        if not g:
            raise Untranslatable("escape switch of readToken: a case group is not `value.append(X); ++pos.pos; break;`: "
                                 + region[pos:pos + 80].strip())
        labels = [char_lit("'" + x + "'") for x in re.findall(r"case\s+" + _CHAR, g.group(1))]
        arg = g.group(3)
        for lab in labels:
            table.append((lab, lab if arg.startswith("*") else char_lit(arg)))
        pos = g.end()
    if not table:
        raise Untranslatable("escape switch of readToken is empty")
    keys = [k for k, _ in table]
    if len(set(keys)) != len(keys):
        raise Untranslatable("duplicate case label in the escape switch")
    # the default branch must keep the backslash and leave the next character to the string loop
    md = re.search(r"default\s*:\s*value\.append\(\s*'\\\\'\s*\)\s*;\s*break\s*;", rest[mu.start():])
    if not md:
        raise Untranslatable("default branch of the escape switch is not `value.append('\\\\'); break;`")
    return table


def escape_tables(src):
    body = function_body(src, r"void\s+Json::Private::appendEscapedString\s*\([^)]*\)\s*")
    m = re.search(r"String::findOneOf\(\s*p\s*,\s*" + _STR + r"\s*\)", body)
    if not m:
        raise Untranslatable("findOneOf(p, \"...\") of appendEscapedString not found")
    esc_set = c_unescape(m.group(1))
    ms = re.search(r"switch\s*\(\s*\*e\s*\)\s*\{", body)
    if not ms:
        raise Untranslatable("switch(*e) of appendEscapedString not found")
    rest = body[ms.end():]
    table = []
    pos = 0
    case_rx = re.compile(r"\s*case\s+" + _CHAR + r"\s*:\s*result\s*\+=\s*" + _STR + r"\s*;\s*break\s*;")
    while True:
        g = case_rx.match(rest, pos)
        if not g:
            break
        table.append((char_lit("'" + g.group(1) + "'"), c_unescape(g.group(2))))
        pos = g.end()
    keys = [k for k, _ in table]
    if len(set(keys)) != len(keys):
        raise Untranslatable("duplicate case label in switch(*e)")
    tail = rest[pos:]
    hexidx = r"\[\s*\(\s*\*e\s*>>\s*4\s*\)\s*&\s*0xf\s*\]"
    lowidx = r"\[\s*\*e\s*&\s*0xf\s*\]"
    md = re.match(r"\s*default\s*:\s*result\s*\+=\s*" + _STR + r"\s*;\s*result\s*\+=\s*" + _STR + hexidx +
                  r"\s*;\s*result\s*\+=\s*" + _STR + lowidx + r"\s*;\s*break\s*;\s*\}", tail)
    if md:
        prefix = c_unescape(md.group(1))
        a1, a2 = c_unescape(md.group(2)), c_unescape(md.group(3))
        if a1 != a2 or len(a1) != 16:
            raise Untranslatable("default branch of switch(*e): the two digit alphabets differ or are not 16 long")
        alphabet = a1
    else:
        if not re.match(r"\s*\}", tail):
            raise Untranslatable("switch(*e) of appendEscapedString: untranslatable case or default branch: " + tail[:80].strip())
        prefix, alphabet = [], []          # no default branch: bytes of the set without a case are dropped
    return esc_set, table, prefix, alphabet


def lean_list(xs):
    return "[" + ", ".join(str(x) for x in xs) + "]"


def generate(repo):
    path = Path(repo) / "src" / "Document" / "Json.cpp"
    if not path.exists():
        raise Untranslatable(f"{path} not found")
    src = strip_comments(path.read_text())
    unesc = unescape_table(src)
    esc_set, esc, prefix, alphabet = escape_tables(src)
    out = ["/- GENERATED by tools/gen_json.py from src/Document/Json.cpp of the current working tree.  Do not edit. -/\n",
           "namespace Nstd.Generated.Json\n\n",
           "/-- escape switch of `Json::Private::readToken`: letter after the backslash ↦ byte appended -/\n",
           "def unescTable : List (Nat × Nat) :=\n  [" + ", ".join(f"({k}, {v})" for k, v in unesc) + "]\n\n",
           "/-- the character set handed to `String::findOneOf` in `appendEscapedString` -/\n",
           "def escSet : List Nat :=\n  " + lean_list(esc_set) + "\n\n",
           "/-- `switch(*e)` of `appendEscapedString`: byte ↦ text appended -/\n",
           "def escTable : List (Nat × List Nat) :=\n  [" + ", ".join(f"({k}, {lean_list(v)})" for k, v in esc) + "]\n\n",
           "/-- default branch of that switch: this prefix, then two digits of `hexAlphabet` (high, low nibble) -/\n",
           "def escDefaultPrefix : List Nat := " + lean_list(prefix) + "\n\n",
           "def hexAlphabet : List Nat := " + lean_list(alphabet) + "\n\n",
           "end Nstd.Generated.Json\n"]
    return "".join(out)


def run(repo=None):
    """returns (ok, message); writes the generated file only when its content changed"""
    if repo is None:
        import common
        repo = common.REPO
    try:
        text = generate(repo)
    except Untranslatable as ex:
        return False, f"gen_json: {ex}"
    OUT.parent.mkdir(parents=True, exist_ok=True)
    if not OUT.exists() or OUT.read_text() != text:
        OUT.write_text(text)
    return True, hashlib.sha1(text.encode()).hexdigest()[:12]


def gen(ctx):
    ok, msg = run()
    if ok:
        ctx.notes.append(f"translator: Nstd/Generated/JsonTables.lean regenerated from the current sources (sha1 {msg})")
    return ok, msg


if __name__ == "__main__":
    sys.path.insert(0, str(VERIF / "tools"))
    ok, msg = run(sys.argv[1] if len(sys.argv) > 1 else None)
    print(("ok " if ok else "FAILED ") + msg)
    sys.exit(0 if ok else 1)
