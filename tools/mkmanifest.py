#!/usr/bin/env python3
"""Regenerates MANIFEST.json from the table below (kept in one place so it stays valid)."""
import json
import subprocess
from pathlib import Path

VERIF = Path(__file__).resolve().parents[1]

import importlib
import sys
sys.path.insert(0, str(VERIF / "tools"))


def claimed():
    """property -> (technique, text, note, design_ref), read from the MANIFEST dict of each area module"""
    out = {}
    for f in sorted((VERIF / "tools" / "areas").glob("*.py")):
        if f.stem.startswith("_"):
            continue
        mod = importlib.import_module("areas." + f.stem)
        for pid, e in getattr(mod, "MANIFEST", {}).items():
            out[pid] = (e["technique"], e["text"], e["note"], e.get("design_ref", "DESIGN.md section 3"))
    return out


CLAIMED = claimed()
# properties whose check has been run green on /repo by the framework author (one id per line);
# an area module may exist before its check is accepted
_cl = VERIF / "tools" / "claimed.txt"
if _cl.exists():
    _ok = set(_cl.read_text().split())
    CLAIMED = {k: v for k, v in CLAIMED.items() if k in _ok}

REASON_PENDING = "check not built yet in this round; see DESIGN.md section 3 for the planned model and theorems"


def main():
    props = [json.loads(l) for l in (VERIF / "properties.jsonl").read_text().splitlines() if l.strip()]
    hooks_commits = []
    hc = VERIF / "hooks_commits.txt"
    if hc.exists():
        hooks_commits = [l.strip() for l in hc.read_text().splitlines() if l.strip()]
    checks, na = [], []
    for p in props:
        pid = p["id"]
        if pid in CLAIMED:
            tech, text, note, ref = CLAIMED[pid]
            checks.append({
                "property_id": pid,
                "quick_cmd": f"python3 tools/check.py --property {pid} --tier quick",
                "thorough_cmd": f"python3 tools/check.py --property {pid} --tier thorough",
                "evidence_file": f"/verif/evidence/{pid}.json",
                "replay_cmd_template": f"python3 tools/check.py --property {pid} --replay {{path}}",
                "engine": "lean4-proof+correspondence",
                "level_claimed": {"category": "proof", "text": text, "design_ref": ref},
                "level_note": note,
                "technique": tech,
            })
        else:
            na.append({"property_id": pid, "reason": REASON_PENDING})
    m = {
        "version": 1,
        "setup_cmd": "python3 tools/setup.py",
        "hooks": {
            "guard": "NSTD_VERIF",
            "enable": "-DNSTD_VERIF on the harness compile line (tools/common.py CXXFLAGS); harnesses are built from /repo's current sources on every run",
            "baseline_off_cmd": "sh tools/baseline_off.sh",
            "source_commits": hooks_commits,
            "add_only": True,
        },
        "engines": [{
            "name": "lean4-proof+correspondence",
            "path": "tools/check.py",
            "serves_properties": [c["property_id"] for c in checks],
            "kind_free_text": "Lean 4 theorems over executable models (lean/Nstd/<Area>/Props.lean), audited for axioms on every run, tied to the C++ sources by a differential run of harness (built from /repo) vs compiled model driver on identical op lines, plus an independent Python reference oracle per property",
        }],
        "checks": checks,
        "notes": "Known findings: known_findings.json. Design: DESIGN.md. Seeded-change experiments: seeded/.",
        "not_applicable": na,
    }
    (VERIF / "MANIFEST.json").write_text(json.dumps(m, indent=1) + "\n")
    print(f"MANIFEST.json: {len(checks)} checks, {len(na)} not claimed")


if __name__ == "__main__":
    main()
