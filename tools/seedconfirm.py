#!/usr/bin/env python3
"""Confirm a seeded change delivered by an independent sub-agent and import it into /verif/seeded/<id>/.

  seedconfirm.py <dir with patch.diff demo.cpp meta.json> <id>

In a scratch worktree of /repo HEAD (removed afterwards): the patch applies, the library builds and the
repository's own test-suite passes with it, the demonstration fails with the change and passes without it.
"""
import json
import shutil
import subprocess
import sys
import tempfile
import time
from pathlib import Path

VERIF = Path(__file__).resolve().parents[1]


def sh(cmd, cwd=None, timeout=1800):
    try:
        p = subprocess.run(cmd, cwd=cwd, shell=isinstance(cmd, str), stdout=subprocess.PIPE, stderr=subprocess.STDOUT,
                           text=True, errors="replace", timeout=timeout)
        return p.returncode, p.stdout
    except subprocess.TimeoutExpired as e:
        return -999, "TIMEOUT " + str(e.stdout)[-500:]


def build_demo(wt, demo, out):
    srcs = sorted(str(p) for p in list((wt / "src").glob("*.cpp")) + list((wt / "src").glob("*/*.cpp")))
    cmd = ["g++", "-std=gnu++11", "-g", "-fsanitize=address,undefined", "-fno-sanitize-recover=all", f"-I{wt}/include", str(demo)] + srcs + ["-lpthread", "-ldl", "-o", str(out)]
    return sh(cmd, cwd=wt, timeout=900)


def main():
    src, sid = Path(sys.argv[1]), sys.argv[2]
    meta = json.loads((src / "meta.json").read_text())
    wt = Path(tempfile.mkdtemp(prefix="confirm-", dir="/tmp")) / "wt"
    rc, o = sh(["git", "-C", "/repo", "worktree", "add", "--detach", str(wt), "HEAD"])
    res = {"at": time.strftime("%Y-%m-%dT%H:%M:%SZ", time.gmtime()),
           "repo_head": sh(["git", "-C", "/repo", "rev-parse", "--short", "HEAD"])[1].strip()}
    try:
        demo = src / "demo.cpp"
        exe = wt.parent / "demo"
        # without the change
        rc, o = build_demo(wt, demo, exe)
        res["demo_builds_clean"] = rc == 0
        rc0, o0 = sh([str(exe)], cwd=wt, timeout=300) if rc == 0 else (None, o)
        res["demo_exit_without_change"] = rc0
        # with the change
        rc, o = sh(["git", "-C", str(wt), "apply", str(src / "patch.diff")])
        if rc != 0:
            rc, o = sh(["git", "-C", str(wt), "apply", "--3way", str(src / "patch.diff")])
        res["patch_applies"] = rc == 0
        if rc == 0:
            rc, o = build_demo(wt, demo, exe)
            res["demo_builds_changed"] = rc == 0
            rc1, o1 = sh([str(exe)], cwd=wt, timeout=300) if rc == 0 else (None, o)
            res["demo_exit_with_change"] = rc1
            res["demo_output_with_change"] = (o1 or "")[-600:]
            b = wt.parent / "b"
            rc, o = sh(f"cmake -G Ninja -S {wt} -B {b} -DCMAKE_BUILD_TYPE=Debug >/dev/null && cmake --build {b} -j16 2>&1 | tail -3 && ctest --test-dir {b} -j8 --timeout 900 2>&1 | tail -4")
            res["tests_with_change"] = "100% tests passed" in o
            res["tests_tail"] = o[-300:]
        ok = (res.get("patch_applies") and res.get("demo_exit_without_change") == 0 and
              res.get("demo_exit_with_change") not in (0, None) and res.get("tests_with_change"))
        res["confirmed"] = bool(ok)
    finally:
        sh(["git", "-C", "/repo", "worktree", "remove", "--force", str(wt)])
        shutil.rmtree(wt.parent, ignore_errors=True)
    print(json.dumps(res, indent=1))
    if res["confirmed"]:
        d = VERIF / "seeded" / sid
        d.mkdir(parents=True, exist_ok=True)
        shutil.copy(src / "patch.diff", d / "patch.diff")
        for f in src.iterdir():
            if f.name.startswith("demo") and f.is_file() and f.stat().st_size < 200000 and f.suffix in (".cpp", ".c", ".sh", ".h", ".py"):
                shutil.copy(f, d / f.name)
        meta["confirmed_by_framework_author"] = res
        meta["origin"] = "independent sub-agent given only the property text and its own scratch worktree"
        (d / "meta.json").write_text(json.dumps(meta, indent=1) + "\n")
    return 0 if res["confirmed"] else 1


if __name__ == "__main__":
    sys.exit(main())
