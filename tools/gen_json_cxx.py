#!/usr/bin/env python3
"""Statement translator of the Json area (property C15); used by tools/gen_json.py.

Translates bodies of the CURRENT src/Document/Json.cpp into Lean definitions
(`lean/Nstd/Generated/JsonCode.lean`):

  Json::stripComments                     -> stripL0 / stripL1 / stripL2 (one function per loop) + strip
  readToken, the block of `case '"':`     -> strL0 + strTok      (string loop: CR/LF, escapes, \\u, surrogate pairs)
  readToken, the number block of default: -> numL0 + numTok      (alphabet loop, isDouble, toInt64 + narrowing)
  Json::Private::skipSpace                -> wsL0 + skipWs

Method: tokenizer + recursive-descent parser for the C++ subset these bodies use, then a symbolic
execution of the statement tree that emits a Lean decision tree:
  * `const char*` = (Lean variable holding a suffix of the buffer, static offset); `p[i]` / `*p` read through
    `Cxx.rdS/rdR` (an empty suffix = a read behind the buffer = `.oob`); pointer arithmetic with constants
    is folded into the offset (`pos.pos -= 6` after `+= 2` and four `++` is the old cursor again);
  * `String` locals and the output stream `*(dest++) = x` are byte lists (append);
  * every loop that is not a constant-bound counting loop becomes ONE Lean function with a fuel argument
    (`0 => .nofuel`; every jump to a loop head passes the predecessor), parameters = the variables alive at
    the loop head in declaration order; `for(int i = 0; i < 4; ++i)` is unrolled;
  * `break` / `continue` / `goto` / `return` / fall-through are continuations; a label that is the first
    statement of a `for(;;)` body is the loop head, any other label may only be jumped to forwards;
  * a call of another member function of Json::Private is executed in place (reference parameters renamed to the
    caller's variables, `return e` continues the caller); `for(bool flag = true; flag;)` is treated like `for(;;)`:
    the flag must be a constant at the end of every iteration, `flag = false` leaves the loop (so moving a block
    into a helper function or replacing `goto` by a flag gives the SAME generated text);
  * `switch` = one `if` per case group over the scrutinee read once; conditions `&&`, `||`, `!` short-circuit;
  * known library calls: `String::findOneOf` (the model's `findOneOf` = strpbrk), `String::isDigit/isHexDigit/
    isSpace`, `x.append(c)`, `x.clear()`, `k.scanf("%x", &w)` (ASSUMED to succeed with `scanHex k`: the
    digits were checked), `n.toInt64()` = `atoll`, `n.toDouble()` opaque, `Unicode::append` = `utf8`,
    `syntaxError(pos, ..)` + `return .., false` = `.fail line cursor`.
Names of C++ locals do not reach the output (canonical names by role / order), comments and layout do not
matter.  Anything outside the subset raises `Refuse` (the check reports a broken tie).
"""
import re


class Refuse(Exception):
    pass


# ---------------------------------------------------------------------------------------------------- lexer
def strip_comments(src):
    out, i, n = [], 0, len(src)
    while i < n:
        c = src[i]
        if c == '"' or c == "'":
            j = i + 1
            while j < n and src[j] != c:
                j += 2 if src[j] == "\\" else 1
            out.append(src[i:j + 1])
            i = j + 1
        elif src.startswith("//", i):
            while i < n and src[i] != "\n":
                i += 1
        elif src.startswith("/*", i):
            j = src.find("*/", i + 2)
            if j < 0:
                raise Refuse("unterminated comment")
            out.append(" ")
            i = j + 2
        else:
            out.append(c)
            i += 1
    return "".join(out)


TOK = re.compile(r"""\s*(?:
    (?P<num>0[xX][0-9a-fA-F]+[uUlL]*|\d+[uUlL]*)
  | (?P<id>[A-Za-z_]\w*(?:::[A-Za-z_~]\w*)*)
  | (?P<chr>'(?:\\.[0-9a-fA-F]*|[^'\\])')
  | (?P<str>"(?:\\.|[^"\\])*")
  | (?P<op>->|\+\+|--|\+=|-=|==|!=|<=|>=|&&|\|\||<<|>>|[{}()\[\];,<>=+\-*/!?:&.~|^%])
)""", re.X)

SIMPLE_ESC = {"n": 10, "t": 9, "r": 13, "0": 0, "\\": 92, '"': 34, "'": 39, "a": 7, "b": 8, "f": 12, "v": 11}


def c_bytes(body):
    out, i = [], 0
    while i < len(body):
        ch = body[i]
        if ch != "\\":
            out.append(ord(ch))
            i += 1
            continue
        nx = body[i + 1]
        if nx == "x":
            m = re.match(r"[0-9a-fA-F]{1,2}", body[i + 2:])
            if not m:
                raise Refuse("bad \\x escape")
            out.append(int(m.group(0), 16))
            i += 2 + len(m.group(0))
        elif nx in "01234567":
            m = re.match(r"[0-7]{1,3}", body[i + 1:])
            out.append(int(m.group(0), 8) & 255)
            i += 1 + len(m.group(0))
        elif nx in SIMPLE_ESC:
            out.append(SIMPLE_ESC[nx])
            i += 2
        else:
            raise Refuse(f"unknown escape \\{nx}")
    return out


def tokenize(text):
    toks, pos = [], 0
    text = text.rstrip()
    while pos < len(text):
        m = TOK.match(text, pos)
        if not m:
            raise Refuse(f"cannot tokenize at {text[pos:pos + 30]!r}")
        pos = m.end()
        if m.group("num"):
            t = m.group("num")
            body = t.rstrip("uUlL")
            suf = t[len(body):].lower()
            toks.append(("num", int(body, 0), "u" if "u" in suf else ("i" if "l" in suf else "")))
        elif m.group("id"):
            toks.append(("id", m.group("id")))
        elif m.group("chr"):
            b = c_bytes(m.group("chr")[1:-1])
            if len(b) != 1:
                raise Refuse("multi-character literal")
            toks.append(("chr", b[0]))
        elif m.group("str"):
            toks.append(("str", tuple(c_bytes(m.group("str")[1:-1]))))
        else:
            toks.append(("op", m.group("op")))
    return toks


# --------------------------------------------------------------------------------------------------- parser
TYPEWORDS = {"const", "char", "int", "int64", "uint", "uint32", "uint64", "bool", "String", "usize", "uchar", "unsigned", "long",
             "List", "HashMap"}
BINPREC = [("||",), ("&&",), ("|",), ("^",), ("&",), ("==", "!="), ("<", ">", "<=", ">="), ("<<", ">>"), ("+", "-"), ("*", "/", "%")]


class Parser:
    def __init__(self, toks, what):
        self.t, self.i, self.what = toks, 0, what

    def peek(self, k=0):
        return self.t[self.i + k] if self.i + k < len(self.t) else ("eof",)

    def isop(self, x, k=0):
        return self.peek(k) == ("op", x)

    def eat(self, x=None):
        tok = self.peek()
        if x is not None and tok != ("op", x):
            raise Refuse(f"{self.what}: expected {x!r}, found {tok!r}")
        self.i += 1
        return tok

    def isid(self, name=None, k=0):
        t = self.peek(k)
        return t[0] == "id" and (name is None or t[1] == name)

    # ---- types
    def at_type(self):
        return self.isid() and self.peek()[1] in TYPEWORDS

    def type_(self):
        words = []
        while self.at_type():
            words.append(self.eat()[1])
        if not words:
            raise Refuse(f"{self.what}: type expected at {self.peek()!r}")
        if self.isop("<"):                       # template arguments: kept as text
            depth = 0
            while True:
                t = self.eat()
                if t == ("op", "<"):
                    depth += 1
                elif t == ("op", ">"):
                    depth -= 1
                    if depth == 0:
                        break
                elif t[0] == "eof":
                    raise Refuse(f"{self.what}: unbalanced template arguments")
            words.append("<>")
        return " ".join(w for w in words if w != "const")

    # ---- expressions
    def expr(self):
        e = self.assign()
        if self.isop(","):
            es = [e]
            while self.isop(","):
                self.eat()
                es.append(self.assign())
            return ("comma", es)
        return e

    def assign(self):
        lhs = self.binary(0)
        for op in ("=", "+=", "-="):
            if self.isop(op):
                self.eat()
                return ("assign", op, lhs, self.assign())
        if self.isop("?"):
            self.eat()
            a = self.expr()
            self.eat(":")
            b = self.assign()
            return ("cond", lhs, a, b)
        return lhs

    def binary(self, lvl):
        if lvl == len(BINPREC):
            return self.unary()
        e = self.binary(lvl + 1)
        while self.peek()[0] == "op" and self.peek()[1] in BINPREC[lvl]:
            op = self.eat()[1]
            e = ("bin", op, e, self.binary(lvl + 1))
        return e

    def unary(self):
        t = self.peek()
        if t[0] == "op" and t[1] in ("!", "*", "-", "++", "--", "&", "~"):
            self.eat()
            return ("un", t[1], self.unary())
        if self.isop("(") and self.peek(1)[0] == "id" and self.peek(1)[1] in TYPEWORDS:
            self.eat("(")
            ty = self.type_()
            ptr = False
            while self.isop("*"):
                self.eat()
                ptr = True
            self.eat(")")
            return ("cast", ty + ("*" if ptr else ""), self.unary())
        return self.postfix()

    def postfix(self):
        t = self.peek()
        if t[0] == "num":
            self.eat()
            e = ("num", t[1], t[2])
        elif t[0] == "chr":
            self.eat()
            e = ("num", t[1], "")
        elif t[0] == "str":
            self.eat()
            e = ("str", t[1])
        elif t[0] == "id":
            self.eat()
            e = ("id", t[1])
        elif self.isop("("):
            self.eat("(")
            e = self.expr()
            self.eat(")")
        else:
            raise Refuse(f"{self.what}: unexpected token {t!r} in an expression")
        while True:
            if self.isop("++") or self.isop("--"):
                e = ("post", self.eat()[1], e)
            elif self.isop("["):
                self.eat()
                ix = self.expr()
                self.eat("]")
                e = ("index", e, ix)
            elif self.isop("."):
                self.eat()
                if not self.isid():
                    raise Refuse(f"{self.what}: member name expected")
                e = ("member", e, self.eat()[1])
            elif self.isop("("):
                self.eat()
                args = []
                if not self.isop(")"):
                    args.append(self.assign())
                    while self.isop(","):
                        self.eat()
                        args.append(self.assign())
                self.eat(")")
                e = ("call", e, args)
            else:
                return e

    # ---- statements
    def stmts_until_brace(self):
        out = []
        while not self.isop("}"):
            if self.peek()[0] == "eof":
                raise Refuse(f"{self.what}: unbalanced braces")
            out.append(self.stmt())
        return out

    def decl(self):
        ty = self.type_()
        items = []
        while True:
            ptr = False
            while self.isop("*") or self.isop("&"):
                ptr = ptr or self.isop("*")
                self.eat()
            if not self.isid():
                raise Refuse(f"{self.what}: declarator expected")
            name = self.eat()[1]
            init = None
            if self.isop("="):
                self.eat()
                init = ("=", self.assign())
            elif self.isop("("):
                self.eat()
                args = []
                if not self.isop(")"):
                    args.append(self.assign())
                    while self.isop(","):
                        self.eat()
                        args.append(self.assign())
                self.eat(")")
                init = ("ctor", args)
            items.append((name, ty + ("*" if ptr else ""), init))
            if self.isop(","):
                self.eat()
                continue
            return ("decl", items)

    def stmt(self):
        if self.isop("{"):
            self.eat()
            b = self.stmts_until_brace()
            self.eat("}")
            return ("block", b)
        if self.isop(";"):
            self.eat()
            return ("empty",)
        if self.isid("if"):
            self.eat()
            self.eat("(")
            c = self.expr()
            self.eat(")")
            t = self.stmt()
            e = None
            if self.isid("else"):
                self.eat()
                e = self.stmt()
            return ("if", c, t, e)
        if self.isid("for"):
            self.eat()
            self.eat("(")
            init = None
            if self.isop(";"):
                self.eat()
            elif self.at_type():
                init = self.decl()
                self.eat(";")
            else:
                init = ("expr", self.expr())
                self.eat(";")
            cond = None if self.isop(";") else self.expr()
            self.eat(";")
            step = None if self.isop(")") else self.expr()
            self.eat(")")
            return ("for", init, cond, step, self.stmt())
        if self.isid("while"):
            self.eat()
            self.eat("(")
            cond = self.expr()
            self.eat(")")
            return ("for", None, cond, None, self.stmt())
        if self.isid("switch"):
            self.eat()
            self.eat("(")
            e = self.expr()
            self.eat(")")
            self.eat("{")
            groups = []
            while not self.isop("}"):
                labels = []
                while self.isid("case") or self.isid("default"):
                    if self.eat()[1] == "case":
                        v = self.binary(0)
                        if v[0] != "num":
                            raise Refuse(f"{self.what}: case label is not a literal")
                        labels.append(v[1])
                    else:
                        labels.append("default")
                    self.eat(":")
                if not labels:
                    raise Refuse(f"{self.what}: statement before the first case label")
                body = []
                while not (self.isop("}") or self.isid("case") or self.isid("default")):
                    body.append(self.stmt())
                groups.append((labels, body))
            self.eat("}")
            return ("switch", e, groups)
        if self.isid("break"):
            self.eat()
            self.eat(";")
            return ("break",)
        if self.isid("continue"):
            self.eat()
            self.eat(";")
            return ("continue",)
        if self.isid("goto"):
            self.eat()
            name = self.eat()[1]
            self.eat(";")
            return ("goto", name)
        if self.isid("return"):
            self.eat()
            e = None if self.isop(";") else self.expr()
            self.eat(";")
            return ("return", e)
        if self.isid("do"):
            raise Refuse(f"{self.what}: do-while")
        if self.isid() and self.isop(":", 1) and self.peek()[1] not in TYPEWORDS:
            name = self.eat()[1]
            self.eat(":")
            return ("label", name)
        if self.at_type():
            d = self.decl()
            self.eat(";")
            return d
        e = self.expr()
        self.eat(";")
        return ("expr", e)


def balanced(src, start):
    depth, i, n = 0, start, len(src)
    while i < n:
        c = src[i]
        if c == '"' or c == "'":
            i += 1
            while i < n and src[i] != c:
                i += 2 if src[i] == "\\" else 1
        elif c == "{":
            depth += 1
        elif c == "}":
            depth -= 1
            if depth == 0:
                return i + 1
        i += 1
    raise Refuse("unbalanced braces")


def function_body(src, sig_rx, what):
    """statement list of the one definition whose signature matches `sig_rx` (comments already removed)"""
    ms = list(re.finditer(sig_rx + r"\s*\{", src))
    if len(ms) != 1:
        raise Refuse(f"{what}: {len(ms)} definitions found, expected exactly one")
    end = balanced(src, ms[0].end() - 1)
    p = Parser(tokenize(src[ms[0].end():end - 1]), what)
    out = []
    while p.peek()[0] != "eof":
        out.append(p.stmt())
    return out


# ------------------------------------------------------------------------------------------ Lean tree nodes
def pr(node, ind):
    """pretty-print a node as Lean term lines"""
    k = node[0]
    pad = "  " * ind
    if k == "leaf":
        return [pad + node[1]]
    if k == "rd":
        _, fn, base, off, var, body = node
        return [pad + f"({fn} {base} {off} fun {var} =>"] + close(pr(body, ind + 1))
    if k == "if":
        _, c, t, e = node
        return [pad + f"(if {c} then"] + pr(t, ind + 1) + [pad + "else"] + close(pr(e, ind + 1))
    if k == "find":
        _, fn, cset, ptr, var, ksome, knone = node
        return ([pad + f"({fn} {cset} {ptr}"] + paren(pr(knone, ind + 1)) + [pad + f"  (fun {var} =>"] +
                close(close(pr(ksome, ind + 2))))
    if k == "next":          # readToken(): (ok: the new parser state) / (failure: its line and cursor)
        _, fn, call, vars_ok, kok, kfail = node
        return ([pad + f"({fn} ({call})"] + [pad + f"  (fun {vars_ok} =>"] + close(pr(kok, ind + 2)) +
                [pad + "  (fun el ep =>"] + close(close(pr(kfail, ind + 2))))
    if k == "lit":
        _, fn, lit, ptr, kmatch, kmis = node
        return [pad + f"({fn} {lit} {ptr}"] + paren(pr(kmatch, ind + 1)) + close(paren(pr(kmis, ind + 1)))
    raise AssertionError(k)


def close(lines):
    lines[-1] += ")"
    return lines


def paren(lines):
    lines[0] = lines[0][:len(lines[0]) - len(lines[0].lstrip())] + "(" + lines[0].lstrip()
    lines[-1] += ")"
    return lines


# --------------------------------------------------------------------------------------- symbolic execution
class Ctx:
    def __init__(self, brk=None, cont=None, labels=None, depth=0, ret=None):
        self.brk, self.cont, self.labels, self.depth, self.ret = brk, cont, dict(labels or {}), depth, ret

    def with_(self, **kw):
        c = Ctx(self.brk, self.cont, self.labels, self.depth, self.ret)
        for k, v in kw.items():
            setattr(c, k, v)
        return c


def mutated_names(node, acc):
    """names assigned / incremented / appended to / passed by address inside a statement tree"""
    if isinstance(node, (list, tuple)):
        if node and isinstance(node[0], str):
            k = node[0]
            if k == "assign":
                acc.add(lvalue_name(node[2]))
            elif k in ("un", "post") and node[1] in ("++", "--", "&"):
                acc.add(lvalue_name(node[2]))
            elif k == "call" and node[1][0] == "member" and node[1][2] in ("append", "clear", "resize"):
                acc.add(lvalue_name(node[1][1]))
            elif k == "call" and node[1] == ("id", "Unicode::append") and len(node[2]) == 2:
                acc.add(lvalue_name(node[2][1]))
            elif k == "decl":
                for name, ty, init in node[1]:
                    acc.add(name)
        for x in node:
            mutated_names(x, acc)
    return acc


def referenced_names(node, acc):
    if isinstance(node, (list, tuple)):
        if node and node[0] == "id" and len(node) == 2 and isinstance(node[1], str):
            acc.add(node[1])
        elif node and node[0] == "member" and node[1][0] == "id":
            acc.add(node[1][1] + "." + node[2])
            acc.add(node[1][1])
        for x in node:
            referenced_names(x, acc)
    return acc


def rename_ids(node, ren):
    if isinstance(node, tuple):
        if len(node) == 2 and node[0] == "id" and node[1] in ren:
            return ("id", ren[node[1]])
        return tuple(rename_ids(x, ren) for x in node)
    if isinstance(node, list):
        return [rename_ids(x, ren) for x in node]
    return node


def lvalue_name(e):
    if e[0] == "id":
        return e[1]
    if e[0] == "member" and e[1][0] == "id":
        return e[1][1] + "." + e[2]
    if e[0] == "un" and e[1] == "*":
        return lvalue_name(e[2])
    if e[0] in ("post", "un"):
        return lvalue_name(e[2])
    return None


class Snippet:
    """one translated piece: symbolic execution of `stmts` into Lean definitions.

    prefix       name prefix of the generated definitions (loop functions `<prefix>L<k>`)
    rtype        Lean result type; rd / find = names of the read / strpbrk combinators for it
    externals    [(c name, kind, lean name)] state that exists before the first statement, in parameter order;
                 kinds: ptr | nat | bytes
    last         c name of the external that is passed LAST (the cursor), or None
    on_return    f(value, env, self) -> Lean leaf text for `return <value>`
    """

    def __init__(self, prefix, rtype, rd, find, externals, last, on_return, fallthrough=None):
        self.prefix, self.rtype, self.rd, self.find = prefix, rtype, rd, find
        self.externals, self.last, self.on_return, self.fallthrough = externals, last, on_return, fallthrough
        self.loops = {}          # id(loop node) -> (name, params)
        self.defs = []           # (name, params, body node)
        self.nvar = 0
        self.nlocal = 0
        self.expanding = set()
        self.assumed = set()
        self.lit = "Cxx.litR"
        self.renamed = {}
        self.rec_name = None     # C++ name of the function being translated when it calls itself (directly or through helpers)
        self.rec_lean = None
        self.recursive_entry = False
        self.always = set()      # variables passed to every loop head even when the loop does not mention them
        self.functions = {}      # other member functions of Json::Private that may be inlined: name -> (params, body)
        self.inlining = set()

    def fresh(self, p="c"):
        self.nvar += 1
        return f"{p}{self.nvar}"

    # ---- values ------------------------------------------------------------------------------------------
    # ("ptr", base, off) ("null",) ("bytes", lean) ("out", lean, bufname) ("outbuf", name) ("outstart", name)
    # ("nat", lean) ("int", lean, ctype) ("bool", lean) ("cbool", b) ("const", n) ("byte", var) ("prop", lean)
    # ("dbl", lean bytes) ("uninit", ctype) ("err", line, ptrlean) ("val", lean) ("outlen",)
    @staticmethod
    def ptr_lean(v):
        _, base, off = v
        return base if off == 0 else f"({base}.drop {off})"

    def lean_of(self, v):
        k = v[0]
        if k in ("ptr", "bptr"):
            return self.ptr_lean(v)
        if k in ("bytes", "nat", "bool", "out", "vlist", "vmap", "st", "jval"):
            return v[1]
        if k == "int":
            return v[1]
        if k == "cbool":
            return "true" if v[1] else "false"
        if k == "const":
            return str(v[1])
        if k == "byte":
            return v[1]
        raise Refuse(f"{self.prefix}: a value of kind {k} cannot be passed to a loop head")

    # ---- environment: dict name -> (value, decl order); copied on write
    STATE_VIEWS = {"token.token": ("byte", "{}.tok"), "token.value": ("jval", "{}.val"), "pos.line": ("nat", "{}.line")}

    def lookup(self, env, name):
        if "$st" in env and (name in self.STATE_VIEWS or name == "pos.pos"):
            st = env["$st"][0][1]
            if name == "pos.pos":
                return (("ptr", f"{st}.r", 0), -2, 0)
            kind, fmt = self.STATE_VIEWS[name]
            return ((kind, fmt.format(st)), -2, 0)
        if name not in env:
            raise Refuse(f"{self.prefix}: unknown or out-of-scope variable `{name}`")
        return env[name]

    # ---- expressions -------------------------------------------------------------------------------------
    def read(self, p, i, env, k):
        if p[0] == "bptr":
            # a pointer known by the bytes BEFORE it (nearest first): p[i] for i < 0 is element off - i - 1 of that list
            off = p[2] - i - 1
            if i >= 0 and p[2] + 0 <= i:
                raise Refuse(f"{self.prefix}: read at or behind a cursor that is only known by the bytes in front of it")
            var = self.fresh("c")
            return ("rd", self.rd, p[1], off, var, k(("byte", var), env))
        if p[0] != "ptr":
            raise Refuse(f"{self.prefix}: dereference of a {p[0]} value")
        off = p[2] + i
        if off < 0:
            raise Refuse(f"{self.prefix}: read in front of the known cursor")
        var = self.fresh("c")
        return ("rd", self.rd, p[1], off, var, k(("byte", var), env))

    def const_of(self, v):
        return v[1] if v[0] == "const" else None

    def arith(self, op, a, b):
        ca, cb = self.const_of(a), self.const_of(b)
        if ca is not None and cb is not None:
            r = {"+": ca + cb, "-": ca - cb, "*": ca * cb, "&": ca & cb, "|": ca | cb, "<<": ca << cb, ">>": ca >> cb}.get(op)
            if r is None:
                raise Refuse(f"{self.prefix}: operator {op} on constants")
            return ("const", r)
        if a[0] == "ptr" and cb is not None and op in "+-":
            return ("ptr", a[1], a[2] + (cb if op == "+" else -cb))
        if a[0] == "bptr" and cb is not None and op in "+-":
            off = a[2] + (cb if op == "-" else -cb)
            if off < 0:
                raise Refuse(f"{self.prefix}: a backwards-known cursor is moved forwards past its origin")
            return ("bptr", a[1], off)
        if a[0] == "bptr" and b[0] == "bptr" and op == "-":
            return ("nat", f"({self.ptr_lean(a)}.length - {self.ptr_lean(b)}.length)")
        if a[0] == "out" and b[0] == "outstart" and op == "-" and a[2] == b[1]:
            return ("outlen", a[2])
        kinds = {a[0], b[0]} - {"const"}
        if kinds <= {"nat", "byte"}:
            lop = {"+": "+", "&": "&&&", "|": "|||", "<<": "<<<", ">>": ">>>", "*": "*", "-": "-"}.get(op)
            if lop is None:
                raise Refuse(f"{self.prefix}: operator {op} on unsigned values")
            if op == "-":
                self.assumed.add("a difference of byte / unsigned values is translated as natural-number subtraction (right where "
                                 "the code has checked that the minuend is not the smaller one, e.g. a digit after isHexDigit)")
            return ("nat", f"({self.lean_of(a)} {lop} {self.lean_of(b)})")
        if kinds <= {"int"}:
            lop = {"+": "+", "-": "-", "*": "*"}.get(op)
            if lop is None:
                raise Refuse(f"{self.prefix}: operator {op} on signed values")
            ct = "int64" if "int64" in (a[2:] + b[2:]) else "int"
            return ("int", f"({self.lean_of(a)} {lop} {self.lean_of(b)})", ct)
        raise Refuse(f"{self.prefix}: operator {op} on {a[0]} and {b[0]}")

    def compare(self, op, a, b):
        ca, cb = self.const_of(a), self.const_of(b)
        if ca is not None and cb is not None:
            return ("cbool", {"==": ca == cb, "!=": ca != cb, "<": ca < cb, ">": ca > cb, "<=": ca <= cb, ">=": ca >= cb}[op])
        if a[0] == "bptr" and b[0] == "bstart" and op == ">":
            return ("prop", f"{self.ptr_lean(a)} ≠ []")
        kinds = {a[0], b[0]} - {"const"}
        if not (kinds <= {"nat", "byte"} or kinds <= {"int"}):
            raise Refuse(f"{self.prefix}: comparison of {a[0]} and {b[0]}")
        if ca is not None:                       # constant on the right
            a, b = b, a
            op = {"<": ">", ">": "<", "<=": ">=", ">=": "<="}.get(op, op)
        lop = {"==": "=", "!=": "≠", "<": "<", ">": ">", "<=": "≤", ">=": "≥"}[op]
        return ("prop", f"{self.lean_of(a)} {lop} {self.lean_of(b)}")

    def var_name(self, e):
        if e[0] == "id":
            return e[1]
        if e[0] == "member" and e[1][0] == "id":
            return e[1][1] + "." + e[2]
        return None

    def setvar(self, env, name, v, ctx):
        if "$st" in env and (name in self.STATE_VIEWS or name == "pos.pos"):
            raise Refuse(f"{self.prefix}: the parser assigns `{name}` directly")
        if name not in env:
            if name not in ("token.value", "token.token", "errorLine", "errorColumn", "errorString"):
                raise Refuse(f"{self.prefix}: assignment to the unknown variable `{name}`")
            env = dict(env)
            env[name] = (("uninit", "Variant"), 9999, 0)
        old, order, depth = env[name]
        if old[0] in ("outbuf", "outstart"):
            raise Refuse(f"{self.prefix}: assignment to the output buffer variable `{name}`")
        env = dict(env)
        env[name] = (v, order, depth)
        return env

    def ev(self, e, env, ctx, k):
        t = e[0]
        if t == "num":
            if e[2] == "u":
                return k(("nat", str(e[1])), env)
            if e[2] == "i":
                return k(("int", str(e[1]), "int64"), env)
            return k(("const", e[1]), env)
        name = self.var_name(e)
        if name is not None and t in ("id", "member"):
            if name in ("true", "false"):
                return k(("cbool", name == "true"), env)
            v = self.lookup(env, name)[0]
            if v[0] == "uninit":
                raise Refuse(f"{self.prefix}: read of the uninitialised variable `{name}`")
            return k(v, env)
        if t == "un":
            op = e[1]
            if op == "*":
                return self.ev(e[2], env, ctx, lambda p, env2: self.read(p, 0, env2, k))
            if op in ("++", "--"):
                nm = self.var_name(e[2])
                if nm is None:
                    raise Refuse(f"{self.prefix}: {op} on a non-variable")
                v = self.arith("+" if op == "++" else "-", self.lookup(env, nm)[0], ("const", 1))
                return k(v, self.setvar(env, nm, v, ctx))
            if op == "-":
                def neg(v, env2):
                    if v[0] == "const":
                        return k(("const", -v[1]), env2)
                    if v[0] == "int":
                        return k(("int", f"(-{v[1]})", v[2]), env2)
                    raise Refuse(f"{self.prefix}: unary minus on {v[0]}")
                return self.ev(e[2], env, ctx, neg)
            if op == "!":
                return self.cond(e, env, ctx, lambda env2: k(("cbool", True), env2), lambda env2: k(("cbool", False), env2))
            raise Refuse(f"{self.prefix}: unary operator {op}")
        if t == "post":
            nm = self.var_name(e[2])
            if nm is None:
                raise Refuse(f"{self.prefix}: {e[1]} on a non-variable")
            old = self.lookup(env, nm)[0]
            v = self.arith("+" if e[1] == "++" else "-", old, ("const", 1))
            return k(old, self.setvar(env, nm, v, ctx))
        if t == "index":
            def ix(p, env2):
                def ix2(i, env3):
                    if i[0] != "const":
                        raise Refuse(f"{self.prefix}: index that is not a constant")
                    return self.read(p, i[1], env3, k)
                return self.ev(e[2], env2, ctx, ix2)
            return self.ev(e[1], env, ctx, ix)
        if t == "bin":
            op = e[1]
            if op in ("&&", "||"):
                return self.cond(e, env, ctx, lambda env2: k(("cbool", True), env2), lambda env2: k(("cbool", False), env2))

            def left(a, env2):
                def right(b, env3):
                    if op in ("==", "!=", "<", ">", "<=", ">="):
                        return k(self.compare(op, a, b), env3)
                    return k(self.arith(op, a, b), env3)
                return self.ev(e[3], env2, ctx, right)
            return self.ev(e[2], env, ctx, left)
        if t == "cast":
            def cast(v, env2):
                ty = e[1]
                if ty == "int" and v[0] == "nat":          # a small non-negative difference of two cursors
                    return k(v, env2)
                if ty == "int" and v[0] == "int":
                    return k(("int", f"(wrap32 {v[1]})", "int"), env2)
                if ty == "int64" and v[0] == "int":
                    return k(("int", v[1], "int64"), env2)
                if ty == "uint" and v[0] in ("nat", "const", "byte"):
                    return k(("nat", self.lean_of(v)), env2)
                if ty == "uint32" and v[0] in ("nat", "const"):
                    return k(("nat", f"({self.lean_of(v)} % 4294967296)"), env2)
                if ty in ("uint64", "unsigned long long") and v[0] in ("nat", "const"):
                    return k(("nat", self.lean_of(v)), env2)
                raise Refuse(f"{self.prefix}: cast of a {v[0]} value to {ty}")
            return self.ev(e[2], env, ctx, cast)
        if t == "comma":
            def seq(i, env2):
                if i == len(e[1]) - 1:
                    return self.ev(e[1][i], env2, ctx, k)
                return self.ev(e[1][i], env2, ctx, lambda v, env3: seq(i + 1, env3))
            return seq(0, env)
        if t == "cond":
            # a conditional EXPRESSION over values that need no memory access: a Lean `if` term
            box = []

            def grab(v, env2):
                if env2 is not env:
                    raise Refuse(f"{self.prefix}: side effect inside a conditional expression")
                box.append(v)
                return ("leaf", "")
            for sub in e[1:]:
                node = self.ev(sub, env, ctx, grab)
                if node != ("leaf", ""):
                    raise Refuse(f"{self.prefix}: memory access inside a conditional expression")
            c, a, b = box
            if c[0] == "cbool":
                return k(a if c[1] else b, env)
            if c[0] != "prop" or not ({a[0], b[0]} <= {"nat", "byte", "const"}):
                raise Refuse(f"{self.prefix}: conditional expression over {c[0]} / {a[0]} / {b[0]}")
            return k(("nat", f"(if {c[1]} then {self.lean_of(a)} else {self.lean_of(b)})"), env)
        if t == "assign":
            return self.assign(e, env, ctx, k)
        if t == "call":
            return self.call(e, env, ctx, k)
        if t == "str":
            return k(("lit", e[1]), env)
        raise Refuse(f"{self.prefix}: expression form {t}")

    def assign(self, e, env, ctx, k):
        _, op, lhs, rhs = e
        if self.var_name(lhs) == "token.pos" and op == "=" and rhs == ("id", "pos"):
            return k(("void",), env)              # the start of the token: only used for messages nobody reads

        def with_rhs(v, env2):
            nm = self.var_name(lhs)
            if nm is not None:
                if op != "=":
                    v2 = self.arith(op[0], self.lookup(env2, nm)[0], v)
                else:
                    v2 = v
                    old = ("uninit",) if nm in ("token.value", "token.token", "errorLine", "errorColumn", "errorString") \
                        else self.lookup(env2, nm)[0]
                    if old[0] == "jout" and v[0] == "jval":
                        pass
                    elif {old[0], v[0]} <= {"const", "nat", "byte"}:
                        pass
                    elif old[0] == "uninit" or old[0] == v[0] or {old[0], v[0]} <= {"ptr", "null"} or \
                            (old[0] == "bool" and v[0] == "cbool") or (old[0] == "cbool" and v[0] in ("bool", "cbool")):
                        pass
                    else:
                        raise Refuse(f"{self.prefix}: `{nm}` of kind {old[0]} assigned a {v[0]} value")
                return k(v2, self.setvar(env2, nm, v2, ctx))
            # *(dest++) = x   /   *dest = '\0'
            if lhs[0] == "un" and lhs[1] == "*" and op == "=":
                inner = lhs[2]
                tgt = self.var_name(inner[2]) if inner[0] == "post" and inner[1] == "++" else self.var_name(inner)
                if tgt is None or self.lookup(env2, tgt)[0][0] != "out":
                    raise Refuse(f"{self.prefix}: store through something that is not the output cursor")
                o = self.lookup(env2, tgt)[0]
                if inner[0] == "post":
                    if v[0] not in ("byte", "const"):
                        raise Refuse(f"{self.prefix}: store of a {v[0]} value")
                    return k(v, self.setvar(env2, tgt, ("out", f"({o[1]} ++ [{self.lean_of(v)}])", o[2]), ctx))
                if v != ("const", 0):
                    raise Refuse(f"{self.prefix}: store at the output cursor without advancing it (only the terminator may be)")
                return k(v, env2)
            raise Refuse(f"{self.prefix}: assignment target")
        return self.ev(rhs, env, ctx, with_rhs)

    def call(self, e, env, ctx, k):
        _, fn, args = e
        if fn[0] == "id":
            name = fn[1]
            if name == "ASSERT":                    # debug-only check: not part of the behaviour
                return k(("void",), env)
            if name == "Variant" and len(args) <= 1:
                if not args:
                    return k(("val", "Val.null"), env)
                return self.ev(args[0], env, ctx, k)
            if name in ("String::isDigit", "String::isHexDigit", "String::isSpace") and len(args) == 1:
                lean = {"String::isDigit": "isDigit", "String::isHexDigit": "isHexDigit", "String::isSpace": "isSpace"}[name]

                def pred(v, env2):
                    if v[0] not in ("byte", "const"):
                        raise Refuse(f"{self.prefix}: {name} of a {v[0]} value")
                    return k(("prop", f"{lean} {self.lean_of(v)} = true"), env2)
                return self.ev(args[0], env, ctx, pred)
            if name == "String::findOneOf" and len(args) == 2 and args[1][0] == "str":
                def found(p, env2):
                    if p[0] != "ptr":
                        raise Refuse(f"{self.prefix}: findOneOf on a {p[0]} value")
                    var = self.fresh("e")
                    cset = "[" + ", ".join(str(b) for b in args[1][1]) + "]"
                    return ("find", self.find, cset, self.ptr_lean(p), var, k(("ptr", var, 0), env2), k(("null",), env2))
                return self.ev(args[0], env, ctx, found)
            if name == "String::compare" and len(args) == 3:
                def cmp(p, env2):                 # result 0 in the one branch, non-zero in the other
                    def cmp2(lv, env3):
                        def cmp3(nv, env4):
                            if p[0] != "ptr" or lv[0] != "lit" or nv != ("const", len(lv[1])) or 0 in lv[1]:
                                raise Refuse(f"{self.prefix}: String::compare that is not (cursor, literal, its length)")
                            lit = "[" + ", ".join(str(b) for b in lv[1]) + "]"
                            return ("lit", self.lit, lit, self.ptr_lean(p), k(("const", 0), env4), k(("const", 1), env4))
                        return self.ev(args[2], env3, ctx, cmp3)
                    return self.ev(args[1], env2, ctx, cmp2)
                return self.ev(args[0], env, ctx, cmp)
            if name == "Unicode::append" and len(args) == 2:
                tgt = self.var_name(args[1])

                def app(v, env2):
                    if v[0] not in ("nat",) or tgt is None or self.lookup(env2, tgt)[0][0] != "bytes":
                        raise Refuse(f"{self.prefix}: Unicode::append arguments")
                    old = self.lookup(env2, tgt)[0]
                    return k(("void",), self.setvar(env2, tgt, ("bytes", f"({old[1]} ++ utf8 {v[1]})"), ctx))
                return self.ev(args[0], env, ctx, app)
            if name == "syntaxError" and len(args) == 2 and self.var_name(args[0]) == "pos":
                line = self.lookup(env, "pos.line")[0]
                p = self.lookup(env, "pos.pos")[0]
                env2 = dict(env)
                env2["$err"] = (("err", self.lean_of(line), self.lean_of(p)), -1, 0)
                return k(("void",), env2)
            if name == "readToken" and not args and "$st" in env:
                st = env["$st"][0][1]
                new = self.fresh("st")
                env_ok = dict(env)
                env_ok["$st"] = (("st", new), env["$st"][1], env["$st"][2])
                env_f = dict(env)
                env_f["$err"] = (("err", "el", "ep"), -1, 0)
                return ("next", "Cxx.nextR", f"St.next {st}", new, k(("cbool", True), env_ok), k(("cbool", False), env_f))
            if name == self.rec_name and len(args) == 1 and "$st" in env:
                return self.recurse(args[0], env, ctx, k)
            if name in self.functions:
                return self.inline(name, args, env, ctx, k)
            raise Refuse(f"{self.prefix}: call of `{name}`")
        if fn[0] == "member":
            obj, meth = self.var_name(fn[1]), fn[2]
            if obj is None:
                raise Refuse(f"{self.prefix}: method call on an expression")
            ov = self.lookup(env, obj)[0]
            if meth == "append" and len(args) == 1 and ov[0] == "bytes":
                def app(v, env2):
                    if v[0] not in ("byte", "const"):
                        raise Refuse(f"{self.prefix}: append of a {v[0]} value")
                    old = self.lookup(env2, obj)[0]
                    return k(("void",), self.setvar(env2, obj, ("bytes", f"({old[1]} ++ [{self.lean_of(v)}])"), ctx))
                return self.ev(args[0], env, ctx, app)
            if meth == "clear" and not args and ov[0] == "bytes":
                return k(("void",), self.setvar(env, obj, ("bytes", "[]"), ctx))
            if meth == "clear" and not args and obj == "token.value":
                return k(("void",), self.setvar(env, obj, ("val", "Val.null"), ctx))
            if meth == "scanf" and len(args) == 2 and args[0] == ("str", (37, 120)) and args[1][0] == "un" and args[1][1] == "&" \
                    and ov[0] == "bytes":
                tgt = self.var_name(args[1][2])
                self.assumed.add("`k.scanf(\"%x\", &w)` on the digits collected by the preceding loop succeeds (returns 1) with "
                                 "w = their hexadecimal value (`scanHex`); its failure branch is not translated")
                return k(("const", 1), self.setvar(env, tgt, ("nat", f"(scanHex {ov[1]})"), ctx))
            if meth == "toString" and not args and ov[0] == "jval":
                return k(("bytes", f"(Val.strOf {ov[1]})"), env)
            if meth in ("toList", "toMap") and not args and ov[0] == "jout":
                # the out-parameter becomes a list / map: ASSUMED to be a fresh Variant (empty container)
                self.assumed.add("the `Variant& result` handed to parseValue / parseArray / parseObject is a fresh (null) Variant: "
                                 "`result.toList()` / `result.toMap()` start from the empty container")
                return k(("vlist" if meth == "toList" else "vmap", "[]", obj), env)
            if meth == "toInt64" and not args and ov[0] == "bytes":
                return k(("int", f"(atoll {ov[1]})", "int64"), env)
            if meth == "toDouble" and not args and ov[0] == "bytes":
                return k(("dbl", ov[1]), env)
            if meth == "resize" and len(args) == 1 and ov[0] == "outbuf":
                def rs(v, env2):
                    if v != ("outlen", obj):
                        raise Refuse(f"{self.prefix}: resize of the output buffer to something else than the bytes written")
                    return k(("void",), env2)
                return self.ev(args[0], env, ctx, rs)
            if meth == "length" and not args:
                return k(("opaque",), env)
            raise Refuse(f"{self.prefix}: call of `{obj}.{meth}`")
        raise Refuse(f"{self.prefix}: call form")

    def recurse(self, arg, env, ctx, k):
        """`parseValue(<place>)`: the recursive call; its value goes where `<place>` says: `list.append(Variant())` = behind the
        items of the list, `object.append(key, Variant())` = HashMap::append of the model (`mapAppend`)"""
        place = None
        if arg[0] == "call" and arg[1][0] == "member" and arg[1][2] == "append":
            tgt = self.var_name(arg[1][1])
            tv = self.lookup(env, tgt)[0] if tgt else ("?",)
            fresh_variant = ("call", ("id", "Variant"), [])
            if tv[0] == "vlist" and arg[2] == [fresh_variant]:
                place = ("list", tgt, None)
            elif tv[0] == "vmap" and len(arg[2]) == 2 and arg[2][1] == fresh_variant:
                kn = self.var_name(arg[2][0])
                kv = self.lookup(env, kn)[0] if kn else ("?",)
                if kv[0] == "bytes":
                    place = ("map", tgt, kv[1])
        if place is None:
            raise Refuse(f"{self.prefix}: recursive call whose argument is not `list.append(Variant())` / `map.append(key, Variant())`")
        st = env["$st"][0][1]
        v, new = self.fresh("v"), self.fresh("st")
        env_ok = dict(env)
        env_ok["$st"] = (("st", new), env["$st"][1], env["$st"][2])
        old = self.lookup(env, place[1])[0]
        if place[0] == "list":
            env_ok = self.setvar(env_ok, place[1], ("vlist", f"({old[1]} ++ [{v}])", old[2]), ctx)
        else:
            env_ok = self.setvar(env_ok, place[1], ("vmap", f"(mapAppend {old[1]} {place[2]} {v})", old[2]), ctx)
        env_f = dict(env)
        env_f["$err"] = (("err", "el", "ep"), -1, 0)
        return ("next", "Cxx.callR", f"{self.rec_lean} f {st}", f"{v} {new}", k(("cbool", True), env_ok), k(("cbool", False), env_f))

    def inline(self, name, args, env, ctx, k):
        """a call of another member function of Json::Private: its body is executed in place.  Reference parameters are
        renamed to the caller's variables (the argument must be a plain variable), `return e` continues the caller with e."""
        params, body = self.functions[name]
        if name in self.inlining:
            raise Refuse(f"{self.prefix}: recursive call of `{name}`")
        if len(params) != len(args):
            raise Refuse(f"{self.prefix}: call of `{name}` with {len(args)} arguments")
        ren, byval = {}, []
        for (pname, byref), a in zip(params, args):
            an = self.var_name(a)
            if byref and an is not None and "." not in an and an in env:
                ren[pname] = an
            else:
                byval.append((pname, a))         # a value (or a temporary bound to a const reference): a fresh local of the callee
        if byval:
            def bind(i, env2):
                if i == len(byval):
                    return self.inline_body(name, ren, body, env, env2, ctx, k)
                pname, a = byval[i]
                if pname in env2:
                    raise Refuse(f"{self.prefix}: parameter `{pname}` of `{name}` shadows a variable of the caller")
                return self.ev(a, env2, ctx, lambda v, env3: bind(i + 1, self.declare(env3, pname, v, ctx)))
            return bind(0, env)
        return self.inline_body(name, ren, body, env, env, ctx, k)

    def inline_body(self, name, ren, body, env, env_start, ctx, k):
        clash = (mutated_names(body, set()) - set(ren)) & {n for n in env if not n.startswith("$")}
        clash -= {"pos.pos", "pos.line", "token.value", "token.token", None}
        if clash:
            raise Refuse(f"{self.prefix}: locals of `{name}` shadow variables of the caller: {sorted(clash)}")
        key = (name, tuple(sorted(ren.items())))
        if key not in self.renamed:              # one copy per (function, binding): the loops inside stay ONE loop each
            self.renamed[key] = rename_ids(body, ren) if ren else body
        body = self.renamed[key]
        self.inlining.add(name)
        try:
            def leave(v, env2):                  # the caller goes on: the callee is no longer active
                self.inlining.discard(name)
                out_env = self.scoped(env, env2)
                for n2, x in env2.items():          # a container built through a reference to an out-parameter: stored back
                    if n2 not in env and x[0][0] in ("vlist", "vmap") and x[0][2] in out_env \
                            and out_env[x[0][2]][0][0] == "jout":
                        o = out_env[x[0][2]]
                        out_env[x[0][2]] = (("jval", f"(Val.{'list' if x[0][0] == 'vlist' else 'map'} {x[0][1]})"), o[1], o[2])
                try:
                    return k(v, out_env)
                finally:
                    self.inlining.add(name)
            inner = Ctx(labels={}, depth=ctx.depth, ret=leave)
            return self.exec_list(body, 0, env_start, inner, lambda env2: leave(("void",), env2))
        finally:
            self.inlining.discard(name)

    # ---- conditions --------------------------------------------------------------------------------------
    def cond(self, e, env, ctx, kt, kf):
        if e[0] == "un" and e[1] == "!":
            return self.cond(e[2], env, ctx, kf, kt)
        if e[0] == "bin" and e[1] == "&&":
            return self.cond(e[2], env, ctx, lambda env2: self.cond(e[3], env2, ctx, kt, kf), kf)
        if e[0] == "bin" and e[1] == "||":
            return self.cond(e[2], env, ctx, kt, lambda env2: self.cond(e[3], env2, ctx, kt, kf))

        def decide(v, env2):
            return self.branch(v, env2, kt, kf)
        return self.ev(e, env, ctx, decide)

    def branch(self, v, env, kt, kf):
        k = v[0]
        if k == "cbool":
            return kt(env) if v[1] else kf(env)
        if k == "const":
            return kt(env) if v[1] != 0 else kf(env)
        if k == "ptr":
            return kt(env)
        if k == "null":
            return kf(env)
        if k == "prop":
            m = re.fullmatch(r"(\S+) ≠ (\S+)", v[1])
            if m:
                return ("if", f"{m.group(1)} = {m.group(2)}", kf(env), kt(env))
            return ("if", v[1], kt(env), kf(env))
        if k == "byte":
            return ("if", f"{v[1]} = 0", kf(env), kt(env))
        if k == "bool":
            return ("if", f"{v[1]} = true", kt(env), kf(env))
        raise Refuse(f"{self.prefix}: a {k} value used as a condition")

    # ---- statements --------------------------------------------------------------------------------------
    def declare(self, env, name, v, ctx):
        env = dict(env)
        self.nlocal += 1
        env[name] = (v, 1000 + self.nlocal, ctx.depth)
        return env

    def exec_list(self, stmts, i, env, ctx, k):
        """stmts[i:], then k(env)"""
        if i == 0:
            # forward labels of this list
            ctx = ctx.with_()
            for j, s in enumerate(stmts):
                if s[0] == "label":
                    def mk(j, name):
                        def go(env2, self=self):
                            key = (id(stmts), j)
                            if key in self.expanding:
                                raise Refuse(f"{self.prefix}: backward goto `{name}` that is not the head of a for(;;) loop")
                            self.expanding.add(key)
                            try:
                                return self.exec_list(stmts, j + 1, env2, ctx, k)
                            finally:
                                self.expanding.discard(key)
                        return go
                    if s[1] not in ctx.labels or ctx.labels[s[1]][0] != "head":
                        ctx.labels[s[1]] = ("fwd", mk(j, s[1]))
        if i >= len(stmts):
            return k(env)
        return self.exec(stmts[i], env, ctx, lambda env2: self.exec_list(stmts, i + 1, env2, ctx, k))

    def scoped(self, env_before, env_after):
        """leave a block: variables declared inside disappear"""
        return {n: v for n, v in env_after.items() if n in env_before or n == "$err"}

    def exec(self, s, env, ctx, k):
        t = s[0]
        if t in ("empty", "label"):
            return k(env)
        if t == "block":
            return self.exec_list(s[1], 0, env, ctx, lambda env2: k(self.scoped(env, env2)))
        if t == "expr":
            return self.ev(s[1], env, ctx, lambda v, env2: k(env2))
        if t == "decl":
            def one(i, env2):
                if i == len(s[1]):
                    return k(env2)
                name, ty, init = s[1][i]
                if ty == "String":
                    if init is not None and init[0] == "=":
                        raise Refuse(f"{self.prefix}: String initialised from an expression")
                    return one(i + 1, self.declare(env2, name, ("bytes", "[]"), ctx))
                if init is None or init[0] == "ctor" and not init[1]:
                    if ty in ("uint", "uint32", "int", "int64", "char", "bool", "usize"):
                        return one(i + 1, self.declare(env2, name, ("uninit", ty), ctx))
                    raise Refuse(f"{self.prefix}: declaration of `{ty}` without initialiser")
                if init[0] != "=":
                    raise Refuse(f"{self.prefix}: constructor syntax for `{ty}`")

                def got(v, env3):
                    if ty == "char*" and v[0] == "bytes":            # char* destBuffer = result;
                        if v[1] != "[]":
                            raise Refuse(f"{self.prefix}: output buffer that is not fresh")
                        src_name = self.var_name(init[1])
                        env4 = self.setvar_raw(env3, src_name, ("outbuf", src_name))
                        return one(i + 1, self.declare(env4, name, ("outstart", src_name), ctx))
                    if ty == "char*" and v[0] == "outstart":         # char* dest = destBuffer;
                        return one(i + 1, self.declare(env3, name, ("out", "[]", v[1]), ctx))
                    if v[0] in ("vlist", "vmap") and (ty.startswith("List") or ty.startswith("HashMap")):
                        return one(i + 1, self.declare(env3, name, v, ctx))
                    if ty == "char*" and v[0] in ("ptr", "null", "bptr"):
                        return one(i + 1, self.declare(env3, name, v, ctx))
                    if ty == "bool" and v[0] in ("cbool", "bool", "prop"):
                        if v[0] == "prop":
                            raise Refuse(f"{self.prefix}: bool initialised from a comparison")
                        return one(i + 1, self.declare(env3, name, v, ctx))
                    if ty == "int" and v[0] == "nat":
                        return one(i + 1, self.declare(env3, name, v, ctx))
                    if ty in ("int", "int64") and v[0] in ("int", "const"):
                        if v[0] == "int" and v[2] != ty:
                            raise Refuse(f"{self.prefix}: `{ty} {name}` initialised from a {v[2]} without a cast")
                        return one(i + 1, self.declare(env3, name, v if v[0] == "const" else ("int", v[1], ty), ctx))
                    if ty in ("char", "uchar") and v[0] in ("byte", "const"):
                        return one(i + 1, self.declare(env3, name, v, ctx))
                    if ty in ("uint", "uint32", "usize") and v[0] in ("nat", "const", "byte"):
                        return one(i + 1, self.declare(env3, name, v, ctx))
                    raise Refuse(f"{self.prefix}: `{ty} {name}` initialised from a {v[0]} value")
                return self.ev(init[1], env2, ctx, got)
            return one(0, env)
        if t == "if":
            kt = lambda env2: self.exec(s[2], env2, ctx, lambda env3: k(self.scoped(env2, env3)))
            kf = (lambda env2: k(env2)) if s[3] is None else \
                (lambda env2: self.exec(s[3], env2, ctx, lambda env3: k(self.scoped(env2, env3))))
            return self.cond(s[1], env, ctx, kt, kf)
        if t == "break":
            if ctx.brk is None:
                raise Refuse(f"{self.prefix}: break outside a loop or switch")
            return ctx.brk(env)
        if t == "continue":
            if ctx.cont is None:
                raise Refuse(f"{self.prefix}: continue outside a loop")
            return ctx.cont(env)
        if t == "goto":
            if s[1] not in ctx.labels:
                raise Refuse(f"{self.prefix}: goto to the unknown label `{s[1]}`")
            return ctx.labels[s[1]][1](env)
        if t == "return":
            if ctx.ret is not None:                      # inside an inlined member function
                if s[1] is None:
                    return ctx.ret(("void",), env)
                return self.ev(s[1], env, ctx, ctx.ret)
            if s[1] is None:
                return ("leaf", self.on_return(("void",), env, self))
            return self.ev(s[1], env, ctx, lambda v, env2: ("leaf", self.on_return(v, env2, self)))
        if t == "switch":
            return self.switch(s, env, ctx, k)
        if t == "for":
            return self.loop(s, env, ctx, k)
        raise Refuse(f"{self.prefix}: statement form {t}")

    def setvar_raw(self, env, name, v):
        env = dict(env)
        env[name] = (v, env[name][1], env[name][2])
        return env

    def switch(self, s, env, ctx, k):
        _, e, groups = s
        if sum(1 for labels, _ in groups for l in labels if l == "default") > 1:
            raise Refuse(f"{self.prefix}: two default labels")

        def with_scrutinee(v, env2):
            if v[0] != "byte":
                raise Refuse(f"{self.prefix}: switch over a {v[0]} value")
            inner = ctx.with_(brk=lambda env3: k(self.scoped(env2, env3)))

            def run_from(gi, env3):            # the statements of group gi, falling through into the next groups
                if gi == len(groups):
                    return k(self.scoped(env2, env3))
                return self.exec_list(groups[gi][1], 0, env3, inner, lambda env4: run_from(gi + 1, env4))

            default = next((gi for gi, (labels, _) in enumerate(groups) if "default" in labels), None)

            def chain(gi):
                if gi == len(groups):
                    return run_from(default, env2) if default is not None else k(env2)
                labels = [l for l in groups[gi][0] if l != "default"]
                if not labels:
                    return chain(gi + 1)
                c = " ∨ ".join(f"{v[1]} = {l}" for l in labels)
                return ("if", c, run_from(gi, env2), chain(gi + 1))
            return chain(0)
        return self.ev(e, env, ctx, with_scrutinee)

    def loop(self, s, env, ctx, k):
        _, init, cond, step, body = s
        # ---- constant-bound counting loop: unrolled
        if init is not None and init[0] == "decl" and len(init[1]) == 1 and init[1][0][1] == "int" and init[1][0][2] is not None \
                and init[1][0][2][0] == "=" and init[1][0][2][1][0] == "num" and cond is not None and step is not None:
            ivar = init[1][0][0]
            if ivar in mutated_names(body, set()):
                raise Refuse(f"{self.prefix}: the counter `{ivar}` is modified by the loop body")
            env0 = self.declare(env, ivar, ("const", init[1][0][2][1][1]), ctx)

            def iteration(env2, n):
                if n > 16:
                    raise Refuse(f"{self.prefix}: counting loop with more than 16 iterations")
                after = lambda env3: k(self.scoped(env, env3))
                inner = ctx.with_(brk=after, cont=lambda env3: stepf(env3, n))

                def stepf(env3, n):
                    return self.ev(step, self.scoped(env2, env3), ctx, lambda v, env4: iteration(env4, n + 1))

                def body_(env3):
                    return self.exec(body, env3, inner, lambda env4: stepf(env4, n))

                def static(v, env3):
                    if v[0] != "cbool":
                        raise Refuse(f"{self.prefix}: counting loop whose condition is not decided by the counter")
                    return body_(env3) if v[1] else after(env3)
                return self.ev(cond, env2, ctx, static)
            return iteration(env0, 0)
        # ---- general loop: one Lean function with fuel
        flag = None
        if init is not None and init[0] == "decl" and len(init[1]) == 1 and init[1][0][1] == "bool" and step is None \
                and cond == ("id", init[1][0][0]) and init[1][0][2] == ("=", ("id", "true")):
            flag = init[1][0][0]             # while the flag is true the loop goes on: treated like `for(;;)` + exit

        def run_init(k2):
            if init is None:
                return k2(env)
            return self.exec(init, env, ctx, k2)

        def enter(env1):
            key = id(s)
            if key not in self.loops:
                used = referenced_names(s, set()) | self.always
                if "pos" in used:
                    used |= {"pos.pos", "pos.line"}
                visible = sorted(((order, n) for n, (v, order, depth) in env1.items()
                                  if ((n in used and n != flag and n != "token.value" and
                                       v[0] in ("ptr", "bptr", "bytes", "nat", "bool", "cbool", "out", "int", "uninit", "const",
                                                "vlist", "vmap", "st"))
                                      or (n == "token.token" and v[0] in ("byte", "const"))) and (not n.startswith("$") or n == "$st")))
                last = [n for o, n in visible if n == self.last]
                names = [n for o, n in visible if n != self.last] + last
                name = f"{self.prefix}L{len(self.loops)}"
                params = []
                env_in = {n: v for n, v in env1.items() if v[0][0] in ("outbuf", "outstart", "bstart", "opaque", "jout") or n == "token.value"
                          or (n == "token.token" and v[0][0] == "uninit")}
                for n in names:
                    v, order, depth = env1[n]
                    kind = v[0]
                    if kind == "uninit":          # no value yet: not a parameter; must be assigned before it is read
                        env_in[n] = (v, order, depth)
                        continue
                    lean = self.role_name(n, kind, len(params))
                    if kind == "ptr":
                        sym, ty = ("ptr", lean, 0), "List Byte"
                    elif kind == "bptr":
                        sym, ty = ("bptr", lean, 0), "List Byte"
                    elif kind == "vlist":
                        sym, ty = ("vlist", lean, v[2]), "List Val"
                    elif kind == "vmap":
                        sym, ty = ("vmap", lean, v[2]), "List (List Byte × Val)"
                    elif kind == "st":
                        sym, ty = ("st", lean), "St"
                    elif kind in ("bytes",):
                        sym, ty = ("bytes", lean), "List Byte"
                    elif kind == "out":
                        sym, ty = ("out", lean, v[2]), "List Byte"
                    elif kind in ("byte", "const"):
                        sym, ty = ("byte", lean), "Nat"
                    elif kind == "nat":
                        sym, ty = ("nat", lean), "Nat"
                    elif kind == "int":
                        sym, ty = ("int", lean, v[2]), "Int"
                    else:
                        sym, ty = ("bool", lean), "Bool"
                    params.append((n, lean, ty))
                    env_in[n] = (sym, order, depth)
                self.loops[key] = (name, params)
                slot = len(self.defs)
                self.defs.append(None)

                def jump(env2):
                    if flag is not None:
                        fv = self.lookup(env2, flag)[0]
                        if fv[0] != "cbool":
                            raise Refuse(f"{self.prefix}: the loop flag `{flag}` is not a constant at the end of an iteration")
                        if not fv[1]:
                            return k(self.scoped(env, env2))        # the condition fails: the loop is left
                    args = []
                    for n, lean, ty in params:
                        args.append(self.lean_of(self.lookup(env2, n)[0]))
                    return ("leaf", f"{name} f " + " ".join(args))
                after = lambda env2: k(self.scoped(env, env2))
                stepf = (lambda env2: jump(self.scoped(env_in, env2))) if step is None else \
                    (lambda env2: self.ev(step, self.scoped(env_in, env2), inner0, lambda v, env3: jump(env3)))
                labels = dict(ctx.labels)
                inner0 = ctx.with_(brk=after, cont=stepf, labels=labels, depth=ctx.depth + 1)
                b = body
                if cond is None and step is None and b[0] == "block":
                    j = 0
                    while j < len(b[1]) and b[1][j][0] in ("label", "empty"):
                        if b[1][j][0] == "label":
                            labels[b[1][j][1]] = ("head", lambda env2: jump(self.scoped(env_in, env2)))
                        j += 1
                inner = inner0.with_(labels=labels)
                run_body = lambda env2: self.exec(b, env2, inner, lambda env3: stepf(env3))
                if flag is not None:
                    env_in[flag] = (("cbool", True), 99999, ctx.depth)
                    node = run_body(env_in)
                else:
                    node = run_body(env_in) if cond is None else self.cond(cond, env_in, inner, run_body, after)
                self.defs[slot] = (name, params, node)
            name, params = self.loops[key]
            args = [self.lean_of(self.lookup(env1, n)[0]) for n, lean, ty in params]
            return ("leaf", f"{name} f " + " ".join(args))
        return run_init(enter)

    def role_name(self, cname, kind, idx):
        for n, k, lean in self.externals:
            if n == cname:
                return lean
        if kind == "out":
            return "out"
        if kind in ("vlist", "vmap"):
            return "acc"
        if kind == "st":
            return "st"
        return f"v{idx}"

    # ---- driver ------------------------------------------------------------------------------------------
    def run(self, stmts, entry_name, doc):
        env = {}
        for i, (n, kind, lean) in enumerate(self.externals):
            v = {"ptr": ("ptr", lean, 0), "nat": ("nat", lean), "bytes": ("bytes", lean), "bptr": ("bptr", lean, 0),
                 "bstart": ("bstart",), "opaque": ("opaque",), "st": ("st", lean), "jout": ("jout",)}[kind]
            env[n] = (v, i, 0)
        if not any(kind == "st" for _, kind, _ in self.externals):
            env["token.value"] = (("uninit", "Variant"), 9999, 0)
            env["token.token"] = (("uninit", "char"), 9998, 0)

        def end(env2):
            if self.fallthrough is None:
                raise Refuse(f"{self.prefix}: control reaches the end of the translated statements")
            return ("leaf", self.fallthrough(env2, self))
        top = self.exec_list(stmts, 0, env, Ctx(), end)
        out = []
        loopdefs = [d for d in self.defs if d is not None]
        if self.recursive_entry:
            loopdefs = [(entry_name, [("$st", "st", "St")], top)] + loopdefs
            out.append(f"/- {doc} -/")
        if loopdefs:
            if len(loopdefs) > 1:
                out.append("mutual")
            for name, params, node in loopdefs:
                sig = " → ".join(["Nat"] + [ty for _, _, ty in params] + [self.rtype])
                out.append(f"def {name} : {sig}")
                out.append("  | 0" + "".join(", _" for _ in params) + " => .nofuel")
                out.append("  | f + 1" + "".join(f", {lean}" for _, lean, _ in params) + " =>")
                out += pr(node, 2)
            if len(loopdefs) > 1:
                out.append("end")
            out.append("")
        if self.recursive_entry:
            return "\n".join(out)
        ext = " ".join(f"({lean} : {'List Byte' if kind in ('ptr', 'bytes', 'bptr') else 'Nat'})"
                       for _, kind, lean in self.externals if kind not in ("bstart", "opaque", "jout", "st"))
        out.append(f"/-- {doc} -/")
        out.append(f"def {entry_name} (f : Nat) {ext} : {self.rtype} :=")
        out += pr(top, 1)
        out.append("")
        return "\n".join(out)


# ------------------------------------------------------------------------------------------ the four pieces
def find_switch_group(stmts, label, what):
    """the statements of the case group holding `label` in the first top-level switch of `stmts`"""
    for s in stmts:
        if s[0] == "switch":
            for labels, body in s[2]:
                if label in labels:
                    return body
    raise Refuse(f"{what}: no top-level switch with the label {label!r}")


def ret_strip(v, env, sn):
    if v[0] != "outbuf":
        raise Refuse("stripComments: returns something else than the output buffer")
    outs = [x[0] for n, x in env.items() if x[0][0] == "out" and x[0][2] == v[1]]
    if len(outs) != 1:
        raise Refuse("stripComments: no output cursor for the returned buffer")
    return f"SRes.ok {outs[0][1]}"


def ret_tok(kind):
    def ret(v, env, sn):
        if v[0] != "cbool":
            raise Refuse(f"{sn.prefix}: return value that is not true/false")
        if not v[1]:
            if "$err" not in env:
                raise Refuse(f"{sn.prefix}: `return false` without syntaxError")
            _, line, p = env["$err"][0]
            return f"Res.fail {line} {p}"
        tv = env.get("token.value", (("uninit",),))[0]
        p = sn.lean_of(env["pos.pos"][0])
        if kind == "str":
            if tv[0] != "bytes":
                raise Refuse(f"{sn.prefix}: the string token's value is a {tv[0]}")
            return f"Res.ok ({sn.lean_of(env['pos.line'][0])}, {tv[1]}, {p})"
        if tv[0] == "dbl":
            val = f"Val.dbl {tv[1]}"
        elif tv[0] == "int":
            val = f"Val.{'int' if tv[2] == 'int' else 'int64'} {tv[1]}"
        else:
            raise Refuse(f"{sn.prefix}: the number token's value is a {tv[0]}")
        return f"Res.ok ({val}, {p})"
    return ret


def ret_whole(v, env, sn):
    if v[0] != "cbool":
        raise Refuse(f"{sn.prefix}: return value that is not true/false")
    if not v[1]:
        if "$err" not in env:
            raise Refuse(f"{sn.prefix}: `return false` without syntaxError")
        _, line, p = env["$err"][0]
        return f"Res.fail {line} {p}"
    tok = env["token.token"][0]
    if tok[0] not in ("byte", "const"):
        raise Refuse(f"{sn.prefix}: token.token is a {tok[0]} at `return true`")
    tv = env["token.value"][0]
    if tv[0] == "uninit":
        val = "Val.null"                 # the value of the previous token stays: never read for these tokens
    elif tv[0] == "bytes":
        val = f"(Val.str {tv[1]})"
    elif tv[0] == "cbool":
        val = f"(Val.bool {'true' if tv[1] else 'false'})"
    elif tv[0] == "val":
        val = tv[1]
    elif tv[0] == "dbl":
        val = f"(Val.dbl {tv[1]})"
    elif tv[0] == "int":
        val = f"(Val.{'int' if tv[2] == 'int' else 'int64'} {tv[1]})"
    else:
        raise Refuse(f"{sn.prefix}: token.value is a {tv[0]}")
    return f"Res.ok ⟨{sn.lean_of(tok)}, {val}, {sn.lean_of(env['pos.line'][0])}, {sn.lean_of(env['pos.pos'][0])}⟩"


def ret_ws(v, env, sn):
    if v[0] != "void":
        raise Refuse("skipSpace: returns a value")
    return f"Res.ok ({sn.lean_of(env['pos.line'][0])}, {sn.lean_of(env['pos.pos'][0])})"


def translate(cpp_text):
    """-> (lean text of Nstd/Generated/JsonCode.lean, [assumptions])"""
    src = strip_comments(cpp_text)
    parts, assumed = [], set()

    # 1. stripComments
    body = function_body(src, r"String\s+Json::stripComments\s*\(\s*const\s+String\s*&\s*(\w+)\s*\)", "Json::stripComments")
    m = re.search(r"String\s+Json::stripComments\s*\(\s*const\s+String\s*&\s*(\w+)\s*\)", src)
    sn = Snippet("strip", "SRes", "Cxx.rdS", "Cxx.findS", [(m.group(1), "ptr", "buf")], None, ret_strip)
    parts.append(sn.run(body, "strip", "`Json::stripComments(data)`: `buf` = the memory of `data`"))
    assumed |= sn.assumed

    # member functions of Json::Private that the translated blocks may call (inlined at the call site)
    functions = {}
    for m in re.finditer(r"\b(?:bool|void)\s+Json::Private::(\w+)\s*\(([^)]*)\)\s*\{", src):
        fname = m.group(1)
        if fname in ("readToken", "syntaxError", "parse", "parseObject", "parseArray", "parseValue"):
            continue
        params = []
        ok = True
        for part in [x.strip() for x in m.group(2).split(",") if x.strip()]:
            pm = re.fullmatch(r"(const\s+)?(\w+)\s*([&*]?)\s*(\w+)", part)
            if not pm:
                ok = False
                break
            params.append((pm.group(4), pm.group(3) == "&" and not pm.group(1)))
        if not ok:
            continue
        end = balanced(src, m.end() - 1)
        try:
            ps = Parser(tokenize(src[m.end():end - 1]), "Json::Private::" + fname)
            body = []
            while ps.peek()[0] != "eof":
                body.append(ps.stmt())
        except Refuse:
            continue                      # outside the subset: a call of it will be refused
        functions[fname] = (params, body)

    # 2./3. readToken: the string block and the number block
    rt = function_body(src, r"bool\s+Json::Private::readToken\s*\(\s*\)", "Json::Private::readToken")
    tokext = [("pos.line", "nat", "line"), ("pos.pos", "ptr", "r")]
    sblock = find_switch_group(rt, 34, "readToken")
    sn = Snippet("str", "Res (Nat × List Byte × List Byte)", "Cxx.rdR", "Cxx.findR", tokext, "pos.pos", ret_tok("str"))
    sn.functions = functions
    text = sn.run(sblock, "strTok", "`readToken`, the statements of `case '\"':` (cursor `r` AT the opening quote)")
    parts.append(text)
    assumed |= sn.assumed
    dblock = find_switch_group(rt, "default", "readToken")
    # the number block is the `if(*pos.pos == '-' || isDigit(*pos.pos)) { .. }` statement; what precedes it must be `token.token = '#';`
    ifs = [s for s in dblock if s[0] == "if"]
    pre = [s for s in dblock if s[0] != "if" and s[0] != "return"]
    if len(ifs) != 1 or any(not (s[0] == "expr" and s[1][0] == "assign" and lvalue_name(s[1][2]) == "token.token") for s in pre):
        raise Refuse("readToken: the default group is not `token.token = ..; if(..) {number} return error`")
    sn = Snippet("num", "Res (Val × List Byte)", "Cxx.rdR", "Cxx.findR", [("pos.pos", "ptr", "r")], "pos.pos", ret_tok("num"))
    sn.functions = functions
    parts.append(sn.run([ifs[0][2]], "numTok", "`readToken`, the number block (the body of `if(*pos.pos == '-' || isDigit(*pos.pos))`)"))
    assumed |= sn.assumed

    # 4. skipSpace
    body = function_body(src, r"void\s+Json::Private::skipSpace\s*\(\s*\)", "Json::Private::skipSpace")
    sn = Snippet("ws", "Res (Nat × List Byte)", "Cxx.rdR", "Cxx.findR", tokext, "pos.pos", ret_ws)
    parts.append(sn.run(body, "skipWs", "`Json::Private::skipSpace`"))
    assumed |= sn.assumed

    # 5. readToken as a whole (skipSpace inlined)
    sn = Snippet("tok", "Res St", "Cxx.rdR", "Cxx.findR", tokext, "pos.pos", ret_whole)
    sn.functions = functions
    parts.append(sn.run(rt, "readToken", "`Json::Private::readToken`, the whole body (`skipSpace` executed in place)"))
    assumed |= sn.assumed

    # 6. syntaxError: the cursor is known by the bytes in front of it (nearest first) - the backwards walk to the line start
    m = re.search(r"void\s+Json::Private::syntaxError\s*\(\s*const\s+Position\s*&\s*(\w+)\s*,\s*const\s+String\s*&\s*(\w+)\s*\)", src)
    if not m:
        raise Refuse("Json::Private::syntaxError(const Position&, const String&) not found")
    body = function_body(src, r"void\s+Json::Private::syntaxError\s*\([^)]*\)", "Json::Private::syntaxError")
    pn = m.group(1)

    def fall_err(env, sn):
        need = [env.get(n, (("uninit",),))[0] for n in ("errorLine", "errorColumn", "errorString")]
        if any(v[0] == "uninit" for v in need):
            raise Refuse("syntaxError: errorLine / errorColumn / errorString are not all assigned")
        if need[2][0] != "opaque":
            raise Refuse("syntaxError: errorString is not the message that was passed")
        return f"Res.ok ({sn.lean_of(need[0])}, {sn.lean_of(need[1])})"

    def no_ret(v, env, sn):
        raise Refuse("syntaxError: return statement")
    sn = Snippet("col", "Res (Nat × Nat)", "Cxx.rdR", "Cxx.findR",
                 [(pn + ".line", "nat", "line"), (pn + ".pos", "bptr", "back"), ("start", "bstart", "_"), (m.group(2), "opaque", "_")],
                 None, no_ret, fallthrough=fall_err)
    sn.always = {pn + ".line", pn + ".pos"}
    parts.append(sn.run(body, "syntaxError", "`Json::Private::syntaxError(pos, error)`: `back` = the bytes of the text in front of `pos.pos`, "
                        "nearest first (`start` = where that list ends); result = (errorLine, errorColumn)"))
    assumed |= sn.assumed

    # 7. parseValue (parseArray / parseObject executed in place; recursion = a call of the generated function with the fuel)
    pm = re.search(r"bool\s+Json::Private::parseValue\s*\(\s*Variant\s*&\s*(\w+)\s*\)", src)
    if not pm:
        raise Refuse("Json::Private::parseValue(Variant&) not found")
    pv = function_body(src, r"bool\s+Json::Private::parseValue\s*\(\s*Variant\s*&\s*\w+\s*\)", "Json::Private::parseValue")
    pfunctions = dict(functions)
    for fname in ("parseArray", "parseObject"):
        fm = re.search(r"bool\s+Json::Private::" + fname + r"\s*\(\s*Variant\s*&\s*(\w+)\s*\)\s*\{", src)
        if fm:
            end = balanced(src, fm.end() - 1)
            ps = Parser(tokenize(src[fm.end():end - 1]), "Json::Private::" + fname)
            body = []
            while ps.peek()[0] != "eof":
                body.append(ps.stmt())
            pfunctions[fname] = ([(fm.group(1), True)], body)

    def ret_parse(v, env, sn):
        if v[0] != "cbool":
            raise Refuse("parseValue: return value that is not true/false")
        if not v[1]:
            if "$err" not in env:
                raise Refuse("parseValue: `return false` without an error")
            _, line, p = env["$err"][0]
            return f"Res.fail {line} {p}"
        res = sn.lookup(env, sn.result_name)[0]
        conts = [x[0] for n, x in env.items() if x[0][0] in ("vlist", "vmap") and x[0][2] == sn.result_name]
        if res[0] == "jval" and not conts:
            val = res[1]
        elif res[0] == "jout" and len(conts) == 1:
            val = f"(Val.{'list' if conts[0][0] == 'vlist' else 'map'} {conts[0][1]})"
        else:
            raise Refuse("parseValue: `return true` without a value in the out-parameter")
        return f"Res.ok ({val}, {env['$st'][0][1]})"
    sn = Snippet("pv", "Res (Val × St)", "Cxx.rdR", "Cxx.findR", [("$st", "st", "st"), (pm.group(1), "jout", "_")], None, ret_parse)
    sn.result_name = pm.group(1)
    sn.functions = pfunctions
    sn.rec_name, sn.rec_lean, sn.recursive_entry = "parseValue", "parseValue", True
    sn.always = {"$st"}
    parts.append(sn.run(pv, "parseValue", "`Json::Private::parseValue(result)` with `parseArray` / `parseObject` executed in place: (value stored into "
                        "`result`, parser state behind it); `readToken()` = `St.next` (the tokenizer, translated above)"))
    assumed |= sn.assumed

    head = ("/- GENERATED by tools/gen_json.py (tools/gen_json_cxx.py) by TRANSLATING statements of src/Document/Json.cpp of the\n"
            "   current working tree.  Do not edit. -/\n"
            "import Nstd.Json.Cxx\n\nset_option linter.unusedVariables false\n\n"
            "namespace Nstd.Generated.JsonCode\nopen Nstd.Json\n\n")
    return head + "\n".join(parts) + "\nend Nstd.Generated.JsonCode\n", sorted(assumed)


if __name__ == "__main__":
    import sys
    text, assumed = translate(open(sys.argv[1]).read())
    print(text)
    for a in assumed:
        print("-- assumed:", a, file=sys.stderr)
