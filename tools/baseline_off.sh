#!/bin/sh
# Builds /repo (guard NSTD_VERIF off) into a scratch directory outside /repo and /verif and
# runs the repository's own test suite; removes the scratch directory afterwards.
set -e
REPO="${NSTD_REPO:-/repo}"
D="$(mktemp -d "${TMPDIR:-/tmp}/nstd-baseline.XXXXXX")"
trap 'rm -rf "$D"' EXIT
cmake -G Ninja -S "$REPO" -B "$D" -DCMAKE_BUILD_TYPE=Debug >"$D/configure.log" 2>&1 || { cat "$D/configure.log"; exit 1; }
cmake --build "$D" -j16 >"$D/build.log" 2>&1 || { tail -50 "$D/build.log"; exit 1; }
ctest --test-dir "$D" -j8 --timeout 900 --output-on-failure
