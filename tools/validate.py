#!/usr/bin/env python3
"""validate MANIFEST.json and evidence/*.json against the given schemas (run with python3-vt: needs jsonschema)"""
import glob
import json
import sys
import jsonschema
m = json.load(open('/verif/MANIFEST.json'))
jsonschema.validate(m, json.load(open('/root/.vp/MANIFEST.schema.json')))
es = json.load(open('/root/.vp/EVIDENCE.schema.json'))
bad = 0
for f in sorted(glob.glob('/verif/evidence/*.json')):
    try:
        jsonschema.validate(json.load(open(f)), es)
    except Exception as e:
        bad += 1
        print(f, 'INVALID', str(e)[:300])
print('manifest ok;', len(m['checks']), 'checks; evidence files invalid:', bad)
sys.exit(1 if bad else 0)
