#!/usr/bin/env python3
"""Write the task prompts of an extension round (one sub-agent per area) into tools/prompts/r<round>/<area>.md.

  extround.py <round>          -> tools/prompts/r<round>/*.md

The prompts are what the main session hands to the area builders; they only point at the area's own notes
(docs/<area>.md: coverage table, OPEN blocks) plus the items the main session collected for the round.
"""
import sys
from pathlib import Path

VERIF = Path(__file__).resolve().parents[1]

AREAS = {
    # area: (Area, properties, title, owned extra paths, anchored files hint)
    "avl": ("Avl", ["C01"], "Map / MultiMap sorted, complete, logarithmically deep", "tools/gen_avl.py"),
    "hash": ("Hash", ["C02"], "HashMap / HashSet / PoolMap insertion-ordered unique-key tables", "tools/gen_hash.py (new, if you write a translator)"),
    "seq": ("Seq", ["C03"], "List / Array / PoolList hold the reference sequence", "tools/gen_seq.py"),
    "life": ("Life", ["C04", "C05"], "exactly-once construction/destruction, deep copies; elements never move", "harness/life*.cpp, tools/gen_life.py (new, if you write a translator)"),
    "str": ("Str", ["C06"], "String is an independent byte-string value", "tools/gen_str.py"),
    "variant": ("Variant", ["C07"], "Variant keeps the last value, lazy copies independent", "tools/gen_variant.py (new, if you write a translator)"),
    "buffer": ("Buffer", ["C08"], "Buffer is a faithful byte queue with terminator and no stray writes", "harness/buffer*.cpp, tools/gen_buffer.py (new, if you write a translator)"),
    "rc": ("Rc", ["C09"], "shared payloads released exactly once", ""),
    "future": ("Future", ["C10"], "every Future call runs exactly once; join waits", "harness/future/*"),
    "sync": ("Sync", ["C11"], "Mutex, Semaphore, Signal, Monitor, Thread contracts", "harness/sync/*, harness/sync_stress.cpp, tools/areas/_sync_mutants.py"),
    "callback": ("Callback", ["C12"], "signals reach exactly the connected slots", ""),
    "server": ("Server", ["C13", "C14"], "Server clients deliver bytes in order; event loop honours timers, removals, readiness, interrupts", "harness/server/*, corpus/C13-batch"),
    "json": ("Json", ["C15"], "JSON total, safe, round-trip", "tools/gen_json.py"),
    "xml": ("Xml", ["C16"], "XML total, safe, round-trip", ""),
    "sha": ("Sha", ["C17"], "SHA-256 / HMAC equal the standard", "tools/gen_sha.py"),
    "codec": ("Codec", ["C18"], "text codecs and numeric conversions", "tools/gen_codec.py, harness/codec_probe.cpp"),
    "path": ("Path", ["C19"], "paths, files, directories", ""),
    "args": ("Args", ["C20"], "child processes get exact arguments; option parsing follows getopt", "harness/args_child.c"),
}

ITEMS = {
    "7": {
        "avl": """* Tie by translation, end to end: `tools/gen_avl.py` already translates the rotations, the descent, the prev/next threading, the neighbour tests of the hinted insert, the head of `remove(it)`, the `rebalParentUpwards` loop and the trivial removals, each proved equal to a piece of the model.  Compose them: ONE theorem per public operation saying that the translated body of the CURRENT header, run on any heap that represents a model state, yields a heap that represents the model's result — complete private `insert` (descent + threading + upward loop with the early exit), complete hinted `insert(position, …)` of Map and MultiMap, complete `remove(it)` including the two-child case (neighbour choice, relinking, `rebalParent` loop), `find` / MultiMap `find`+`count` loops, `clear`, the copy loops.  What cannot be composed in this round must be listed precisely (which loop, which frame condition).
* Rows of the coverage table that are not `proved`; the OPEN block at the end of Props.lean.""",
        "hash": """* Tie by translation (this area has none yet beyond constants): write `tools/gen_hash.py` in the style of `tools/gen_seq.py` / `tools/gen_avl.py` (tokenizer + small C++ subset → Lean functions over a record-of-nodes heap, refuse anything outside the subset) for the bodies of `HashMap::insert/find/remove(it)/clear/swap`, the HashSet and PoolMap variants, and the hash functions of Base.hpp that the containers use; prove each translated body equal to the corresponding step of the model on every heap representing a model state (bucket chain = `cell` back-pointer list, order list, free list).  Start with `find` and the bucket-chain unlink of `remove`, then `insert`.
* Rows of the coverage table that are not `proved` (6 rows).""",
        "seq": """* Extend the translation (`tools/gen_seq.py`, Generated/SeqLink.lean) from the relinking bodies to: `Array::reserve` growth loop (copy-construct into the new block, destroy old), `Array::remove(index)` shifting loop, `Array::insert`, `Array::resize`, `Array::append(const T*, n)`; the partition loop of `List::sort` (the heap-level sort `PtrSortG` is proved for the model's own quicksort — tie it to the translated code: translated partition = model partition on every heap).  Each translated body gets an `= model` theorem on every heap representing a model state.
* Rows of the coverage table that are not `proved` (8 rows).""",
        "life": """* C04/C05 rest on an event-level model (constructions/destructions/addresses).  Tighten the tie: translate (or at least extract mechanically and compare) the element-lifetime statements of the anchored code — placement-new / destructor calls in `Array::reserve/resize/remove/insert/append`, `List/HashMap/Map::clear` and destructors walking the live list, `PoolList/PoolMap::remove` computing the node from the element address — and prove the translated loops produce the model's event sequence for every size/position.
* `swap` followed by destruction of both containers; self-argument operations of every container (C04 last sentence) — make sure the headline theorems quantify over them for ALL positions.
* Rows of the coverage table that are not `proved`.""",
        "str": """* 16 rows of the coverage table are `model+tie` / `none`: the static character classifiers, `operator==/!=(literal)`, the `(n)` forms of the static helpers, `startsWith(const char*, …)`: state and prove their specification (all 256 characters / all inputs) instead of only tying them.
* Extend `tools/gen_str.py` (translation of String.hpp/String.cpp bodies): `detach` (copy length, minimum capacity, terminator write), the copy constructor / assignment (share owned, deep-copy non-owned), `operator const char*` on unterminated attached text, `append`/`prepend` with the self-argument; each proved equal to the model step on every heap state.
* `fromDouble` / `scanf` stay outside (say so), everything else should end `proved`.""",
        "variant": """* This area's note is the shortest (110 lines).  Audit again: every public member of Variant.hpp / Variant.cpp — all constructors (incl. `Variant(const String&/List&/Array&/HashMap&)`), all `to*` conversions const and mutable, `operator=` for every alternative, `operator==/!=`, `swap`, `clear`, `isNull`, `getType`.
* Coercion clause of C07 at full strength: `toInt/toUInt/toInt64/toUInt64/toBool/toDouble/toString` between every pair of alternatives incl. decimal strings at range boundaries (what libc `strtoll/strtoull/atof/sscanf` answer is a stated Lean definition — tie it by running the real libc over boundary tables).
* Tie by translation: a `tools/gen_variant.py` for `clear` (release by type), the copy constructor (share heap payloads, copy scalars) and the mutable accessors (clone when type differs or payload shared), proved equal to the model.""",
        "buffer": """* OPEN in docs: "composition: every client history (writes, readiness events, any `send` answers) ⇒ Admissible interleaving ⇒ `backlog_faithful_multi`" — state and prove the whole-history composition.
* Tie by translation: `tools/gen_buffer.py` translating the five branches of `Buffer::prepend`, `resize`, `append`, `removeFront/removeBack`, `assign`, `attach`, `swap` from the CURRENT Buffer.hpp into Lean over the checked-memory model, proved equal to `Model.lean`'s step functions (so the hand translation is no longer in the trusted base).
* Rows of the coverage table that are not `proved` (4 rows).""",
        "rc": """* OPEN (Props.lean:35): in-place writes THROUGH an embedded handle (`v.toString().append` on a box whose payload embeds the handle); OPEN (Props.lean:601): totality for the calls that create or walk `next` handles.
* Coverage rows `none`: `String(literal)`, `String(capacity)`, `append(const String&)/append(char)/prepend/operator+=/toUpperCase/detach()`, `operator const char*()` on unterminated attached data, the `Variant(const String&/List&/Array&/HashMap&)` constructors, `Xml::Variant(const Element&/String&)`, cross-kind `toString() const`: drive them in harness/driver/generator and bring them under the refinement + exactly-once theorems.
* Interleavings: make sure `mt_safe`-style theorems quantify over the newly added operations too.""",
        "future": """* OPEN blocks: PropsSpawnFail.lean (which states allow progress when thread creation fails; positive liveness under "a later creation succeeds"), PropsCall.lean:151, Fair2L1E.lean (push/pop frames `L1.l1Ring`, the two thread creations), Fair.lean end block, docs/future.md:185 (tail of the destructor after its join loop passed a never-started context).
* C10 last sentence: `isAborted()` true only if `abort()` was requested since the start, `isFinished()` otherwise — across a RESTART of the same Future object (flags must be re-initialised) — check the theorem quantifies over restart histories.
* Rows of the coverage table that are not `proved` (7 rows).""",
        "sync": """* Rows not `proved` (11): `Semaphore::wait(timeout)` ENOSYS → polling loop (bring it into the model: the loop with `tryWait` + `Thread::sleep(1)` on the virtual clock; prove "returns false only after the timeout expired", "consumes at most one unit"); `Monitor::lock/tryLock/unlock` and the Guards (state their mutual-exclusion theorem together with wait/set); `Thread::yield/getCurrentThreadId`; ctor/dtor rows.
* Deadline arithmetic: the absolute-deadline computation (`tv_nsec` carry, timeout 0, very long timeouts, overflow of `timeout * 1000000`) of every timed wait translated from the CURRENT Semaphore.cpp / Signal.cpp / Monitor.cpp (a small `gen` step like Generated/SyncMonitorOrder) and proved: normalised `0 ≤ nsec < 10^9`, deadline = now + timeout exactly, for all 64-bit inputs the code can see.""",
        "callback": """* OPEN (Props.lean:608): a model that re-uses object ids (a re-created Listener/Emitter at the address of its predecessor) and its refinement to the fresh-id model.
* Coverage rows not `proved` (8).  "Assumed about destruction order and `MemberFuncPtr`" (docs/callback.md:200): prove what can be proved (no slot is invoked by a destructor; intermediate states unobservable).
* Tie by translation: the bodies of `Emitter::connect/disconnect`, `Listener::~Listener`, `Emitter::~Emitter` and the `emit` loop with the activation guard, translated from the CURRENT Callback.hpp/Callback.cpp into Lean heap functions and proved equal to the model's steps.""",
        "server": """* 15 coverage rows are `none` / `model+tie`: `listen` failure, `connect(addr,port)` failure, `connect(host,…)` numeric host and the resolver path (needs sub-steps: several `onAbolished` in one poll round), `pair()` failure, socket options (`_keepAlive/_noDelay/_sendBufferSize/_receiveBufferSize`, `onAbolished` after a failing option), the dead `deleteClient` branch (prove it dead), `Poll::set` same-events early return, `Socket::send/recv` would-block mapping (theorem about the mapping itself).  Interpose `socket/bind/listen/connect/setsockopt/getaddrinfo` in the harness for scripted failures.
* C13/C14 headline theorems should quantify over histories that include those failures.
* Tie by translation where cheap: the interest-set computation of `suspend/resume/write-ready`, `mapEvents`, the timer re-queue — translated from the CURRENT Server.cpp/Socket.cpp and proved equal to the model.""",
        "json": """* "Not done" (docs/json.md:161): `interp (treeOf v) = some (norm v)` on the specification level.
* Extend `tools/gen_json.py`: beyond the escape switch translate the tokenizer's number scanning, the `\\u` / surrogate-pair decoding and the `stripComments` state machine from the CURRENT Json.cpp and prove the translated functions equal to the model's.
* Rows of the coverage table that are not `proved` (5 rows), error line/column exactness (`error_pos_exact`-style: the position is the offset of the offending token, not only "inside the text").""",
        "xml": """* OPEN blocks: Props.lean:118 (general form `parse (pre ++ "<!--body-->" ++ post) ≈ parse (pre ++ post)` wherever white space is allowed), PropsHeap.lean:160 / Props.lean:256 (`refines`: the NEW value of the target variable of an edit; sibling frame), PropsDecor.lean:90 (what the decorated round trip does not cover).
* Processing instructions before the root; attribute order / duplicate attributes; entity unescape of numeric references at the boundaries (&#0; &#x10FFFF; &#x110000;).
* Tie by translation: `escape` / `unescape` tables are generated — extend to the tokenizer's name / white-space / comment-skipping scanners translated from the CURRENT Xml.cpp, proved equal to the model's.""",
        "sha": """* `tools/gen_sha.py` translates constants and macros; the control flow of `Sha256::update` (buffer fill, full-block loop, remainder), `finalize` (0x80, zero padding to 56 mod 64 with the extra block, 64-bit big-endian bit length, big-endian digest output, reset) and `hmac` (key normalisation, ipad/opad, inner/outer) is a hand translation.  Translate those bodies from the CURRENT Sha256.cpp (C++ subset → Lean over byte lists / UInt32 state) and prove them equal to the model (and thereby to FIPS 180-4 / RFC 2104) for every input and chunking.
* Message length ≥ 2^61 bytes (bit counter wrap): state precisely what the code does; rows of the coverage table not `proved` (3).""",
        "codec": """* 2 coverage rows not `proved`; numeric clause: `toInt/toUInt/toInt64/toUInt64` exact over the full range incl. what happens on overflowing / signed input to the unsigned parsers (libc `strtoul` negation rule) — theorem + tie over boundary tables run on the real libc.
* Tie by translation: the UTF-8 encoder's range tests and the decoder's length table are generated; extend `tools/gen_codec.py` to the bodies of `Unicode::append`, `Unicode::fromString`, `Unicode::length`, `Unicode::isValid`, `String::fromHex/toHex/fromBase64/toBase64` loops (C++ subset → Lean) and prove translated = model for all inputs.
* Base64 ENCODER: `fromBase64(toBase64(b)) = b` for all byte strings and `toBase64` = RFC 4648 incl. padding.""",
        "path": """* OPEN: listing theorem for `Directory::open(dir, pattern, dirsOnly)` / `read` (pattern match = fnmatch subset actually implemented; dirsOnly after stat).
* 9 coverage rows `tie only` / `model+tie`: File object lifecycle (`File::File/~File/close/isOpen`, open on an open object), `write`, `flush`, `createSymbolicLink`, Directory object lifecycle, `getTempDirectory/getHomeDirectory` — bring into the closed-world model and state theorems (e.g. a File object is open iff …; close is idempotent; no descriptor leak over any call history).
* Path clause: `dirname + basename` and `stem + extension` recomposition, `getRelativePath(from,to)` appended to from denotes to — check they are at full strength for ALL strings (incl. backslashes, repeated separators, trailing separators, empty).  Tie by translation of the scanners (`getDirectoryName/getBaseName/getStem/getExtension/isAbsolutePath/simplifyPath` loops) from the CURRENT File.cpp.""",
        "args": """* `process_delivery_partial` + its OPEN block: strengthen the protocol-level model (pipe capacity, child shapes: reads stdin to EOF then writes; writes more than a pipe buffer before reading; closes stdout early) — theorem: for every child program of that class and every parent usage following the documented protocol, all bytes arrive in order and `join` returns the exit code.
* 8 coverage rows not `proved`; `argc = 0` (docs A8).
* Tie by translation: `Arguments::read/nextChar` state machine and the command-line splitter translated from the CURRENT Process.cpp (C++ subset → Lean) and proved equal to the model's functions for every argv / command line.""",
    },
}

TEMPLATE = """You are extending one area of an existing Lean-4 verification framework in /verif for the C++ library craflin/libnstd (/repo). Your area: `{Area}` (propert{ies} {props}: "{title}"). Files you own: /verif/lean/Nstd/{Area}/*, /verif/lean/Nstd/Generated/{Area}*.lean (generated, git-ignored), /verif/harness/{area}*, /verif/tools/areas/{area}.py, /verif/docs/{area}.md, /verif/corpus/{corp}/, /verif/fixes/{area}/{extra}.

First read, completely: /verif/tools/AGENT_GUIDE.md, then /verif/tools/EXTEND_GUIDE.md (the rules of an extension round), /verif/DESIGN.md sections 1 and 2, /verif/docs/{area}.md (the as-built note of your area, with the coverage table at its end), the {props} line(s) of /verif/properties.jsonl (never edit that file), the Props files named in tools/areas/{area}.py, and the anchored C++ sources.

The Lean project is already built (cd /verif/lean; incremental `lake build` of the targets in tools/areas/{area}.py LEAN_TARGETS; never `lake clean`, never delete .lake; other agents build other areas in the same project at the same time — if lake reports that it waits for another build, just wait). Create your scratch worktree with `git -C /repo worktree add --detach /tmp/wt7-{area} HEAD` and run checks only with `NSTD_REPO=/tmp/wt7-{area}`. Never modify /repo. /verif/docs/implcov/{p0}.txt lists lines of the anchored C++ files that the quick correspondence run did not execute when it was last measured (re-measure with `python3 tools/implcov.py {p0}` if you need it; it takes a few minutes).

This is extension round 7.  All twenty properties already have theorems and a correspondence run; what the framework is judged on now is (a) how much of the real code is inside the model and under a theorem, (b) how tight the tie between model and CURRENT source is, (c) that realistic breaking changes are detected and harmless rewrites are not.  The weakest link of most areas is that the model's control flow is a HAND translation of the C++ that is only validated by differential runs.  Where a translator exists for your area, or where you can write one in the time you have, prefer **tie by translation**: a Python translator (tokenizer + parser of the small C++ subset the function uses; it must refuse anything it does not recognise, which the check reports as a broken tie) that regenerates `lean/Nstd/Generated/<Area>*.lean` from the current sources on every run (`setup()` and the `gen=` argument of `proof_stage` in your area module), plus a theorem `translated body = model step` on every state that represents a model state.  Then a change of that C++ body changes the generated definition and the equality proof fails (→ the check searches for a failing input as it already does).  Existing examples to copy from: tools/gen_avl.py + lean/Nstd/Avl/PropsRot.lean, tools/gen_seq.py + lean/Nstd/Seq/PropsLink.lean, tools/gen_str.py, tools/gen_json.py.  A harmless rewrite of such a body may break the equality proof without breaking the property; that is accepted (it is reported as `no-failing-input-found`), but keep the subset small and robust (formatting, comments, renamed locals must not matter).

Items collected for your area (priority order; a fully proved smaller step beats a half-done big one):
{items}

General rules of the round:
* Theorems go into `Props*.lean` files listed in PROPS of tools/areas/{area}.py (every theorem there is an obligation, axiom-audited on every run: only propext / Classical.choice / Quot.sound; no sorry/admit/axiom/native_decide/bv_decide).  Statements at full strength, over all inputs / histories / schedules; non-vacuity `example`s beside theorems with hypotheses; keep OPEN blocks truthful.
* Whatever you add to the model must also be driven: harness op, driver op, generator (with branch-hit counters in the evidence), independent Python reference.
* Keep the check quiet on the unchanged tree for VERIF_SEED=1..3, keep all seeded/{p0}-* {p1s}detected and harmless/{p0}-h* no worse (procedure in EXTEND_GUIDE.md, on your worktree only; `python3 tools/seedtest.py` / `tools/harmtest.py` honour NSTD_REPO — read their headers).  Keep the quick tier ≤ ~90 s and the build of your Lean targets from clean ≤ ~6 min (split long files).
* Update docs/{area}.md (as-built note incl. the coverage table and a short "round 7" paragraph: what was added, what stays open) and the MANIFEST texts in tools/areas/{area}.py (`text`, `note`, `technique` must say exactly what is proved, what is translated, what is hand-translated and only tied, what is assumed).
* Commit your own paths often with messages starting "{area}:" (never `git add -A`; if `index.lock` exists wait a second and retry).  Never commit a state of a module reachable from LEAN_TARGETS that does not build.
* You have roughly 3 hours of work; do not stop earlier unless every item is done.  After about 3 hours wrap up: everything committed, check quiet on a clean worktree, worktree removed (`git -C /repo worktree remove --force /tmp/wt7-{area}`), and finish with the short final message described in EXTEND_GUIDE.md (what was added — theorem names; what stays open and why; defects found with patch files under fixes/{area}/; anything the main session must do).
"""


def main():
    rnd = sys.argv[1]
    out = VERIF / "tools" / "prompts" / f"r{rnd}"
    out.mkdir(parents=True, exist_ok=True)
    for area, (Area, props, title, extra) in AREAS.items():
        txt = TEMPLATE.format(
            Area=Area, area=area, props=" and ".join(props), ies="ies" if len(props) > 1 else "y", title=title,
            corp="/, /verif/corpus/".join(props), extra=(", " + extra) if extra else "", p0=props[0],
            p1s=("and seeded/%s-* " % props[1]) if len(props) > 1 else "", items=ITEMS[rnd][area])
        (out / f"{area}.md").write_text(txt)
        print(out / f"{area}.md")


if __name__ == "__main__":
    main()
