#!/usr/bin/env python3
"""Translator of the Str area (property C06).

Regenerates `lean/Nstd/Generated/StrTables.lean` from the CURRENT sources of the repo
(`NSTD_REPO`, default /repo): the tables and constants of String.hpp / String.cpp the model uses

  src/String.cpp          `String::lowerCaseMap[0x101]`, `String::upperCaseMap[0x101]` (256 chars each),
                          the first-attempt buffer of `printf` (`detach(0, N)`), the slack factor of
                          `replace` (`String result(data->len + replacement.data->len * N)`)
                          the first buffer of `fromPrintf` (`String s(N)`)
  include/nstd/String.hpp the capacity rules `usize capacity = x | MASK` of `detach` and of the copying
                          constructors / `operator=` (separately; a missing mask is 0), the default
                          arguments (`trim(chars = "…")`, `substr(start, length = N)`, `split(…, skipEmpty = b)`),
                          the range test of `isSpace`, the literals of `fromBool` and `toBool`, the multiplier of `hash`

The model (Nstd/Str/Model.lean) is written over these definitions, the case-map lemmas
(`lower_map`, `upper_map` in LemmasQuery) are re-checked against what the code says now.
Anything that cannot be found is a broken tie: `run` returns (False, reason).
"""
import hashlib
import re
import sys
from pathlib import Path

VERIF = Path(__file__).resolve().parents[1]
OUT = VERIF / "lean" / "Nstd" / "Generated" / "StrTables.lean"


class Untranslatable(Exception):
    pass


def c_string_bytes(lit):
    """bytes of a C string literal body (adjacent literals already joined); supports \\xHH, octal, simple escapes"""
    out, i = [], 0
    simple = {"n": 10, "t": 9, "r": 13, "0": 0, "\\": 92, '"': 34, "'": 39, "a": 7, "b": 8, "f": 12, "v": 11}
    while i < len(lit):
        ch = lit[i]
        if ch != "\\":
            out.append(ord(ch))
            i += 1
            continue
        nx = lit[i + 1]
        if nx == "x":
            m = re.match(r"[0-9a-fA-F]+", lit[i + 2:])
            if not m:
                raise Untranslatable("bad \\x escape")
            out.append(int(m.group(0), 16) & 0xFF)
            i += 2 + len(m.group(0))
        elif nx in "01234567":
            m = re.match(r"[0-7]{1,3}", lit[i + 1:])
            out.append(int(m.group(0), 8) & 0xFF)
            i += 1 + len(m.group(0))
        elif nx in simple:
            out.append(simple[nx])
            i += 2
        else:
            raise Untranslatable(f"unknown escape \\{nx}")
    return out


def table(src, name):
    m = re.search(r"char\s+String::" + name + r"\s*\[\s*0x101\s*\]\s*=\s*((?:\"(?:\\.|[^\"\\])*\"\s*)+);", src)
    if not m:
        raise Untranslatable(f"table String::{name}[0x101] not found")
    body = "".join(re.findall(r"\"((?:\\.|[^\"\\])*)\"", m.group(1)))
    t = c_string_bytes(body)
    if len(t) != 256:
        raise Untranslatable(f"String::{name} has {len(t)} chars, expected 256")
    return t


def one(rx, src, what):
    mm = re.findall(rx, src)
    if len(set(mm)) != 1:
        raise Untranslatable(f"{what}: expected one value, found {sorted(set(mm))}")
    return int(mm[0], 0)


def generate(repo):
    cpp = (Path(repo) / "src/String.cpp").read_text()
    hpp = (Path(repo) / "include/nstd/String.hpp").read_text()
    lower, upper = table(cpp, "lowerCaseMap"), table(cpp, "upperCaseMap")
    # capacity rules: `usize capacity = <operand>;` or `usize capacity = <operand> | MASK;` (a missing mask is `| 0`)
    def masks(operand_rx, what):
        mm = re.findall(r"usize\s+capacity\s*=\s*(?:" + operand_rx + r")\s*(?:\|\s*(0[xX][0-9a-fA-F]+|\d+)\s*)?;", hpp)
        if not mm:
            raise Untranslatable(f"{what}: `usize capacity = …` not found in String.hpp")
        vals = {int(x, 0) if x else 0 for x in mm}
        if len(vals) != 1:
            raise Untranslatable(f"{what}: the sites disagree: {sorted(vals)}")
        return vals.pop()
    cap_mask = masks(r"minCapacity", "capacity rule of detach")
    ctor_mask = masks(r"other\.data->len|otherData->len|length", "capacity rule of the copying constructors / operator=")
    printf_buf = one(r"detach\s*\(\s*0\s*,\s*(\d+)\s*\)", cpp, "first-attempt buffer of String::printf")
    slack = one(r"String\s+result\s*\(\s*data->len\s*\+\s*replacement\.data->len\s*\*\s*(\d+)\s*\)", cpp,
                "slack factor of String::replace")

    from_printf_buf = one(r"String\s+s\s*\(\s*(\d+)\s*\)\s*;", cpp, "first buffer of String::fromPrintf")
    m = re.search(r"String&\s+trim\s*\(\s*const\s+char\s*\*\s*chars\s*=\s*\"((?:\\.|[^\"\\])*)\"\s*\)", hpp)
    if not m:
        raise Untranslatable("default argument of String::trim not found")
    trim_default = c_string_bytes(m.group(1))
    substr_default = one(r"String\s+substr\s*\(\s*ssize\s+start\s*,\s*ssize\s+length\s*=\s*(-?\d+)\s*\)", hpp,
                         "default length of String::substr")
    mm = re.findall(r"usize\s+split\s*\(\s*(?:List|HashSet)<String>&\s*tokens\s*,\s*const\s+char\s*\*\s*separators\s*,\s*bool\s+skipEmpty\s*=\s*(true|false)\s*\)", hpp)
    if len(mm) != 2 or len(set(mm)) != 1:
        raise Untranslatable(f"default skipEmpty of String::split: {mm}")
    split_default = mm[0]
    m = re.search(r"static\s+bool\s+isSpace\s*\(\s*char\s+c\s*\)\s*\{\s*return\s*\(\s*c\s*>=\s*(\d+)\s*&&\s*c\s*<=\s*(\d+)\s*\)\s*\|\|\s*c\s*==\s*(\d+)\s*;\s*\}", hpp)
    if not m:
        raise Untranslatable("String::isSpace is not `(c >= A && c <= B) || c == C`")
    sp_lo, sp_hi, sp_x = (int(x) for x in m.groups())
    m = re.search(r"fromBool\s*\(\s*bool\s+value\s*\)\s*\{\s*return\s+value\s*\?\s*String\(\"((?:\\.|[^\"\\])*)\"\)\s*:\s*String\(\"((?:\\.|[^\"\\])*)\"\)\s*;", hpp)
    if not m:
        raise Untranslatable("String::fromBool is not `value ? String(\"…\") : String(\"…\")`")
    true_lit, false_lit = c_string_bytes(m.group(1)), c_string_bytes(m.group(2))
    hm = re.search(r"inline\s+usize\s+hash\s*\(\s*const\s+String&.*?\n\}", hpp, re.S)
    if not hm:
        raise Untranslatable("hash(const String&) not found")
    hash_mul = one(r"hashCode\s*\*=\s*(\d+)\s*;", hm.group(0), "multiplier of hash(const String&)")
    if len(re.findall(r"hashCode\s*\*=", hm.group(0))) != 3:
        raise Untranslatable("hash(const String&): expected three multiplications")

    m = re.search(r"equalsIgnoreCase\(\"((?:\\.|[^\"\\])*)\"\)\s*\|\|\s*\*this\s*==\s*\"((?:\\.|[^\"\\])*)\"", hpp)
    if not m:
        raise Untranslatable("String::toBool: `equalsIgnoreCase(\"…\") || *this == \"…\"` not found")
    tb_false, tb_zero = c_string_bytes(m.group(1)), c_string_bytes(m.group(2))

    def nl(t):
        return "[" + ", ".join(str(x) for x in t) + "]"

    def lst(t):
        rows = [", ".join(str(x) for x in t[i:i + 16]) for i in range(0, 256, 16)]
        return "[\n    " + ",\n    ".join(rows) + "]"

    return ("/- generated by tools/gen_str.py from src/String.cpp and include/nstd/String.hpp — do not edit -/\n"
            "namespace Nstd.Str.Generated\n\n"
            "/-- `String::lowerCaseMap` -/\n"
            f"def lowerCaseMap : List Nat := {lst(lower)}\n\n"
            "/-- `String::upperCaseMap` -/\n"
            f"def upperCaseMap : List Nat := {lst(upper)}\n\n"
            "/-- `capacity = minCapacity | capMask` in `detach` (0 = no mask) -/\n"
            f"def capMask : Nat := {cap_mask}\n\n"
            "/-- `capacity = length | ctorMask` in the copying constructors and `operator=` (0 = no mask) -/\n"
            f"def ctorMask : Nat := {ctor_mask}\n\n"
            "/-- `detach(0, printfBuf)`: size of the first attempt of `printf` -/\n"
            f"def printfBuf : Nat := {printf_buf}\n\n"
            "/-- `String result(data->len + replacement.data->len * replaceSlack)` -/\n"
            f"def replaceSlack : Nat := {slack}\n\n"
            "/-- `String s(fromPrintfBuf)`: the first buffer of `fromPrintf` (exact capacity, no mask) -/\n"
            f"def fromPrintfBuf : Nat := {from_printf_buf}\n\n"
            "/-- default argument of `trim(const char* chars = …)` -/\n"
            f"def trimDefault : List Nat := {nl(trim_default)}\n\n"
            "/-- default argument of `substr(ssize start, ssize length = …)` -/\n"
            f"def substrDefaultLen : Int := {substr_default}\n\n"
            "/-- default argument `skipEmpty` of both `split` overloads -/\n"
            f"def splitDefaultSkip : Bool := {split_default}\n\n"
            "/-- `isSpace(c)`: `(c >= isSpaceLo && c <= isSpaceHi) || c == isSpaceX` -/\n"
            f"def isSpaceLo : Nat := {sp_lo}\n"
            f"def isSpaceHi : Nat := {sp_hi}\n"
            f"def isSpaceX : Nat := {sp_x}\n\n"
            "/-- the literals of `fromBool` -/\n"
            f"def trueLit : List Nat := {nl(true_lit)}\n"
            f"def falseLit : List Nat := {nl(false_lit)}\n\n"
            "/-- `hashCode *= hashMul` (three times) in `hash(const String&)` -/\n"
            f"def hashMul : Nat := {hash_mul}\n\n"
            "/-- the literals of `toBool()`: `equalsIgnoreCase(toBoolFalseLit) || *this == toBoolZeroLit` -/\n"
            f"def toBoolFalseLit : List Nat := {nl(tb_false)}\n"
            f"def toBoolZeroLit : List Nat := {nl(tb_zero)}\n\n"
            "end Nstd.Str.Generated\n")


def run(repo=None):
    """returns (ok, message); writes the generated file only when its content changed"""
    if repo is None:
        import common
        repo = common.REPO
    try:
        text = generate(repo)
    except (Untranslatable, OSError) as ex:
        return False, f"gen_str: {ex}"
    OUT.parent.mkdir(parents=True, exist_ok=True)
    if not OUT.exists() or OUT.read_text() != text:
        OUT.write_text(text)
    return True, hashlib.sha1(text.encode()).hexdigest()[:12]


def gen(ctx):
    ok, msg = run()
    if ok:
        ctx.notes.append(f"translator: Nstd/Generated/StrTables.lean regenerated from the current sources (sha1 {msg})")
    return ok, msg


if __name__ == "__main__":
    sys.path.insert(0, str(VERIF / "tools"))
    ok, msg = run(sys.argv[1] if len(sys.argv) > 1 else None)
    print(("ok " if ok else "FAILED ") + msg)
    sys.exit(0 if ok else 1)
