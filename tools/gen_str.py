#!/usr/bin/env python3
"""Translator of the Str area (property C06).

Regenerates `lean/Nstd/Generated/StrTables.lean` (tables and constants, below) and `lean/Nstd/Generated/StrBody.lean`
(statement-by-statement translation of the bodies of the lazy-copy mechanism of String.hpp, see "body translator" further
down) from the CURRENT sources of the repo
(`NSTD_REPO`, default /repo): the tables and constants of String.hpp / String.cpp the model uses

  src/String.cpp          `String::lowerCaseMap[0x101]`, `String::upperCaseMap[0x101]` (256 chars each),
                          the first-attempt buffer of `printf` (`detach(0, N)`), the slack factor of
                          `replace` (`String result(data->len + replacement.data->len * N)`)
                          the first buffer of `fromPrintf` (`String s(N)`)
  include/nstd/String.hpp the capacity rules `usize capacity = x | MASK` of `detach` and of the copying
                          constructors / `operator=` (separately; a missing mask is 0), the default
                          arguments (`trim(chars = "…")`, `substr(start, length = N)`, `split(…, skipEmpty = b)`),
                          the range test of `isSpace`, the literals of `fromBool` and `toBool`, the multiplier of `hash`

The model (Nstd/Str/Model.lean) is written over these definitions, the case-map lemmas
(`lower_map`, `upper_map` in LemmasQuery) are re-checked against what the code says now.
Anything that cannot be found is a broken tie: `run` returns (False, reason).
"""
import hashlib
import re
import sys
from pathlib import Path

VERIF = Path(__file__).resolve().parents[1]
OUT = VERIF / "lean" / "Nstd" / "Generated" / "StrTables.lean"


class Untranslatable(Exception):
    pass


def c_string_bytes(lit):
    """bytes of a C string literal body (adjacent literals already joined); supports \\xHH, octal, simple escapes"""
    out, i = [], 0
    simple = {"n": 10, "t": 9, "r": 13, "0": 0, "\\": 92, '"': 34, "'": 39, "a": 7, "b": 8, "f": 12, "v": 11}
    while i < len(lit):
        ch = lit[i]
        if ch != "\\":
            out.append(ord(ch))
            i += 1
            continue
        nx = lit[i + 1]
        if nx == "x":
            m = re.match(r"[0-9a-fA-F]+", lit[i + 2:])
            if not m:
                raise Untranslatable("bad \\x escape")
            out.append(int(m.group(0), 16) & 0xFF)
            i += 2 + len(m.group(0))
        elif nx in "01234567":
            m = re.match(r"[0-7]{1,3}", lit[i + 1:])
            out.append(int(m.group(0), 8) & 0xFF)
            i += 1 + len(m.group(0))
        elif nx in simple:
            out.append(simple[nx])
            i += 2
        else:
            raise Untranslatable(f"unknown escape \\{nx}")
    return out


def table(src, name):
    m = re.search(r"char\s+String::" + name + r"\s*\[\s*0x101\s*\]\s*=\s*((?:\"(?:\\.|[^\"\\])*\"\s*)+);", src)
    if not m:
        raise Untranslatable(f"table String::{name}[0x101] not found")
    body = "".join(re.findall(r"\"((?:\\.|[^\"\\])*)\"", m.group(1)))
    t = c_string_bytes(body)
    if len(t) != 256:
        raise Untranslatable(f"String::{name} has {len(t)} chars, expected 256")
    return t


def one(rx, src, what):
    mm = re.findall(rx, src)
    if len(set(mm)) != 1:
        raise Untranslatable(f"{what}: expected one value, found {sorted(set(mm))}")
    return int(mm[0], 0)


def generate(repo):
    cpp = (Path(repo) / "src/String.cpp").read_text()
    hpp = (Path(repo) / "include/nstd/String.hpp").read_text()
    lower, upper = table(cpp, "lowerCaseMap"), table(cpp, "upperCaseMap")
    # capacity rules: `usize capacity = <operand>;` or `usize capacity = <operand> | MASK;` (a missing mask is `| 0`)
    def masks(operand_rx, what):
        mm = re.findall(r"usize\s+capacity\s*=\s*(?:" + operand_rx + r")\s*(?:\|\s*(0[xX][0-9a-fA-F]+|\d+)\s*)?;", hpp)
        if not mm:
            raise Untranslatable(f"{what}: `usize capacity = …` not found in String.hpp")
        vals = {int(x, 0) if x else 0 for x in mm}
        if len(vals) != 1:
            raise Untranslatable(f"{what}: the sites disagree: {sorted(vals)}")
        return vals.pop()
    cap_mask = masks(r"minCapacity", "capacity rule of detach")
    ctor_mask = masks(r"other\.data->len|otherData->len|length", "capacity rule of the copying constructors / operator=")
    printf_buf = one(r"detach\s*\(\s*0\s*,\s*(\d+)\s*\)", cpp, "first-attempt buffer of String::printf")
    slack = one(r"String\s+result\s*\(\s*data->len\s*\+\s*replacement\.data->len\s*\*\s*(\d+)\s*\)", cpp,
                "slack factor of String::replace")

    from_printf_buf = one(r"String\s+s\s*\(\s*(\d+)\s*\)\s*;", cpp, "first buffer of String::fromPrintf")
    m = re.search(r"String&\s+trim\s*\(\s*const\s+char\s*\*\s*chars\s*=\s*\"((?:\\.|[^\"\\])*)\"\s*\)", hpp)
    if not m:
        raise Untranslatable("default argument of String::trim not found")
    trim_default = c_string_bytes(m.group(1))
    substr_default = one(r"String\s+substr\s*\(\s*ssize\s+start\s*,\s*ssize\s+length\s*=\s*(-?\d+)\s*\)", hpp,
                         "default length of String::substr")
    mm = re.findall(r"usize\s+split\s*\(\s*(?:List|HashSet)<String>&\s*tokens\s*,\s*const\s+char\s*\*\s*separators\s*,\s*bool\s+skipEmpty\s*=\s*(true|false)\s*\)", hpp)
    if len(mm) != 2 or len(set(mm)) != 1:
        raise Untranslatable(f"default skipEmpty of String::split: {mm}")
    split_default = mm[0]
    m = re.search(r"static\s+bool\s+isSpace\s*\(\s*char\s+c\s*\)\s*\{\s*return\s*\(\s*c\s*>=\s*(\d+)\s*&&\s*c\s*<=\s*(\d+)\s*\)\s*\|\|\s*c\s*==\s*(\d+)\s*;\s*\}", hpp)
    if not m:
        raise Untranslatable("String::isSpace is not `(c >= A && c <= B) || c == C`")
    sp_lo, sp_hi, sp_x = (int(x) for x in m.groups())
    m = re.search(r"fromBool\s*\(\s*bool\s+value\s*\)\s*\{\s*return\s+value\s*\?\s*String\(\"((?:\\.|[^\"\\])*)\"\)\s*:\s*String\(\"((?:\\.|[^\"\\])*)\"\)\s*;", hpp)
    if not m:
        raise Untranslatable("String::fromBool is not `value ? String(\"…\") : String(\"…\")`")
    true_lit, false_lit = c_string_bytes(m.group(1)), c_string_bytes(m.group(2))
    hm = re.search(r"inline\s+usize\s+hash\s*\(\s*const\s+String&.*?\n\}", hpp, re.S)
    if not hm:
        raise Untranslatable("hash(const String&) not found")
    hash_mul = one(r"hashCode\s*\*=\s*(\d+)\s*;", hm.group(0), "multiplier of hash(const String&)")
    if len(re.findall(r"hashCode\s*\*=", hm.group(0))) != 3:
        raise Untranslatable("hash(const String&): expected three multiplications")

    m = re.search(r"equalsIgnoreCase\(\"((?:\\.|[^\"\\])*)\"\)\s*\|\|\s*\*this\s*==\s*\"((?:\\.|[^\"\\])*)\"", hpp)
    if not m:
        raise Untranslatable("String::toBool: `equalsIgnoreCase(\"…\") || *this == \"…\"` not found")
    tb_false, tb_zero = c_string_bytes(m.group(1)), c_string_bytes(m.group(2))

    def nl(t):
        return "[" + ", ".join(str(x) for x in t) + "]"

    def lst(t):
        rows = [", ".join(str(x) for x in t[i:i + 16]) for i in range(0, 256, 16)]
        return "[\n    " + ",\n    ".join(rows) + "]"

    return ("/- generated by tools/gen_str.py from src/String.cpp and include/nstd/String.hpp — do not edit -/\n"
            "namespace Nstd.Str.Generated\n\n"
            "/-- `String::lowerCaseMap` -/\n"
            f"def lowerCaseMap : List Nat := {lst(lower)}\n\n"
            "/-- `String::upperCaseMap` -/\n"
            f"def upperCaseMap : List Nat := {lst(upper)}\n\n"
            "/-- `capacity = minCapacity | capMask` in `detach` (0 = no mask) -/\n"
            f"def capMask : Nat := {cap_mask}\n\n"
            "/-- `capacity = length | ctorMask` in the copying constructors and `operator=` (0 = no mask) -/\n"
            f"def ctorMask : Nat := {ctor_mask}\n\n"
            "/-- `detach(0, printfBuf)`: size of the first attempt of `printf` -/\n"
            f"def printfBuf : Nat := {printf_buf}\n\n"
            "/-- `String result(data->len + replacement.data->len * replaceSlack)` -/\n"
            f"def replaceSlack : Nat := {slack}\n\n"
            "/-- `String s(fromPrintfBuf)`: the first buffer of `fromPrintf` (exact capacity, no mask) -/\n"
            f"def fromPrintfBuf : Nat := {from_printf_buf}\n\n"
            "/-- default argument of `trim(const char* chars = …)` -/\n"
            f"def trimDefault : List Nat := {nl(trim_default)}\n\n"
            "/-- default argument of `substr(ssize start, ssize length = …)` -/\n"
            f"def substrDefaultLen : Int := {substr_default}\n\n"
            "/-- default argument `skipEmpty` of both `split` overloads -/\n"
            f"def splitDefaultSkip : Bool := {split_default}\n\n"
            "/-- `isSpace(c)`: `(c >= isSpaceLo && c <= isSpaceHi) || c == isSpaceX` -/\n"
            f"def isSpaceLo : Nat := {sp_lo}\n"
            f"def isSpaceHi : Nat := {sp_hi}\n"
            f"def isSpaceX : Nat := {sp_x}\n\n"
            "/-- the literals of `fromBool` -/\n"
            f"def trueLit : List Nat := {nl(true_lit)}\n"
            f"def falseLit : List Nat := {nl(false_lit)}\n\n"
            "/-- `hashCode *= hashMul` (three times) in `hash(const String&)` -/\n"
            f"def hashMul : Nat := {hash_mul}\n\n"
            "/-- the literals of `toBool()`: `equalsIgnoreCase(toBoolFalseLit) || *this == toBoolZeroLit` -/\n"
            f"def toBoolFalseLit : List Nat := {nl(tb_false)}\n"
            f"def toBoolZeroLit : List Nat := {nl(tb_zero)}\n\n"
            "end Nstd.Str.Generated\n")


# ======================================================================================================================
# body translator: C++ bodies of String.hpp -> lean/Nstd/Generated/StrBody.lean (tie by translation)
#
# Tokenizer + recursive-descent parser of the C++ subset the bodies of
#     ~String(), detach(usize, usize), String(const String&), operator=(const String&), operator const char*() [const],
#     operator char*(), detach(), resize, reserve, append x3, prepend x2
# are written in, and a statement-by-statement emitter over the semantics of lean/Nstd/Str/Mach.lean.  Anything outside
# the subset is REFUSED (-> broken tie).  lean/Nstd/Str/PropsBody.lean proves every generated function equal to the
# hand-written model step of Model.lean (release, detach, ctorCopy, assign, cview, mview, resize, reserve, appendS/P/C,
# prependS/P) on every state with an unused next block id (part of the heap invariant).
#
# Conventions of the translation (assumptions, listed in the MANIFEST note):
#   usize            -> Nat (no wrap-around);  sizeof(char) = 1;  `a | b` -> `a ||| b`
#   Data*            -> Loc (see Mach.lean);  `&emptyData` -> Loc.empty;  `_data` is refused (no translated body stores into it)
#   char*            -> Mach.CPtr;  casts between char pointer types are dropped
#   String object    -> slot index;  `this`, parameters `const String& x`, locals `String x(*this)` (one extra slot parameter
#                       each, constructed with the translated copy constructor, destroyed with the translated destructor
#                       at every `return`; afterwards the slot holds no object: Mach.endLife)
#   `X = (Data*)new char[n]; X->str = (char*)((byte*)X + sizeof(Data));` -> Mach.newData (the only accepted form of `new`)
#   `if(a && b)` / `||` / `!` -> nested `if`s (short circuit); `c ? a : b` as a value -> lazy, branches without stores
#   `E1[E2] = E3`, `X->f = E`: right operand first, then the left one left to right (C++17)
#   `Atomic::decrement(x) == 0`: the decrement, then a load of the counter (one thread)
#   `NSTD_VERIF_RC_YIELD(...)` (scheduling hook, empty without a scheduler), `#ifdef ASSERT … #endif` -> skipped
#   return values (`*this`, `data->str`, `(char*)data->str`) are checked for their form and not translated
#   loops, `goto`, `switch`, other calls, other members, `-`, `/`, `%`, `++`, `--` -> refused
# ======================================================================================================================
BODY_OUT = VERIF / "lean" / "Nstd" / "Generated" / "StrBody.lean"
BTOK = re.compile(r"\s*(->|::|==|!=|<=|>=|&&|\|\||\+\+|--|0[xX][0-9a-fA-F]+|\d+|'(?:\\.|[^'\\])'|\"(?:\\.|[^\"\\])*\""
                  r"|[A-Za-z_]\w*|[{}()\[\];,<>=+\-*/!?:&.~|^%])")
IDENT = re.compile(r"[A-Za-z_]\w*$")


def strip_comments(src):
    src = re.sub(r"/\*.*?\*/", " ", src, flags=re.S)
    return re.sub(r"//[^\n]*", "", src)


def btokenize(text, fn):
    text = re.sub(r"#ifdef\s+ASSERT\s*\n(?:\s*ASSERT\s*\([^\n]*\)\s*;\s*\n)*\s*#endif", " ", text)
    text = re.sub(r"#ifdef\s+_MSC_VER\s*\n[^#]*#else\s*\n([^#]*)#endif", r"\1", text)     # not the Microsoft compiler
    if "#" in text:
        raise Untranslatable(f"{fn}: preprocessor directive inside the body")
    toks, pos = [], 0
    text = text.rstrip()
    while pos < len(text):
        m = BTOK.match(text, pos)
        if not m:
            if text[pos:].strip() == "":
                break
            raise Untranslatable(f"{fn}: cannot tokenize at {text[pos:pos + 30]!r}")
        toks.append(m.group(1))
        pos = m.end()
    return toks


def balanced(src, start):
    depth = 0
    for i in range(start, len(src)):
        if src[i] == "{":
            depth += 1
        elif src[i] == "}":
            depth -= 1
            if depth == 0:
                return i + 1
    raise Untranslatable("unbalanced braces")


def extract_body(src, fn, sig_rx):
    # constructors: an initialiser list `: data(EXPR)` is the statement `data = EXPR;` in front of the body
    ms = list(re.finditer(sig_rx + r"\s*(?::\s*data\s*\(((?:[^()]|\([^()]*\))*)\)\s*)?\{", src))
    if len(ms) != 1:
        raise Untranslatable(f"{fn}: {len(ms)} definitions found, expected exactly one")
    m = ms[0]
    end = balanced(src, m.end() - 1)
    init = m.groups()[-1]
    return (f"data = {init};" if init else "") + src[m.end():end - 1], m.groups()[:-1]


CAST_TYPES = {"char*": "cptr", "constchar*": "cptr", "byte*": "byteptr", "Data*": "dptr", "usize": "nat", "constbyte*": "byteptr"}


class BP:
    """parser; expressions -> tuples"""

    def __init__(self, toks, fn):
        self.t, self.i, self.fn = toks, 0, fn

    def peek(self, k=0):
        return self.t[self.i + k] if self.i + k < len(self.t) else None

    def eat(self, x=None):
        tok = self.peek()
        if tok is None or (x is not None and tok != x):
            raise Untranslatable(f"{self.fn}: expected {x!r}, found {tok!r}")
        self.i += 1
        return tok

    def refuse(self, what):
        raise Untranslatable(f"{self.fn}: {what} is outside the translated subset")

    # ---- statements
    def stmts(self):
        out = []
        while self.peek() is not None and self.peek() != "}":
            out.append(self.stmt())
        return out

    def stmt(self):
        tok = self.peek()
        if tok == "{":
            self.eat()
            b = self.stmts()
            self.eat("}")
            return ("block", b)
        if tok == ";":
            self.eat()
            return ("block", [])
        if tok == "if":
            self.eat(); self.eat("(")
            c = self.expr()
            self.eat(")")
            a = self.stmt()
            b = ("block", [])
            if self.peek() == "else":
                self.eat()
                b = self.stmt()
            return ("if", c, a, b)
        if tok == "return":
            self.eat()
            e = None
            if self.peek() != ";":
                e = self.expr()
            self.eat(";")
            return ("return", e)
        if tok == "va_list":
            self.eat(); self.eat(); self.eat(";")
            return ("block", [])
        if tok in ("va_start", "va_end", "ASSERT") and self.peek(1) == "(":
            self.eat(); self.eat("(")
            depth = 1
            while depth:
                x = self.eat()
                depth += (x == "(") - (x == ")")
            self.eat(";")
            return ("block", [])
        if tok == "int" and IDENT.match(self.peek(1) or "") and self.peek(2) == ";":
            self.eat()
            name = self.eat()
            self.eat(";")
            return ("declvar", "int", name)
        if tok == "NSTD_VERIF_RC_YIELD":
            self.eat(); self.eat("(")
            depth = 1
            while depth:
                x = self.eat()
                depth += (x == "(") - (x == ")")
            self.eat(";")
            return ("block", [])
        if tok == "for":
            self.eat(); self.eat("(")
            init = self.stmt()                       # a declaration / expression statement / `;`
            cond = ("num", 1)
            if self.peek() != ";":
                cond = self.expr()
            self.eat(";")
            step = []
            while self.peek() != ")":
                step.append(("expr", self.expr()))
                if self.peek() == ",":
                    self.eat()
            self.eat(")")
            body = self.stmt()
            return ("for", init, cond, step, body)
        if tok in ("while", "do", "switch", "goto", "break", "continue", "try", "throw"):
            self.refuse(f"statement `{tok}`")
        # declarations
        j = self.i
        const = False
        if self.peek() == "const":
            const = True
            j += 1
        ty = self.t[j] if j < len(self.t) else None
        if ty == "String" and not (j + 1 < len(self.t) and self.t[j + 1] in ("(", "::")):
            self.i = j + 1
            if self.peek() == "&":
                self.eat()
                name = self.eat()
                self.eat("=")
                e = self.expr()
                self.eat(";")
                return ("declref", name, e)
            name = self.eat()
            if not IDENT.match(name) or const:
                self.refuse("this declaration of a String")
            self.eat("(")
            e = self.expr()
            self.eat(")"); self.eat(";")
            return ("declobj", name, e)
        if ty in ("usize", "char", "Data") and j + 1 < len(self.t) and (self.t[j + 1] == "*" or IDENT.match(self.t[j + 1])):
            self.i = j + 1
            ptr = False
            if self.peek() == "*":
                self.eat(); ptr = True
            if self.peek() == "const":
                self.eat()
            name = self.eat()
            if not IDENT.match(name) or self.peek() != "=":
                self.refuse(f"declarator of `{name}`")
            self.eat("=")
            e = self.expr()
            tymap = {("usize", False): "nat", ("char", True): "cptr", ("Data", True): "dptr", ("char", False): "nat"}
            decls = [("decl", tymap[(ty, ptr)], name, e)]
            while self.peek() == ",":                # further declarators of the same base type
                self.eat()
                ptr2 = False
                if self.peek() == "*":
                    self.eat(); ptr2 = True
                if self.peek() == "const":
                    self.eat()
                name2 = self.eat()
                if not IDENT.match(name2) or self.peek() != "=":
                    self.refuse(f"declarator of `{name2}`")
                self.eat("=")
                decls.append(("decl", tymap[(ty, ptr2)], name2, self.expr()))
            self.eat(";")
            return decls[0] if len(decls) == 1 else ("block", decls)
        e = self.expr()
        self.eat(";")
        return ("expr", e)

    # ---- expressions (precedence climbing)
    def expr(self):
        lhs = self.ternary()
        if self.peek() == "=":
            self.eat()
            return ("assign", lhs, self.expr())
        if self.peek() in ("+", "-", "*", "/", "|", "&", "^", "%", "<", ">") and self.peek(1) == "=":
            self.refuse("compound assignment")
        return lhs

    def ternary(self):
        c = self.binary(0)
        if self.peek() == "?":
            self.eat()
            a = self.expr()
            self.eat(":")
            b = self.ternary()
            return ("tern", c, a, b)
        return c

    LEVELS = [["||"], ["&&"], ["|"], ["==", "!="], ["<", "<=", ">", ">="], ["+", "-"], ["*", "/", "%"]]

    def binary(self, lvl):
        if lvl == len(self.LEVELS):
            return self.unary()
        a = self.binary(lvl + 1)
        while self.peek() in self.LEVELS[lvl] and not (self.peek() in ("|", "+", "-", "*", "/", "%", "<", ">") and self.peek(1) == "="):
            op = self.eat()
            if op in ("/", "%", "^"):
                self.refuse(f"operator `{op}`")
            b = self.binary(lvl + 1)
            a = ("bin", op, a, b)
        return a

    def cast_type(self):
        """the cast `( type )` at the cursor or None"""
        if self.peek() != "(":
            return None
        j = self.i + 1
        txt = ""
        while j < len(self.t) and self.t[j] in ("const", "char", "byte", "Data", "usize", "*"):
            txt += self.t[j]
            j += 1
        if txt in CAST_TYPES and j < len(self.t) and self.t[j] == ")":
            self.i = j + 1
            return txt
        return None

    def unary(self):
        tok = self.peek()
        ct = self.cast_type()
        if ct is not None:
            return ("cast", ct, self.unary())
        if tok == "!":
            self.eat()
            return ("not", self.unary())
        if tok == "&":
            self.eat()
            return ("addr", self.unary())
        if tok == "*":
            self.eat()
            return ("deref", self.unary())
        if tok == "-" and re.fullmatch(r"\d+", self.peek(1) or ""):
            self.eat()
            return ("inum", -int(self.eat()))
        if tok == "++" and IDENT.match(self.peek(1) or "") and self.peek(2) in (")", ",", ";"):
            self.eat()
            return ("preinc", ("id", self.eat()))
        if tok in ("++", "--", "-", "~", "+"):
            self.refuse(f"operator `{tok}`")
        if tok == "sizeof":
            self.eat(); self.eat("(")
            ty = self.eat()
            self.eat(")")
            if ty not in ("char", "Data"):
                self.refuse(f"sizeof({ty})")
            return ("sizeof", ty)
        if tok == "new":
            self.eat(); self.eat("char"); self.eat("[")
            e = self.expr()
            self.eat("]")
            return ("new", e)
        if tok == "delete":
            self.eat(); self.eat("["); self.eat("]")
            return ("delete", self.unary())
        return self.postfix()

    def args(self):
        self.eat("(")
        out = []
        if self.peek() != ")":
            out.append(self.expr())
            while self.peek() == ",":
                self.eat()
                out.append(self.expr())
        self.eat(")")
        return out

    def postfix(self):
        tok = self.eat()
        if tok == "(":
            a = self.expr()
            self.eat(")")
        elif re.fullmatch(r"0[xX][0-9a-fA-F]+|\d+", tok):
            a = ("num", int(tok, 0))
        elif tok.startswith("'"):
            bs = c_string_bytes(tok[1:-1])
            if len(bs) != 1:
                self.refuse(f"char literal {tok}")
            a = ("num", bs[0])
        elif tok == "this":
            a = ("this",)
        elif tok == "const_cast":
            if [self.eat(), self.eat(), self.eat(), self.eat()] != ["<", "String", "*", ">"]:
                self.refuse("this const_cast")
            self.eat("(")
            a = self.expr()
            self.eat(")")
            if a != ("this",):
                self.refuse("const_cast of something else than `this`")
        elif IDENT.match(tok):
            name = tok
            while self.peek() == "::":
                self.eat()
                name += "::" + self.eat()
            if self.peek() == "(":
                a = ("call", name, self.args())
            else:
                if "::" in name:
                    self.refuse(f"`{name}`")
                a = ("id", name)
        else:
            self.refuse(f"token {tok!r}")
        while self.peek() in ("->", ".", "[", "++", "--"):
            op = self.eat()
            if op in ("++", "--"):
                self.refuse(f"operator `{op}`")
            if op == "[":
                i = self.expr()
                self.eat("]")
                a = ("index", a, i)
                continue
            f = self.eat()
            if not IDENT.match(f):
                self.refuse(f"member {f!r}")
            if self.peek() == "(":
                a = ("mcall", a, op, f, self.args())
            else:
                a = ("arrow" if op == "->" else "dot", a, f)
        return a


class BT:
    """emitter: one C++ body -> the lines of a Lean `do` block over Mach"""

    def __init__(self, fn, params, known):
        self.fn, self.known = fn, known        # known: lean names of the translated functions defined so far
        self.n = 0
        self.tmps = 0                          # extra slots for local String objects
        self.params = params                   # source name -> (lean term, type)
        self.depth, self.k_inl, self.src = 0, 0, None
        self.nloops, self.aux, self.uses_fuel, self.loopdef, self.lean, self.rty = 0, [], False, None, "f", "Option St"
        self.fmt = next((n for n, (_, ty) in params.items() if ty == "fmt"), None)

    def refuse(self, what):
        raise Untranslatable(f"{self.fn}: {what} is outside the translated subset")

    def fresh(self):
        self.n += 1
        return f"t{self.n}"

    # ---- values.  ev appends lines to `out` and returns (lean term, type)
    def ev(self, e, env, out, ind):
        k = e[0]
        if k == "num":
            return str(e[1]), "nat"
        if k == "boollit":
            return ("True" if e[1] else "False"), "bool"
        if k == "inum":
            return f"({e[1]} : Int)", "int"
        if k == "sizeof":
            return ("1" if e[1] == "char" else "sizeofData"), "nat"
        if k == "this":
            return "this", "objptr"
        if k == "id":
            x = e[1]
            if x in env:
                if env[x][1].startswith("unset:"):
                    self.refuse(f"`{x}` read before it is assigned")
                return env[x]
            if x == "data":
                t = self.fresh()
                out.append(f"{ind}let {t} := s.vars this")
                return t, "dptr"
            self.refuse(f"identifier `{x}`")
        if k == "deref":
            t, ty = self.ev(e[1], env, out, ind)
            if ty == "cptr":
                r = self.fresh()
                out.append(f"{ind}let {r} ← loadChar s {t} 0")
                return r, "nat"
            if ty != "objptr":
                self.refuse("`*` on something that is not `this` or a char pointer")
            return t, "obj"
        if k == "addr":
            if e[1] == ("id", "emptyData"):
                return "Loc.empty", "dptr"
            t, ty = self.ev(e[1], env, out, ind)
            if ty != "obj":
                self.refuse("address-of other than `&emptyData` / `&<String>`")
            return t, "objptr"
        if k == "cast" and e[1] in ("char*", "constchar*") and e[2][0] == "bin" and e[2][1] == "+" \
                and e[2][2][0] == "cast" and e[2][2][1] == "byte*" and e[2][3] == ("sizeof", "Data"):
            t, ty = self.ev(e[2][2][2], env, out, ind)
            if ty != "dptr":
                self.refuse("`(char*)((byte*)X + sizeof(Data))` with X not a Data*")
            r = self.fresh()
            out.append(f"{ind}let {r} ← charsOf s {t}")
            return r, "cptr"
        if k == "cast":
            t, ty = self.ev(e[2], env, out, ind)
            want = CAST_TYPES[e[1]]
            if (ty, want) in (("cptr", "cptr"), ("nat", "nat"), ("dptr", "dptr")):
                return t, ty
            if ty == "int" and want == "nat":
                return f"(Int.toNat {t})", "nat"
            if ty == "dptr" and want == "cptr":
                return t, "dptr_as_chars"              # only `delete[]` accepts this
            self.refuse(f"cast of a {ty} to ({e[1]})")
        if k == "dot":
            t, ty = self.ev(e[1], env, out, ind)
            if ty != "obj" or e[2] != "data":
                self.refuse(f"`.{e[2]}`")
            r = self.fresh()
            out.append(f"{ind}let {r} := s.vars {t}")
            return r, "dptr"
        if k == "arrow":
            t, ty = self.ev(e[1], env, out, ind)
            if ty == "objptr" and e[2] == "data":
                r = self.fresh()
                out.append(f"{ind}let {r} := s.vars {t}")
                return r, "dptr"
            if ty != "dptr":
                self.refuse(f"`->{e[2]}` on a {ty}")
            rd = {"ref": ("dRef", "nat"), "len": ("dLen", "nat"), "capacity": ("dCap", "nat"), "str": ("dStr", "cptr")}.get(e[2])
            if rd is None:
                self.refuse(f"field `{e[2]}`")
            r = self.fresh()
            out.append(f"{ind}let {r} ← {rd[0]} s {t}")
            return r, rd[1]
        if k == "index":
            p, pty = self.ev(e[1], env, out, ind)
            i, ity = self.ev(e[2], env, out, ind)
            if pty != "cptr" or ity != "nat":
                self.refuse("this subscript")
            r = self.fresh()
            out.append(f"{ind}let {r} ← loadChar s {p} {i}")
            return r, "nat"
        if k == "bin":
            op = e[1]
            if op in ("&&", "||"):
                self.refuse(f"`{op}` used as a value")
            a, aty = self.ev(e[2], env, out, ind)
            b, bty = self.ev(e[3], env, out, ind)
            if aty == "int" and e[3][0] == "num":          # int with a literal
                b, bty = f"({b} : Int)", "int"
            if bty == "int" and e[2][0] == "num":
                a, aty = f"({a} : Int)", "int"
            if op == "+" and aty == "int" and bty == "int":
                return f"({a} + {b})", "int"
            if op in ("==", "!=", "<", "<=", ">", ">=") and aty == "int" and bty == "int":
                lop = {"==": "=", "!=": "≠", "<": "<", "<=": "≤", ">": ">", ">=": "≥"}[op]
                return f"({a} {lop} {b})", "bool"
            if op == "-":
                if aty == "cptr" and bty == "nat":
                    return f"(psub {a} {b})", "cptr"
                self.refuse(f"`-` on {aty} and {bty}")
            if op in ("+", "*", "|"):
                if aty == "nat" and bty == "nat":
                    lop = {"+": "+", "*": "*", "|": "|||"}[op]
                    return f"({a} {lop} {b})", "nat"
                if op == "+" and aty == "cptr" and bty == "nat":
                    return f"(padd {a} {b})", "cptr"
                self.refuse(f"`{op}` on {aty} and {bty}")
            if op in ("==", "!=", "<", "<=", ">", ">="):
                lop = {"==": "=", "!=": "≠", "<": "<", "<=": "≤", ">": ">", ">=": "≥"}[op]
                if aty == bty and (aty == "nat" or (aty in ("dptr", "objptr") and op in ("==", "!="))):
                    return f"({a} {lop} {b})", "bool"
                if aty == "cptr" and bty == "cptr" and op in ("<", "<=", ">", ">="):
                    return f"({a}.off {lop} {b}.off)", "bool"       # pointers into the same object
                self.refuse(f"`{op}` on {aty} and {bty}")
            self.refuse(f"operator `{op}`")
        if k == "not":
            a, aty = self.ev(e[1], env, out, ind)
            return f"(¬ {self.as_cond(a, aty)})", "bool"
        if k == "tern":
            # lazy; the branches must not store
            c, cty = self.ev(e[1], env, out, ind)
            res = []
            for br in (e[2], e[3]):
                sub = []
                t, ty = self.ev(br, env, sub, ind + "    ")
                if any(re.match(r"\s*let s\b", l) for l in sub):
                    self.refuse("a store inside a branch of `?:`")
                res.append((sub, t, ty))
            if res[0][2] != res[1][2]:
                self.refuse("`?:` with branches of different types")
            ty = res[0][2]
            if ty in ("obj", "objptr") and not res[0][0] and not res[1][0]:
                return f"(if {self.as_cond(c, cty)} then {res[0][1]} else {res[1][1]})", ty
            if ty != "nat":
                self.refuse(f"`?:` of type {ty}")
            r = self.fresh()
            out.append(f"{ind}let {r} ← (if {self.as_cond(c, cty)} then (do")
            out.extend(res[0][0])
            out.append(f"{ind}    pure {res[0][1]}) else (do")
            out.extend(res[1][0])
            out.append(f"{ind}    pure {res[1][1]}))")
            return r, "nat"
        if k == "assign":
            return self.assign(e, env, out, ind)
        if k == "call":
            return self.call(e[1], e[2], "this", env, out, ind)
        if k == "mcall":
            t, ty = self.ev(e[1], env, out, ind)
            if ty == "obj" and e[2] == "." and e[3] == "detach" and len(e[4]) == 2:
                return self.call(e[3], e[4], t, env, out, ind)
            if ty != "objptr" or e[2] != "->" or t != "this":
                self.refuse(f"member call `{e[3]}` on something that is not `this`")
            return self.call(e[3], e[4], t, env, out, ind)
        if k == "delete":
            t, ty = self.ev(e[1], env, out, ind)
            if ty != "dptr_as_chars":
                self.refuse("`delete[]` of something that is not `(char*)<Data*>`")
            out.append(f"{ind}let s ← deleteData s {t}")
            return "()", "void"
        if k == "new":
            self.refuse("`new` outside `X = (Data*)new char[n]; X->str = (char*)((byte*)X + sizeof(Data));`")
        self.refuse(f"expression `{k}`")

    def as_cond(self, t, ty):
        if ty == "bool":
            return t
        if ty == "nat":
            return f"({t} ≠ 0)"
        self.refuse(f"a {ty} used as a condition")

    def call(self, name, args, obj, env, out, ind):
        if name in ("Atomic::increment", "Atomic::decrement"):
            # the update goes through the Data* of the operand `<Data*>->ref`
            if not (len(args) == 1 and args[0][0] == "arrow" and args[0][2] == "ref"):
                self.refuse(f"`{name}` on something that is not `<Data*>->ref`")
            p, pty = self.ev(args[0][1], env, out, ind)
            if pty != "dptr":
                self.refuse(f"`{name}` on something that is not `<Data*>->ref`")
            if name == "Atomic::increment":
                out.append(f"{ind}let s ← atomicInc s {p}")
                return "()", "void"
            out.append(f"{ind}let s ← atomicDec s {p}")
            r = self.fresh()
            out.append(f"{ind}let {r} ← dRef s {p}")
            return r, "nat"
        if name == "vsnprintf":
            # vsnprintf(dst, size, format, ap): `out` = the text the format and its arguments produce (parameter of the function)
            if len(args) != 4 or args[2] != ("id", self.fmt) or args[3] != ("id", "ap") or self.fmt is None:
                self.refuse("this call of vsnprintf")
            if args[0] == ("num", 0):
                if args[1] != ("num", 0):
                    self.refuse("vsnprintf(0, n, …) with n != 0")
                return "(Int.ofNat out.length)", "int"
            d, dty = self.ev(args[0], env, out, ind)
            n, nty = self.ev(args[1], env, out, ind)
            if nty == "int":
                n, nty = f"(Int.toNat {n})", "nat"
            if dty != "cptr" or nty != "nat":
                self.refuse("this call of vsnprintf")
            out.append(f"{ind}let s ← vsnprintf s {d} {n} out")
            return "(Int.ofNat out.length)", "int"
        vals = [self.ev(a, env, out, ind) for a in args]
        vals = [(f"(Int.toNat {t})", "nat") if ty == "int" and name == "detach" else (t, ty) for t, ty in vals]   # int -> usize
        tys = [ty for _, ty in vals]
        if name == "detach" and tys == ["nat", "nat"]:
            if "detach" not in self.known:
                self.refuse("call of detach before its definition")
            out.append(f"{ind}let s ← detach s {obj} {vals[0][0]} {vals[1][0]}")
            return "()", "void"
        if name == "Memory::compare" and tys == ["cptr", "cptr", "nat"]:
            r = self.fresh()
            out.append(f"{ind}let {r} ← memCompare s {vals[0][0]} {vals[1][0]} {vals[2][0]}")
            return r, "int"
        if name == "Memory::copy" and tys == ["cptr", "cptr", "nat"]:
            out.append(f"{ind}let s ← memCopy s {vals[0][0]} {vals[1][0]} {vals[2][0]}")
            return "()", "void"
        self.refuse(f"call of `{name}` with ({', '.join(tys)})")

    def assign(self, e, env, out, ind):
        lhs, rhs = e[1], e[2]
        v, vty = self.ev(rhs, env, out, ind)
        if vty == "int" and lhs[0] == "arrow":             # int -> usize
            v, vty = f"(Int.toNat {v})", "nat"
        if lhs == ("id", "data"):
            if vty != "dptr":
                self.refuse(f"`data = <{vty}>`")
            out.append(f"{ind}let s := setData s this {v}")
            return v, vty
        if lhs[0] == "id" and lhs[1] in env and env[lhs[1]][1] in ("nat", "dptr", "cptr") and lhs[1] not in self.params:
            self.refuse(f"assignment to the local `{lhs[1]}` (locals are single-assignment in the subset)")
        if lhs[0] == "arrow" and lhs[2] == "str":
            p, pty = self.ev(lhs[1], env, out, ind)
            if pty != "dptr" or vty != "cptr":
                self.refuse("this store to `->str`")
            out.append(f"{ind}let s ← setStr s {p} {v}")
            return v, vty
        if lhs[0] == "arrow":
            p, pty = self.ev(lhs[1], env, out, ind)
            st = {"len": "setLen", "capacity": "setCap", "ref": "setRef"}.get(lhs[2])
            if pty != "dptr" or st is None or vty != "nat":
                self.refuse(f"store `->{lhs[2]} = <{vty}>`")
            out.append(f"{ind}let s ← {st} s {p} {v}")
            return v, vty
        if lhs[0] == "deref":
            p, pty = self.ev(lhs[1], env, out, ind)
            if pty != "cptr" or vty != "nat":
                self.refuse("this store through `*`")
            out.append(f"{ind}let s ← storeChar s {p} 0 {v}")
            return v, vty
        if lhs[0] == "index":
            p, pty = self.ev(lhs[1], env, out, ind)
            i, ity = self.ev(lhs[2], env, out, ind)
            if pty != "cptr" or ity != "nat" or vty != "nat":
                self.refuse("this store through a subscript")
            out.append(f"{ind}let s ← storeChar s {p} {i} {v}")
            return v, vty
        self.refuse("this assignment")

    # ---- conditions with short circuit: kthen / kelse : (env, ind) -> lines
    def cond(self, c, env, ind, kthen, kelse):
        if c[0] == "not":
            return self.cond(c[1], env, ind, kelse, kthen)
        if c[0] == "bin" and c[1] == "&&":
            return self.cond(c[2], env, ind, lambda env2, ind2: self.cond(c[3], env2, ind2, kthen, kelse), kelse)
        if c[0] == "bin" and c[1] == "||":
            return self.cond(c[2], env, ind, kthen, lambda env2, ind2: self.cond(c[3], env2, ind2, kthen, kelse))
        out = []
        t, ty = self.ev(c, env, out, ind)
        return out + [f"{ind}if {self.as_cond(t, ty)} then"] + kthen(env, ind + "  ") + [f"{ind}else"] + kelse(env, ind + "  ")

    # ---- statements; `rest` follows (both branches of an `if` continue with it)
    def is_alloc(self, s):
        """`X = (Data*)new char[n];` / `Data* X = (Data*)new char[n];` (a store `X->str = (char*)((byte*)X + sizeof(Data))` must
        follow somewhere: counted in the generated text)"""
        if s[0] == "decl" and s[1] == "dptr":
            target, init = ("id", s[2]), s[3]
        elif s[0] == "expr" and s[1][0] == "assign" and s[1][1] == ("id", "data"):
            target, init = ("id", "data"), s[1][2]
        else:
            return None
        if not (init[0] == "cast" and init[1] == "Data*" and init[2][0] == "new"):
            return None
        return target, init[2][1]

    # ---- helper functions of the class (not in the table): inlined at statement level
    PRIMS = {("detach", 2), ("Memory::copy", 3), ("Memory::compare", 3), ("Atomic::increment", 1), ("Atomic::decrement", 1), ("vsnprintf", 4)}

    def helper_call(self, e):
        return e is not None and e[0] == "call" and (e[1], len(e[2])) not in self.PRIMS and "::" not in e[1] and e[1] != "String"

    def rename(self, x, names, suf):
        if isinstance(x, tuple):
            if x and x[0] == "id" and x[1] in names:
                return ("id", x[1] + suf)
            if x and x[0] in ("decl",) and x[2] in names:
                return ("decl", x[1], x[2] + suf, self.rename(x[3], names, suf))
            return tuple(self.rename(y, names, suf) for y in x)
        if isinstance(x, list):
            return [self.rename(y, names, suf) for y in x]
        return x

    def has_return(self, x):
        if isinstance(x, (tuple, list)):
            if isinstance(x, tuple) and x and x[0] == "return":
                return True
            return any(self.has_return(y) for y in x)
        return False

    def inline(self, call):
        """(statements, return expression or None) of the helper called by `call`, parameters bound as fresh locals"""
        self.depth += 1
        if self.depth > 12:
            self.refuse("helper calls nested too deeply")
        name, args = call[1], call[2]
        params, stmts, rty = find_helper(self.src, name, len(args), self.fn)
        rete = None
        if stmts and stmts[-1][0] == "return":
            rete = stmts[-1][1]
            stmts = stmts[:-1]
        if self.has_return(stmts):
            self.refuse(f"helper `{name}` with a `return` that is not its last statement")
        if (rete is None) != (rty == "void"):
            self.refuse(f"helper `{name}`: return type and return statement disagree")
        names = {n for n, _ in params}
        def locals_of(x):
            if isinstance(x, tuple) and x and x[0] in ("decl", "declvar", "declobj", "declref"):
                self.refuse(f"helper `{name}` with this declaration") if x[0] != "decl" else names.add(x[2])
            if isinstance(x, (tuple, list)):
                for y in x:
                    locals_of(y)
        locals_of(stmts)
        self.k_inl += 1
        suf = f"__{self.k_inl}"
        out = [("decl", ty, n + suf, a) for (n, ty), a in zip(params, args)]
        out += self.rename(stmts, names, suf)
        return out, (self.rename(rete, names, suf) if rete is not None else None)

    def leave(self, env, ind, objs, value=None):
        out = []
        for slot in reversed(objs):
            if "dtor" not in self.known:
                self.refuse("local String before the destructor is translated")
            out.append(f"{ind}let s ← dtor s {slot}")
            out.append(f"{ind}let s := endLife s {slot}")
        return out + [f"{ind}pure s" if value is None else f"{ind}pure (s, {value})"]

    def run(self, stmts, env, ind, objs, ret):
        if not stmts:
            if ret != "void" and ret != "ctor":
                self.refuse("control reaches the end of a function that returns a value")
            return self.leave(env, ind, objs)
        s, rest = stmts[0], stmts[1:]
        k = s[0]
        if k == "block":
            return self.run(list(s[1]) + rest, env, ind, objs, ret)
        # helper calls: `f(..);`  `return f(..);`  `X = f(..);`  `T x = f(..);`
        if k == "expr" and self.helper_call(s[1]):
            st, _ = self.inline(s[1])
            return self.run(st + rest, env, ind, objs, ret)
        if k == "return" and self.helper_call(s[1]):
            st, e = self.inline(s[1])
            return self.run(st + [("return", e)] + rest, env, ind, objs, ret)
        if k == "expr" and s[1][0] == "assign" and self.helper_call(s[1][2]):
            st, e = self.inline(s[1][2])
            return self.run(st + [("expr", ("assign", s[1][1], e))] + rest, env, ind, objs, ret)
        if k == "decl" and self.helper_call(s[3]):
            st, e = self.inline(s[3])
            return self.run(st + [("decl", s[1], s[2], e)] + rest, env, ind, objs, ret)
        al = self.is_alloc(s)
        if al is not None:
            target, size = al
            out = []
            n, nty = self.ev(size, env, out, ind)
            if nty != "nat":
                self.refuse("size of `new char[…]`")
            p = self.fresh()
            out.append(f"{ind}let {p} := Loc.blk s.next")
            out.append(f"{ind}let s ← newData s {n}")
            env2 = dict(env)
            if target == ("id", "data"):
                out.append(f"{ind}let s := setData s this {p}")
            else:
                if target[1] in env:
                    self.refuse(f"`{target[1]}` declared twice")
                env2[target[1]] = (p, "dptr")
            return out + self.run(rest, env2, ind, objs, ret)
        if k == "decl":
            cty, name, e = s[1], s[2], s[3]
            if name in env or name in ("data", "this"):
                self.refuse(f"`{name}` declared twice / shadows a member")
            out = []
            t, ty = self.ev(e, env, out, ind)
            if ty != cty:
                self.refuse(f"`{name}` of type {cty} initialised with a {ty}")
            v = self.fresh()
            out.append(f"{ind}let {v} := {t}")
            env2 = dict(env)
            env2[name] = (v, ty)
            return out + self.run(rest, env2, ind, objs, ret)
        if k == "for":
            init, c, step, body = s[1], s[2], s[3], s[4]
            if self.loopdef is not None and False:
                self.refuse("nested loops")
            return self.run([init, ("loop", c, step, body)] + rest, env, ind, objs, ret)
        if k == "loop":
            if objs:
                self.refuse("a loop while a local String is alive")
            c, step, body = s[1], s[2], s[3]
            self.nloops += 1
            name = f"{self.lean}_loop{self.nloops}"
            keys = [x for x in env if not env[x][1].startswith("unset:")]
            sig = "".join(f" ({env[x][0]} : {LEAN_TY2[env[x][1]]})" for x in keys)
            back = ("loopback", name, keys)
            lines = self.cond(c, env, "    ",
                              lambda env2, ind2: self.run([body] + list(step) + [back], env2, ind2, objs, ret),
                              lambda env2, ind2: self.run(rest, env2, ind2, objs, ret))
            self.aux.append([f"/-- loop {self.nloops} of `{self.fn}` (with everything behind it); running out of `fuel` is a fault -/",
                             f"def {name} (fuel : Nat) (s : St) (this : Nat){sig} : {self.rty} :=",
                             "  match fuel with", "  | 0 => none", "  | fuel + 1 => do"] + lines + [""])
            self.uses_fuel = True
            return [f"{ind}{name} fuel s this" + "".join(f" {env[x][0]}" for x in keys)]
        if k == "loopback":
            return [f"{ind}{s[1]} fuel s this" + "".join(f" {env[x][0]}" for x in s[2])]
        if k == "expr" and s[1][0] == "preinc":
            x = s[1][1][1]
            if x not in env or env[x][1] not in ("cptr", "nat") or x in self.params:
                self.refuse(f"`++{x}`")
            v = self.fresh()
            ty = env[x][1]
            out = [f"{ind}let {v} := " + (f"padd {env[x][0]} 1" if ty == "cptr" else f"{env[x][0]} + 1")]
            env2 = dict(env)
            env2[x] = (v, ty)
            return out + self.run(rest, env2, ind, objs, ret)
        if k == "declvar":
            if s[2] in env:
                self.refuse(f"`{s[2]}` declared twice")
            env2 = dict(env)
            env2[s[2]] = (None, "unset:" + s[1])
            return self.run(rest, env2, ind, objs, ret)
        if k == "expr" and s[1][0] == "assign" and s[1][1][0] == "id" and s[1][1][1] in env \
                and (env[s[1][1][1]][1] == "int" or env[s[1][1][1]][1] == "unset:int"):
            out = []
            t, ty = self.ev(s[1][2], env, out, ind)
            if ty != "int":
                self.refuse(f"`{s[1][1][1]} = <{ty}>`")
            v = self.fresh()
            out.append(f"{ind}let {v} := {t}")
            env2 = dict(env)
            env2[s[1][1][1]] = (v, "int")
            return out + self.run(rest, env2, ind, objs, ret)
        if k == "declobj":
            name, e = s[1], s[2]
            if name in env:
                self.refuse(f"`{name}` declared twice")
            out = []
            t, ty = self.ev(e, env, out, ind)
            if ty not in ("obj", "nat"):
                self.refuse("`String x(…)` with something else than a String or a capacity")
            ctor = "ctorCopy" if ty == "obj" else "ctorCap"
            if ctor not in self.known:
                self.refuse("local String before its constructor is translated")
            self.tmps = max(self.tmps, len(objs) + 1)
            slot = f"tmp{len(objs) + 1}"
            out.append(f"{ind}let s ← {ctor} s {slot} {t}")
            env2 = dict(env)
            env2[name] = (slot, "obj")
            return out + self.run(rest, env2, ind, objs + [slot], ret)
        if k == "declref":
            name, e = s[1], s[2]
            if name in env:
                self.refuse(f"`{name}` declared twice")
            out = []
            t, ty = self.ev(e, env, out, ind)
            if ty != "obj":
                self.refuse("`const String& x = …` bound to something else than a String")
            v = self.fresh()
            out.append(f"{ind}let {v} := {t}")
            env2 = dict(env)
            env2[name] = (v, "obj")
            return out + self.run(rest, env2, ind, objs, ret)
        if k == "if":
            return self.cond(s[1], env, ind,
                             lambda env2, ind2: self.run([s[2]] + rest, env2, ind2, objs, ret),
                             lambda env2, ind2: self.run([s[3]] + rest, env2, ind2, objs, ret))
        if k == "return":
            e = s[1]
            if ret == "factory":
                # the returned String is built in the first temporary slot (no copy: the local IS the return value)
                if e is not None and e[0] == "id" and e[1] in env and env[e[1]] == ("tmp1", "obj") and objs == ["tmp1"]:
                    return [f"{ind}pure s"]
                if e == ("call", "String", []) and objs == ["tmp1"]:
                    return [f"{ind}let s ← dtor s tmp1", f"{ind}let s := endLife s tmp1", f"{ind}pure s"]
                self.refuse("this return value")
            if ret == "ptr":
                if e == ("num", 0):
                    return [f"{ind}pure none"]
                out = []
                t, ty = self.ev(e, env, out, ind)
                if ty != "cptr" or objs:
                    self.refuse("this return value")
                return out + [f"{ind}pure (some {t})"]
            if ret == "bool" and e is not None and e[0] == "bin" and e[1] in ("&&", "||"):
                a, b = ("return", e[2]), ("return", e[3])
                st = ("if", e[2], ("return", e[3]), ("return", ("boollit", False))) if e[1] == "&&" else \
                     ("if", e[2], ("return", ("boollit", True)), ("return", e[3]))
                return self.run([st], env, ind, objs, ret)
            if ret in ("nat", "bool"):
                out = []
                t, ty = self.ev(e, env, out, ind) if e is not None else (None, None)
                if ty != ret or objs:
                    self.refuse("this return value")
                return out + [f"{ind}pure {t}" if ret == "nat" else f"{ind}pure (decide {t})"]
            if ret == "int":
                out = []
                t, ty = self.ev(e, env, out, ind) if e is not None else (None, None)
                if ty != "int":
                    self.refuse("this return value")
                return out + self.leave(env, ind, objs, t)
            ok = {"void": [None], "ctor": [None], "self": [("deref", ("this",))],
                  "cstr": [("arrow", ("id", "data"), "str"), ("cast", "char*", ("arrow", ("id", "data"), "str")),
                           ("cast", "constchar*", ("arrow", ("id", "data"), "str"))]}[ret]
            if e not in ok:
                self.refuse("this return value")
            return self.leave(env, ind, objs)
        if k == "expr":
            out = []
            e = s[1]
            if e[0] not in ("assign", "call", "mcall", "delete"):
                self.refuse(f"expression statement `{e[0]}` without effect")
            self.ev(e, env, out, ind)
            return out + self.run(rest, env, ind, objs, ret)
        self.refuse(f"statement `{k}`")


def find_helper(src, name, nargs, fn):
    """a member function of String.hpp that is not in the table: (params, statements, return type)"""
    found = []
    for m in re.finditer(r"(?:static\s+)?((?:const\s+)?(?:void|usize|bool|Data\s*\*|char\s*\*))\s*" + re.escape(name) +
                         r"\s*\(([^)]*)\)\s*(?:const\s*)?\{", src):
        plist = [p.strip() for p in m.group(2).split(",") if p.strip()]
        if len(plist) != nargs:
            continue
        params = []
        for prm in plist:
            mm = re.fullmatch(r"(?:const\s+)?(usize|char\s*\*|Data\s*\*)\s*(?:const\s+)?(\w+)", prm)
            if not mm:
                raise Untranslatable(f"{fn}: helper `{name}`: parameter `{prm}`")
            params.append((mm.group(2), {"usize": "nat"}.get(mm.group(1), "cptr" if "char" in mm.group(1) else "dptr")))
        end = balanced(src, m.end() - 1)
        found.append((params, src[m.end():end - 1], re.sub(r"\s+", "", m.group(1))))
    if len(found) != 1:
        raise Untranslatable(f"{fn}: call of `{name}` with {nargs} argument(s): {len(found)} definitions found in String.hpp")
    params, body, rty = found[0]
    p = BP(btokenize(body, name), name)
    stmts = p.stmts()
    if p.peek() is not None:
        raise Untranslatable(f"{name}: trailing tokens")
    return params, stmts, rty


P_STR = r"const\s+String\s*&\s*(\w+)"
BODY_FUNCS = [
    # lean name, signature regex (groups = parameter names), parameter types, kind of return value, C++ name
    ("dtor", r"~\s*String\s*\(\s*\)", [], "void", "~String()"),
    ("detach", r"void\s+detach\s*\(\s*usize\s+(\w+)\s*,\s*usize\s+(\w+)\s*\)", ["nat", "nat"], "void", "detach(usize, usize)"),
    ("ctorCopy", r"(?<![~\w])String\s*\(\s*" + P_STR + r"\s*\)", ["obj"], "ctor", "String(const String&)"),
    ("ctorEmpty", r"(?<![~\w:])String\s*\(\s*\)", [], "ctor", "String()"),
    ("ctorPtr", r"(?<![~\w])String\s*\(\s*const\s+char\s*\*\s*(\w+)\s*,\s*usize\s+(\w+)\s*\)", ["cptr", "nat"], "ctor", "String(const char*, usize)"),
    ("ctorCap", r"explicit\s+String\s*\(\s*usize\s+(\w+)\s*\)", ["nat"], "ctor", "explicit String(usize)"),
    ("assign", r"String\s*&\s*operator\s*=\s*\(\s*" + P_STR + r"\s*\)", ["obj"], "self", "operator=(const String&)"),
    ("cviewConst", r"operator\s+const\s+char\s*\*\s*\(\s*\)\s*const", [], "cstr", "operator const char*() const"),
    ("cview", r"operator\s+const\s+char\s*\*\s*\(\s*\)(?!\s*const)", [], "cstr", "operator const char*()"),
    ("mview", r"operator\s+char\s*\*\s*\(\s*\)", [], "cstr", "operator char*()"),
    ("detach0", r"void\s+detach\s*\(\s*\)", [], "void", "detach()"),
    ("resize", r"void\s+resize\s*\(\s*usize\s+(\w+)\s*\)", ["nat"], "void", "resize(usize)"),
    ("reserve", r"void\s+reserve\s*\(\s*usize\s+(\w+)\s*\)", ["nat"], "void", "reserve(usize)"),
    ("clear", r"void\s+clear\s*\(\s*\)", [], "void", "clear()"),
    ("capacity", r"usize\s+capacity\s*\(\s*\)\s*const", [], "nat", "capacity()"),
    ("isEmpty", r"bool\s+isEmpty\s*\(\s*\)\s*const", [], "bool", "isEmpty()"),
    ("equalS", r"bool\s+operator\s*==\s*\(\s*" + P_STR + r"\s*\)\s*const", ["obj"], "bool", "operator==(const String&)"),
    ("notEqualS", r"bool\s+operator\s*!=\s*\(\s*" + P_STR + r"\s*\)\s*const", ["obj"], "bool", "operator!=(const String&)"),
    ("startsWith", r"bool\s+startsWith\s*\(\s*" + P_STR + r"\s*\)\s*const", ["obj"], "bool", "startsWith(const String&)"),
    ("endsWith", r"bool\s+endsWith\s*\(\s*" + P_STR + r"\s*\)\s*const", ["obj"], "bool", "endsWith(const String&)"),
    ("findC", r"const\s+char\s*\*\s*find\s*\(\s*char\s+(\w+)\s*\)\s*const", ["nat"], "ptr", "find(char)"),
    ("appendS", r"String\s*&\s*append\s*\(\s*" + P_STR + r"\s*\)", ["obj"], "self", "append(const String&)"),
    ("appendP", r"String\s*&\s*append\s*\(\s*const\s+char\s*\*\s*(\w+)\s*,\s*usize\s+(\w+)\s*\)", ["cptr", "nat"], "self", "append(const char*, usize)"),
    ("appendC", r"String\s*&\s*append\s*\(\s*(?:const\s+)?char\s+(\w+)\s*\)", ["nat"], "self", "append(char)"),
    ("prependS", r"String\s*&\s*prepend\s*\(\s*" + P_STR + r"\s*\)", ["obj"], "self", "prepend(const String&)"),
    ("prependP", r"String\s*&\s*prepend\s*\(\s*const\s+char\s*\*\s*(\w+)\s*,\s*usize\s+(\w+)\s*\)", ["cptr", "nat"], "self", "prepend(const char*, usize)"),
]
CPP_FUNCS = [
    ("fromPrintf", r"String\s+String::fromPrintf\s*\(\s*const\s+char\s*\*\s*(\w+)\s*,\s*\.\.\.\s*\)", ["fmt"], "factory", "String::fromPrintf(const char*, ...)"),
    ("printf", r"int\s+String::printf\s*\(\s*const\s+char\s*\*\s*(\w+)\s*,\s*\.\.\.\s*\)", ["fmt"], "int", "String::printf(const char*, ...)"),
]
LEAN_TY = {"nat": "Nat", "obj": "Nat", "cptr": "CPtr", "fmt": "List Nat"}
LEAN_TY2 = {"nat": "Nat", "obj": "Nat", "cptr": "CPtr", "fmt": "List Nat", "dptr": "Loc", "int": "Int", "objptr": "Nat"}


def generate_body(repo):
    hpp = strip_comments((Path(repo) / "include/nstd/String.hpp").read_text())
    parts = ["/- generated by tools/gen_str.py from include/nstd/String.hpp — do not edit -/", "import Nstd.Str.Mach", "",
             "set_option linter.unusedVariables false", "", "namespace Nstd.Str.Generated.Body", "open Nstd.Str Nstd.Str.Mach", ""]
    cpp = strip_comments((Path(repo) / "src/String.cpp").read_text())
    known, summary = [], []
    for lean, rx, ptys, ret, cname in BODY_FUNCS + CPP_FUNCS:
        body, names = extract_body(cpp if (lean, rx, ptys, ret, cname) in CPP_FUNCS else hpp, cname, rx)
        p = BP(btokenize(body, cname), cname)
        stmts = p.stmts()
        if p.peek() is not None:
            raise Untranslatable(f"{cname}: trailing tokens")
        if len(set(names)) != len(names) or any(n in ("data", "this", "s") for n in names):
            raise Untranslatable(f"{cname}: parameter names {names}")
        params = {n: (("out" if ty == "fmt" else f"p_{n}"), ty) for n, ty in zip(names, ptys)}
        rty = {"int": "Option (St × Int)", "nat": "Option Nat", "bool": "Option Bool", "ptr": "Option (Option CPtr)"}.get(ret, "Option St")
        tr = BT(cname, params, known)
        tr.src, tr.lean, tr.rty = hpp, lean, rty
        lines = tr.run(stmts, dict(params), "  ", [], ret)
        if sum("← newData " in l for l in lines) != sum("← setStr " in l for l in lines):
            raise Untranslatable(f"{cname}: a `new` without `X->str = (char*)((byte*)X + sizeof(Data))` (or the reverse)")
        sig = "(s : St) (this : Nat)" + "".join((" (out : List Nat)" if ty == "fmt" else f" (p_{n} : {LEAN_TY[ty]})") for n, ty in zip(names, ptys))
        sig += "".join(f" (tmp{i + 1} : Nat)" for i in range(tr.tmps))
        for a in tr.aux:
            parts += a
        if tr.uses_fuel:
            sig = "(fuel : Nat) " + sig
        parts += [f"/-- `{cname}` -/", f"def {lean} {sig} : {rty} := do"] + lines + [""]
        known.append(lean)
        summary.append(f"{lean}:{len(stmts)}")
    parts += ["end Nstd.Str.Generated.Body", ""]
    return "\n".join(parts), " ".join(summary)



def run(repo=None):
    """returns (ok, message); writes the generated file only when its content changed"""
    if repo is None:
        import common
        repo = common.REPO
    try:
        text = generate(repo)
        body, summary = generate_body(repo)
    except (Untranslatable, OSError, IndexError, KeyError) as ex:
        return False, f"gen_str: {ex!r}" if not isinstance(ex, Untranslatable) else f"gen_str: {ex}"
    OUT.parent.mkdir(parents=True, exist_ok=True)
    if not OUT.exists() or OUT.read_text() != text:
        OUT.write_text(text)
    if not BODY_OUT.exists() or BODY_OUT.read_text() != body:
        BODY_OUT.write_text(body)
    return True, hashlib.sha1((text + body).encode()).hexdigest()[:12] + " bodies " + summary


def gen(ctx):
    ok, msg = run()
    if ok:
        ctx.notes.append(f"translator: Nstd/Generated/StrTables.lean and StrBody.lean regenerated from the current sources (sha1 {msg})")
    return ok, msg


if __name__ == "__main__":
    sys.path.insert(0, str(VERIF / "tools"))
    ok, msg = run(sys.argv[1] if len(sys.argv) > 1 else None)
    print(("ok " if ok else "FAILED ") + msg)
    sys.exit(0 if ok else 1)
