#!/usr/bin/env python3
"""Common machinery of the libnstd verification checks (see DESIGN.md section 2).

A check = (1) proof stage: regenerate translated tables, `lake build` the area's Props
modules, audit axioms / forbidden tokens;  (2) correspondence stage: the C++ harness built
from the *current* /repo sources and the compiled Lean model driver execute the same op
lines, their observation streams are compared, and an independent Python reference (the
property's oracle) is evaluated on the implementation's stream;  (3) verdict + evidence.
"""
import concurrent.futures as cf
import hashlib
import json
import os
import random
import re
import shutil
import subprocess
import sys
import time
from pathlib import Path

VERIF = Path(__file__).resolve().parents[1]
REPO = Path(os.environ.get("NSTD_REPO", "/repo"))
LEAN = VERIF / "lean"
BUILD = Path(os.environ.get("NSTD_BUILD", str(VERIF / ".build")))
EVIDENCE = VERIF / "evidence"
REPLAYS = VERIF / "replays"
CORPUS = VERIF / "corpus"
NCPU = min(16, os.cpu_count() or 4)

ALLOWED_AXIOMS = {"propext", "Classical.choice", "Quot.sound"}
FORBIDDEN = [r"\bsorry\b", r"\badmit\b", r"^\s*axiom\s", r"\bnative_decide\b", r"\bbv_decide\b",
             r"\bimplemented_by\b", r"\bunsafe\s", r"maxHeartbeats\s+0\b", r"\bextern\s"]

CXX = os.environ.get("CXX", "g++")
CXXFLAGS = ["-std=gnu++11", "-O1", "-g", "-fsanitize=address,undefined", "-fno-sanitize-recover=all",
            "-fno-omit-frame-pointer", "-DNSTD_VERIF"]


def sh(cmd, cwd=None, timeout=None, env=None, input=None):
    e = dict(os.environ)
    if env:
        e.update(env)
    p = subprocess.run(cmd, cwd=cwd, timeout=timeout, env=e, input=input,
                       stdout=subprocess.PIPE, stderr=subprocess.STDOUT, text=True, errors="replace")
    return p.returncode, p.stdout


class Ctx:
    def __init__(self, prop, tier, seed, keep_replays=False):
        self.prop = prop
        self.keep_replays = keep_replays
        self.tier = tier
        self.seed = seed
        self.t0 = time.time()
        self.rng = random.Random(seed * 1000003 + int(re.sub(r"\D", "", prop) or 0))
        self.violations = []      # dicts: {what, replay, no_input}
        self.known_hits = []      # strings
        self.cov = {"obligations": 0, "discharged": 0, "checker_cmd": "", "trusted_base": [],
                    "evaluations": 0, "distinct_nontrivial": 0, "rule": "", "samples": [],
                    "traces_validated_against_impl": 0, "theorems": [], "open_statements": []}
        self.assumptions = []
        self.notes = []
        self.broken = []          # names of theorems / correspondence streams that no longer check
        self.level = "proof"
        BUILD.mkdir(parents=True, exist_ok=True)
        if REPLAYS.exists() and not keep_replays:
            for f in REPLAYS.glob(f"{prop}-*.txt"):
                f.unlink()

    def log(self, msg):
        print(f"[{self.prop} {time.time() - self.t0:6.1f}s] {msg}", flush=True)

    # ---- verdicts --------------------------------------------------------------------------
    def violation(self, what, replay_text, no_input=False, signature=None):
        """Record a violation; the replay file is written under replays/."""
        REPLAYS.mkdir(exist_ok=True)
        h = hashlib.sha1(replay_text.encode()).hexdigest()[:10]
        path = REPLAYS / f"{self.prop}-{h}.txt"
        kf = match_known(self.prop, signature, replay_text)
        if kf is not None and not no_input:
            line = f"KNOWN-FINDING: property={self.prop} {kf['id']} {kf['what']}"
            if line not in self.known_hits:
                self.known_hits.append(line)
            return None
        path.write_text(f"# property={self.prop} seed={self.seed} tier={self.tier}\n# {what}\n" + replay_text)
        self.violations.append({"what": what, "replay": str(path), "no_input": no_input})
        return path

    def finish(self):
        wall = time.time() - self.t0
        EVIDENCE.mkdir(exist_ok=True)
        cov = dict(self.cov)
        cov["samples"] = cov["samples"][:8] or ["(none: the run ended before any case was explored)"]
        cov["known_findings_reported"] = list(self.known_hits)
        cov["broken"] = list(self.broken)
        ev = {"property_id": self.prop, "tier": self.tier, "seed": self.seed, "level": self.level,
              "coverage": cov, "assumptions": self.assumptions, "wall_s": round(wall, 2),
              "violations": len(self.violations), "notes": self.notes}
        if not self.keep_replays:      # a --replay run does not describe a check run: keep the evidence
            (EVIDENCE / f"{self.prop}.json").write_text(json.dumps(ev, indent=1) + "\n")
        for k in self.known_hits:
            print(k)
        for v in self.violations:
            tail = " no-failing-input-found" if v["no_input"] else ""
            print(f"VIOLATION property={self.prop} replay={v['replay']}{tail}")
        if not self.violations:
            print(f"OK property={self.prop} tier={self.tier} seed={self.seed} obligations={cov['discharged']}/"
                  f"{cov['obligations']} evaluations={cov['evaluations']} wall={wall:.1f}s")
        return 1 if self.violations else 0


# ---- known findings ------------------------------------------------------------------------
def load_known():
    p = VERIF / "known_findings.json"
    if not p.exists():
        return []
    return json.loads(p.read_text()).get("findings", [])


def match_known(prop, signature, replay_text):
    for kf in load_known():
        if kf.get("property") != prop or kf.get("status", "open") != "open":
            continue
        if signature is not None and kf.get("signature") == signature:
            return kf
        rx = kf.get("replay_regex")
        if rx and re.search(rx, replay_text, re.S):
            return kf
    return None


# ---- Lean side -----------------------------------------------------------------------------
def strip_comments(src):
    """remove Lean comments (nested block comments and line comments); keeps string literals intact enough"""
    out = []
    i, n, depth = 0, len(src), 0
    while i < n:
        if src.startswith("/-", i):
            depth += 1
            i += 2
        elif depth and src.startswith("-/", i):
            depth -= 1
            i += 2
        elif depth:
            if src[i] == "\n":
                out.append("\n")
            i += 1
        elif src.startswith("--", i):
            while i < n and src[i] != "\n":
                i += 1
        else:
            out.append(src[i])
            i += 1
    return "".join(out)


def theorems_in(path):
    """fully qualified names of the theorems stated in a Lean file (namespace-aware)"""
    src = strip_comments(Path(path).read_text())
    ns, names = [], []
    for line in src.splitlines():
        m = re.match(r"\s*namespace\s+(\S+)", line)
        if m:
            ns.append(m.group(1))
            continue
        m = re.match(r"\s*end\s+(\S+)\s*$", line)
        if m and ns and ns[-1] == m.group(1):
            ns.pop()
            continue
        m = re.match(r"\s*(?:@\[[^\]]*\]\s*)?(?:protected\s+|private\s+)?theorem\s+([^\s:({\[]+)", line)
        if m:
            names.append(".".join(ns + [m.group(1)]))
    return names


def forbidden_scan(files):
    hits = []
    for f in files:
        src = strip_comments(Path(f).read_text())
        for ln, line in enumerate(src.splitlines(), 1):
            for rx in FORBIDDEN:
                if re.search(rx, line):
                    hits.append(f"{f}:{ln}: {line.strip()}")
    return hits


def lake_build(targets, timeout=3000):
    rc, out = sh(["lake", "build"] + list(targets), cwd=LEAN, timeout=timeout)
    return rc == 0, out


def module_file(mod):
    return LEAN / (mod.replace(".", "/") + ".lean")


def module_closure(mods):
    """project-local import closure of the given modules"""
    seen, todo = [], list(mods)
    while todo:
        m = todo.pop()
        if m in seen:
            continue
        f = module_file(m)
        if not f.exists():
            continue
        seen.append(m)
        for line in f.read_text().splitlines():
            mm = re.match(r"\s*import\s+(Nstd\.\S+)", line)
            if mm:
                todo.append(mm.group(1))
    return seen


def proof_stage(ctx, props_modules, exes, extra_modules=(), gen=None, leanchecker=None):
    """Build + audit.  Returns True iff every obligation is discharged."""
    if gen is not None:
        ok, msg = gen(ctx)
        if not ok:
            ctx.broken.append(f"translator: {msg}")
            ctx.log(f"translator failed: {msg}")
    mods = list(props_modules) + list(extra_modules)
    thms = []
    for m in props_modules:
        thms += theorems_in(module_file(m))
    ctx.cov["obligations"] = len(thms)
    ctx.cov["theorems"] = thms
    ctx.cov["checker_cmd"] = (f"cd lean && lake build {' '.join(mods + list(exes))} && "
                              f"lake env lean <generated #print axioms file>"
                              + (" && lake env leanchecker <Props module>" if leanchecker else ""))
    ctx.cov["trusted_base"] = [
        "Lean 4.33.0 kernel; axioms allowed in property theorems: propext, Classical.choice, Quot.sound (audited per theorem on every run)",
        "no sorry/admit/own axiom/native_decide/bv_decide/implemented_by (source scan on every run)",
        "hand-written Lean model of the C++ code, tied to /repo by the correspondence run of this check (C++ harness built from the current sources vs compiled model driver on identical op lines)",
        "Lean compiler + C toolchain for the compiled model driver (used in the correspondence only)",
        "g++ 12 / ASan / UBSan for the harness; the Python generators, reference oracles and comparators in tools/",
    ]
    t = time.time()
    ok, out = lake_build(mods + list(exes))
    ctx.log(f"lake build {' '.join(mods + list(exes))}: {'ok' if ok else 'FAILED'} ({time.time() - t:.1f}s)")
    if not ok:
        errs = [l for l in out.splitlines() if "error" in l][:20]
        ctx.broken.append("lake build failed: " + " | ".join(errs)[:1500])
        ctx.cov["discharged"] = 0
        return False
    closure = module_closure(mods)
    files = [module_file(m) for m in closure]
    hits = forbidden_scan(files)
    if hits:
        ctx.broken.append("forbidden token(s): " + "; ".join(hits[:10]))
        ctx.cov["discharged"] = 0
        return False
    # axiom audit
    audit = BUILD / f"Audit_{ctx.prop}.lean"
    audit.write_text("".join(f"import {m}\n" for m in props_modules) +
                     "".join(f"#print axioms {n}\n" for n in thms))
    rc, out = sh(["lake", "env", "lean", str(audit)], cwd=LEAN, timeout=1200)
    bad, seen = [], 0
    for m in re.finditer(r"(?m)^'(\S+)' (does not depend on any axioms|depends on axioms: \[([^\]]*)\])", out):
        seen += 1
        axs = [a.strip() for a in (m.group(3) or "").replace("\n", " ").split(",") if a.strip()]
        extra = [a for a in axs if a not in ALLOWED_AXIOMS]
        if extra:
            bad.append(f"{m.group(1)}: {extra}")
    if rc != 0 or seen != len(thms) or bad:
        ctx.broken.append(f"axiom audit: rc={rc} seen={seen}/{len(thms)} bad={bad[:5]} {out[-400:] if rc else ''}")
        ctx.cov["discharged"] = max(0, seen - len(bad)) if rc == 0 else 0
        return False
    ctx.cov["discharged"] = len(thms)
    ctx.cov["axioms_used"] = sorted(set(re.findall(r"(propext|Classical\.choice|Quot\.sound)", out)))
    if leanchecker:
        for m in props_modules:
            t = time.time()
            rc, o = sh(["lake", "env", "leanchecker", m], cwd=LEAN, timeout=3000)
            ctx.log(f"leanchecker {m}: rc={rc} ({time.time() - t:.1f}s)")
            if rc != 0:
                ctx.broken.append(f"leanchecker {m} failed: {o[-300:]}")
                return False
        ctx.cov["leanchecker"] = "passed: " + " ".join(props_modules)
    return True


def driver_path(name):
    return LEAN / ".lake" / "build" / "bin" / name


# ---- C++ side ------------------------------------------------------------------------------
def build_harness(ctx, name, sources, extra_flags=(), libs=(), sanitize=True, std="gnu++11"):
    """compile harness/<name>.cpp (+ repo sources) from the CURRENT working tree of REPO"""
    out = BUILD / f"h_{name}_{os.getpid()}"
    flags = [f for f in CXXFLAGS if sanitize or not f.startswith("-fsanitize") and not f.startswith("-fno-sanitize")]
    flags = [("-std=" + std) if f.startswith("-std=") else f for f in flags]
    if os.environ.get("VERIF_IMPLCOV"):      # tools/implcov.py: which lines of the real code does the run execute?
        flags = flags + ["--coverage", "-fprofile-update=atomic", "-DVERIF_IMPLCOV"]
    cmd = [CXX] + flags + list(extra_flags) + [f"-I{REPO}/include", f"-I{VERIF}/harness"]
    cmd += [str(s) if str(s).startswith("/") else str(VERIF / "harness" / s) for s in sources]
    cmd += ["-o", str(out)] + list(libs)
    t = time.time()
    rc, o = sh(cmd, timeout=900)
    ctx.log(f"harness {name}: {'ok' if rc == 0 else 'FAILED'} ({time.time() - t:.1f}s)")
    if rc != 0:
        ctx.broken.append(f"harness {name} does not compile against the current sources: " + o[-1200:])
        return None
    return out


SAN_ENV = {"ASAN_OPTIONS": "detect_leaks=1:abort_on_error=0:exitcode=86:allocator_may_return_null=1",
           "UBSAN_OPTIONS": "print_stacktrace=1:halt_on_error=1:exitcode=87",
           "LSAN_OPTIONS": "exitcode=88"}


def run_lines(exe, lines, timeout=120, env=None, args=()):
    """feed op lines; returns (output lines, returncode, stderr tail).  Survives crashes/time-outs."""
    e = dict(os.environ)
    e.update(SAN_ENV)
    if env:
        e.update(env)
    data = "\n".join(lines) + "\n"
    try:
        p = subprocess.run([str(exe)] + list(args), input=data, env=e, timeout=timeout,
                           stdout=subprocess.PIPE, stderr=subprocess.PIPE, text=True, errors="replace")
        err = p.stderr
        k = err.find("ERROR:")
        if k < 0:
            k = err.find("runtime error")
        err = err[max(0, k - 200):k + 2500] if k >= 0 else err[-2500:]
        return p.stdout.splitlines(), p.returncode, err
    except subprocess.TimeoutExpired as ex:
        out = ex.stdout or b""
        if isinstance(out, bytes):
            out = out.decode(errors="replace")
        return out.splitlines(), -999, "TIMEOUT"


def flatten(histories):
    lines, starts = [], []
    for h in histories:
        starts.append(len(lines))
        lines.append("reset")
        lines.extend(h)
    return lines, starts


def split_outputs(out, histories):
    """cut a flat output stream back into per-history lists (the `reset` line's output is dropped)"""
    res, i = [], 0
    for h in histories:
        seg = out[i:i + 1 + len(h)]
        i += 1 + len(h)
        res.append(seg[1:] if seg else [])
    return res


def default_eq(a, b):
    return a == b


def wildcard_eq(impl, model):
    """token-wise comparison; in hex tokens the model's `??` byte matches anything"""
    if impl == model:
        return True
    ta, tb = impl.split(" "), model.split(" ")
    if len(ta) != len(tb):
        return False
    for x, y in zip(ta, tb):
        if x == y:
            continue
        if "??" in y and len(x) == len(y):
            if all(y[i:i + 2] == "??" or y[i:i + 2] == x[i:i + 2] for i in range(0, len(y), 2)):
                continue
        return False
    return True


class Diff:
    """first disagreement of one history"""
    def __init__(self, hist, idx, kind, impl, model, ref, stderr=""):
        self.hist, self.idx, self.kind = hist, idx, kind
        self.impl, self.model, self.ref, self.stderr = impl, model, ref, stderr

    def text(self):
        s = "\n".join(self.hist[:self.idx + 1]) + "\n"
        s += f"# first disagreement at op {self.idx + 1} ({self.kind})\n# impl : {self.impl}\n# model: {self.model}\n"
        if self.ref is not None:
            s += f"# ref  : {self.ref}\n"
        if self.stderr:
            s += "# stderr:\n" + "\n".join("#   " + l for l in self.stderr.splitlines()[-25:]) + "\n"
        return s


def compare_history(h, io, mo, ro, eq, rc_info="", ref_eq=None):
    """returns Diff or None.  io/mo/ro = impl/model/reference output lists (ro may be None)"""
    for k in range(len(h)):
        i = io[k] if k < len(io) else None
        m = mo[k] if k < len(mo) else None
        r = ro[k] if ro is not None and k < len(ro) else None
        if i is None:
            return Diff(h, k, "impl-crash", "<no output: crash/timeout> " + rc_info.splitlines()[0] if rc_info else "<no output>", m, r, rc_info)
        if ro is not None and r is not None and not (ref_eq or eq)(i, r):
            return Diff(h, k, "impl-vs-reference", i, m, r)
        if m is None or not eq(i, m):
            return Diff(h, k, "impl-vs-model", i, m, r)
    return None


def run_batch(harness, driver, histories, ref_fn, eq, timeout, harness_args=(), driver_args=()):
    ref_eq = getattr(ref_fn, "eq", None) if ref_fn else None
    lines, _ = flatten(histories)
    io, rc, err = run_lines(harness, lines, timeout=timeout, args=harness_args)
    mo, mrc, merr = run_lines(driver, lines, timeout=timeout, args=driver_args)
    ios, mos = split_outputs(io, histories), split_outputs(mo, histories)
    diffs = []
    crashed = rc != 0
    for n, h in enumerate(histories):
        ro = (ref_fn(h, ios[n]) if getattr(ref_fn, "uses_impl", False) else ref_fn(h)) if ref_fn else None
        complete = len(ios[n]) == len(h)
        d = compare_history(h, ios[n], mos[n], ro, eq, err if crashed else "", ref_eq)
        if d:
            diffs.append(d)
        if not complete:
            break            # everything after a crash is unexplored
    done = sum(1 for n, h in enumerate(histories) if len(ios[n]) == len(h))
    return diffs, sum(len(x) for x in ios), done, (rc, err) if crashed else None, ios


def differential(ctx, harness, driver, histories, ref_fn=None, eq=default_eq, timeout=300,
                 harness_args=(), driver_args=(), nontrivial=None, chunk=None):
    """run all histories through implementation and model (in parallel chunks); returns list of Diff"""
    if not histories:
        return []
    chunk = chunk or max(1, (len(histories) + NCPU * 2 - 1) // (NCPU * 2))
    parts = [histories[i:i + chunk] for i in range(0, len(histories), chunk)]
    diffs, keys = [], set()
    with cf.ThreadPoolExecutor(max_workers=NCPU) as ex:
        futs = [ex.submit(run_batch, harness, driver, p, ref_fn, eq, timeout, harness_args, driver_args) for p in parts]
        for part, f in zip(parts, futs):
            ds, nlines, done, crash, ios = f.result()
            ctx.cov["evaluations"] += nlines
            ctx.cov["traces_validated_against_impl"] += done
            diffs += ds
            if crash and not ds:
                # crash not attributable to an op line (e.g. leak report at exit)
                diffs.append(Diff(part[-1] if part else [], max(0, len(part[-1]) - 1) if part else 0,
                                  "impl-exit", f"exit code {crash[0]}", None, None, crash[1]))
            if nontrivial:
                for h, o in zip(part, ios):
                    k = nontrivial(h, o)
                    if k is not None:
                        keys.add(k)
            else:
                for h, o in zip(part, ios):
                    if len(h) >= 2 and o:
                        keys.add(hashlib.sha1(("\n".join(o)).encode()).hexdigest())
    ctx.cov["distinct_nontrivial"] = ctx.cov.get("distinct_nontrivial", 0) + len(keys)
    return diffs


def ddmin(hist, fails):
    """delta debugging over op lines; `fails(h)` returns True while the failure persists"""
    h = list(hist)
    n = 2
    while len(h) >= 2:
        size = max(1, len(h) // n)
        reduced = False
        for i in range(0, len(h), size):
            cand = h[:i] + h[i + size:]
            if cand and fails(cand):
                h = cand
                n = max(n - 1, 2)
                reduced = True
                break
        if not reduced:
            if size == 1:
                break
            n = min(len(h), n * 2)
    return h


def shrink_diff(d, harness, driver, ref_fn, eq, timeout=60, budget=250, harness_args=(), driver_args=()):
    """minimise the history of a Diff, keeping its kind"""
    calls = [0]

    def fails(h):
        calls[0] += 1
        if calls[0] > budget:
            return False
        ds, _, _, _, _ = run_batch(harness, driver, [h], ref_fn, eq, timeout, harness_args, driver_args)
        return bool(ds) and ds[0].kind == d.kind

    h = ddmin(d.hist[:d.idx + 1], fails)
    ds, _, _, _, _ = run_batch(harness, driver, [h], ref_fn, eq, timeout, harness_args, driver_args)
    return ds[0] if ds and ds[0].kind == d.kind else d


def report_diffs(ctx, diffs, harness, driver, ref_fn, eq, stream_name, harness_args=(), driver_args=(), max_reports=3):
    """shrink and file the disagreements.  impl-vs-reference / crash = concrete failing input;
    impl-vs-model only = broken correspondence (no-failing-input-found unless the reference also fails)."""
    if not diffs:
        return
    concrete = [d for d in diffs if d.kind in ("impl-vs-reference", "impl-crash", "impl-exit")]
    corr = [d for d in diffs if d.kind == "impl-vs-model"]
    seen = set()
    for d in (concrete or corr)[:12]:
        if len(seen) >= max_reports:
            break
        d = shrink_diff(d, harness, driver, ref_fn, eq, harness_args=harness_args, driver_args=driver_args)
        sig = (d.kind, d.hist[d.idx].split(" ")[0] if d.hist else "", len(d.hist[:d.idx + 1]))
        key = "\n".join(d.hist[:d.idx + 1])
        if key in seen:
            continue
        seen.add(key)
        if d.kind == "impl-vs-model":
            ctx.broken.append(f"correspondence {stream_name}: implementation and model differ")
            ctx.violation(f"correspondence stream '{stream_name}' no longer checks (implementation vs Lean model); "
                          f"the independent reference found no failing input on the explored histories",
                          d.text(), no_input=True)
        else:
            ctx.violation(f"{d.kind} on stream '{stream_name}'", d.text(), no_input=False,
                          signature=f"{d.kind}:{d.hist[d.idx].split(' ')[0] if d.hist else ''}")


def report_broken_proof(ctx):
    """a proof obligation / translator / audit no longer checks and no failing input was found"""
    if ctx.broken and not ctx.violations:
        txt = "# the following obligations no longer check:\n" + "\n".join("# " + b for b in ctx.broken) + "\n"
        ctx.violation("proof obligations / model tie no longer check: " + "; ".join(b[:160] for b in ctx.broken),
                      txt, no_input=True)


def load_corpus(prop):
    d = CORPUS / prop
    hs = []
    if d.exists():
        for f in sorted(d.glob("*.txt")):
            h = [l for l in f.read_text().splitlines() if l.strip() and not l.startswith("#")]
            if h:
                hs.append(h)
    return hs


def parse_replay(path):
    return [l for l in Path(path).read_text().splitlines() if l.strip() and not l.startswith("#")]
