#!/usr/bin/env python3
"""Translator for the client / dispatch / socket code of the Server area (properties C13, C14).

Extracts from the CURRENT sources, after `g++ -E -P` (so comments, macros and the _WIN32 / poll() variants are gone and
ERRNO / EWOULDBLOCK / EAGAIN / SOCKET_ERROR / SET_ERRNO have their values on this platform), the bodies of

    Server::Private::ClientImpl::suspend / resume / write / read                      (src/Socket/Server.cpp)
    the read branch and the write-ready branch of the dispatch chain of Server::Private::run
    the order of the tests of that chain (`pollEvent.flags & Socket::Poll::xFlag`)
    Socket::send, the first switch of Socket::recv                                     (src/Socket/Socket.cpp)
    Socket::Poll::Private::mapEvents / unmapEvents (the epoll variant)

and writes them as Lean functions into lean/Nstd/Generated/ServerTr.lean: tokenizer + recursive-descent parser of the C++
subset these bodies use + a continuation-passing translation (if / else, switch with fall-through, break, continue, early
return, local variables in SSA form, `?:`, `| & ~ == != < <= > >= && || ! + - *`, casts).  Calls on the rest of the system
become the primitives of lean/Nstd/Server/TrRt.lean (`ClientPrims`, `SysPrims`); flag sets become records of booleans, which
is sound because the translator checks that every named flag constant is a distinct single bit (values read from the
preprocessed enum definitions).  lean/Nstd/Server/PropsTr*.lean proves translated body = model step.

Everything outside the understood subset is REFUSED (exception -> the check reports a broken tie): loops, unknown calls,
unknown members, unknown constants, a second definition of a function, a changed signature.

Assumptions of the translation (listed in the MANIFEST note):
  * integers are mathematical integers (`Int`); the casts `(usize)x`, `(int)x`, `(ssize)x` … are the identity — in the
    translated bodies they are applied to values that are non-negative on that path;
  * `data + k` is only accepted as the first argument of `_sendBuffer.append`, `client._sendBuffer` only as the first argument
    of `send`; the pointer arguments of send/recv are not represented (the primitive gets the length);
  * `if (postponed)` tests the out-pointer for null; `*postponed = e` / `size = e` (reference parameter) set an out-value;
  * operands of `&&`, `||`, `?:` are free of side effects in the subset (calls with effects are statements), so
    short-circuit evaluation does not matter.
"""
import re
import subprocess
import sys
from pathlib import Path


class Refuse(Exception):
    pass


# ---- preprocessing / extraction -------------------------------------------------------------------------------------
def preprocess(repo, rel):
    cmd = ["g++", "-E", "-P", "-std=gnu++11", "-DNSTD_VERIF", f"-I{repo}/include", str(Path(repo) / rel)]
    p = subprocess.run(cmd, stdout=subprocess.PIPE, stderr=subprocess.PIPE, text=True, errors="replace")
    if p.returncode != 0:
        raise Refuse(f"g++ -E {rel} failed: {p.stderr[-300:]}")
    return fold_verify(p.stdout)


def fold_verify(text):
    """`VERIFY(x)` after `g++ -E` -> `VERIFY(x)` again (the expansion contains string literals)"""
    text = re.sub(r"\(\(void\)\(!\(([^\n]*?)\) && Debug::printf\(\"%s:%u: assertion failed[^\n]*?\"\) && \(__builtin_trap\(\), 1\)\)\);", ";", text)
    return re.sub(r"\(\(void\)\(!\(([^\n]*?)\) && Debug::printf\(\"%s:%u: verification failed[^\n]*?\"\) && \(__builtin_trap\(\), 1\)\)\);", r"VERIFY(\1);", text)


def balanced(src, start, op="{", cl="}"):
    depth = 0
    for i in range(start, len(src)):
        if src[i] == op:
            depth += 1
        elif src[i] == cl:
            depth -= 1
            if depth == 0:
                return i + 1
    raise Refuse("unbalanced brackets")


def extract(src, what, sig_rx):
    """(parameter text, body text) of the single definition matching sig_rx (which must end before the parameter list)"""
    ms = list(re.finditer(sig_rx + r"\s*\(", src))
    ms = [m for m in ms if re.match(r"[^;{}]*\)\s*(const\s*)?\{", src[m.end():])]
    if len(ms) != 1:
        raise Refuse(f"{what}: {len(ms)} definitions found, expected exactly one")
    m = ms[0]
    pend = balanced(src, m.end() - 1, "(", ")")
    params = src[m.end():pend - 1]
    b = src.index("{", pend)
    end = balanced(src, b)
    return params, src[b + 1:end - 1]


TOK = re.compile(r"\s*(::|->|==|!=|<=|>=|&&|\|\||\+\+|--|\|=|&=|\+=|-=|<<|>>|0[xX][0-9a-fA-F]+|\d+|[A-Za-z_]\w*|[{}()\[\];,<>=+\-*/!?:&.~|^%])")


def tokenize(text):
    toks, pos = [], 0
    text = text.rstrip()
    while pos < len(text):
        m = TOK.match(text, pos)
        if not m:
            if text[pos:].strip() == "":
                break
            raise Refuse(f"cannot tokenize at {text[pos:pos + 30]!r}")
        toks.append(m.group(1))
        pos = m.end()
    return toks


TYPE_WORDS = {"epoll_event", "usize", "ssize", "int", "uint", "uint32", "uint64", "int64", "int32", "uint16", "bool", "char", "byte", "unsigned",
              "long", "short", "size_t", "ssize_t", "const", "ClientImpl", "Socket", "void"}
INT_TYPES = {"usize", "ssize", "int", "uint", "uint32", "uint64", "int64", "int32", "uint16", "size_t", "ssize_t", "long", "unsigned"}


# ---- parser ---------------------------------------------------------------------------------------------------------
class Parser:
    def __init__(self, toks, fn):
        self.t, self.i, self.fn = toks, 0, fn

    def peek(self, k=0):
        return self.t[self.i + k] if self.i + k < len(self.t) else None

    def eat(self, x=None):
        tok = self.peek()
        if tok is None or (x is not None and tok != x):
            raise Refuse(f"{self.fn}: expected {x!r}, found {tok!r} (token {self.i})")
        self.i += 1
        return tok

    # statements
    def stmts(self):
        out = []
        while self.peek() is not None and self.peek() not in ("}", "case", "default"):
            out.append(self.stmt())
        return out

    def stmt(self):
        tok = self.peek()
        if tok == "{":
            self.eat("{")
            b = self.stmts()
            self.eat("}")
            return ("block", b)
        if tok == ";":
            self.eat(";")
            return ("block", [])
        if tok == "if":
            self.eat("if"); self.eat("(")
            c = self.expr()
            self.eat(")")
            a = self.stmt()
            b = None
            if self.peek() == "else":
                self.eat("else")
                b = self.stmt()
            return ("if", c, a, b)
        if tok == "switch":
            self.eat("switch"); self.eat("(")
            e = self.expr()
            self.eat(")"); self.eat("{")
            cases = []
            while self.peek() != "}":
                labels = []
                while self.peek() in ("case", "default"):
                    if self.eat() == "case":
                        labels.append(self.expr_noassign())
                    else:
                        labels.append(None)
                    self.eat(":")
                if not labels:
                    raise Refuse(f"{self.fn}: statement before the first case label of a switch")
                cases.append((labels, self.stmts()))
            self.eat("}")
            return ("switch", e, cases)
        if tok == "return":
            self.eat("return")
            e = None if self.peek() == ";" else self.expr()
            self.eat(";")
            return ("return", e)
        if tok in ("break", "continue"):
            self.eat()
            self.eat(";")
            return (tok,)
        if tok in ("for", "while", "do", "goto", "try", "throw"):
            raise Refuse(f"{self.fn}: `{tok}` is outside the translated subset")
        d = self.try_decl()
        if d is not None:
            return d
        e = self.expr()
        self.eat(";")
        return ("expr", e)

    def try_decl(self):
        """`T x = e;` / `T x;` / `T &x = e;` / `T *x = e;` with T a (qualified) type name"""
        j = self.i
        words = []
        while j < len(self.t) and (re.match(r"[A-Za-z_]\w*$", self.t[j]) or self.t[j] == "::"):
            words.append(self.t[j])
            j += 1
            if j < len(self.t) and self.t[j] == "<" and words[-1][0].isupper():
                # template arguments of a type name: `HashMap<Socket*, uint>::Iterator`
                depth, q = 0, j
                while q < len(self.t):
                    if self.t[q] == "<":
                        depth += 1
                    elif self.t[q] == ">":
                        depth -= 1
                        if depth == 0:
                            break
                    elif self.t[q] in (";", "{", "}", "(", ")"):
                        q = len(self.t)
                    q += 1
                if q < len(self.t) and q + 1 < len(self.t) and (self.t[q + 1] == "::" or re.match(r"[A-Za-z_&*]", self.t[q + 1])):
                    j = q + 1
        names = [w for w in words if w != "::"]
        ref = ""
        k = j
        while k < len(self.t) and self.t[k] in ("&", "*", "const"):
            if self.t[k] != "const":
                ref += self.t[k]
            k += 1
        # `T x =` / `T x;`: at least two identifiers in a row, or identifier(s) + &/* + identifier
        if ref:
            if not names or k >= len(self.t) or not re.match(r"[A-Za-z_]\w*$", self.t[k]) or self.t[k + 1] not in ("=", ";"):
                return None
            tname, var, after = " ".join(names), self.t[k], k + 1
        else:
            if len(names) < 2 or "::" in words[-2:-1] or self.t[j] not in ("=", ";"):
                return None
            if words[-2] == "::":
                return None
            tname, var, after = " ".join(names[:-1]), names[-1], j
        if not all(w in TYPE_WORDS or w[0].isupper() for w in tname.split()):
            return None
        self.i = after
        init = None
        if self.peek() == "=":
            self.eat("=")
            init = self.expr()
        self.eat(";")
        return ("decl", tname, ref, var, init)

    # expressions (precedence climbing)
    def expr(self):
        lhs = self.ternary()
        if self.peek() in ("=", "|=", "&=", "+=", "-="):
            op = self.eat()
            rhs = self.expr()
            return ("assign", op, lhs, rhs)
        return lhs

    def expr_noassign(self):
        return self.ternary()

    def ternary(self):
        c = self.binary(0)
        if self.peek() == "?":
            self.eat("?")
            a = self.expr()
            self.eat(":")
            b = self.ternary()
            return ("tern", c, a, b)
        return c

    LEVELS = [["||"], ["&&"], ["|"], ["^"], ["&"], ["==", "!="], ["<", "<=", ">", ">="], ["<<", ">>"], ["+", "-"], ["*", "/", "%"]]

    def binary(self, lvl):
        if lvl == len(self.LEVELS):
            return self.unary()
        a = self.binary(lvl + 1)
        while self.peek() in self.LEVELS[lvl]:
            op = self.eat()
            b = self.binary(lvl + 1)
            a = ("bin", op, a, b)
        return a

    def is_cast(self):
        """`(` type-words [*&] `)` followed by the start of a unary expression"""
        if self.peek() != "(":
            return None
        j = self.i + 1
        words = []
        upper_first = False
        while j < len(self.t) and (self.t[j] in TYPE_WORDS or self.t[j] == "::" or re.match(r"[A-Z]\w*$", self.t[j])):
            if not words and self.t[j] not in TYPE_WORDS:
                upper_first = True
            words.append(self.t[j])
            j += 1
        stars = ""
        while j < len(self.t) and self.t[j] in ("*", "&"):
            stars += self.t[j]
            j += 1
        if not words or j >= len(self.t) or self.t[j] != ")" or (upper_first and not stars):
            return None
        nxt = self.t[j + 1] if j + 1 < len(self.t) else None
        if nxt is None or not (re.match(r"[A-Za-z_0-9]", nxt) or nxt in ("(", "*", "&", "-", "!", "~")):
            return None
        return (" ".join(w for w in words if w != "::"), stars, j + 1)

    def unary(self):
        tok = self.peek()
        c = self.is_cast()
        if c is not None:
            tname, stars, after = c
            self.i = after
            return ("cast", tname + stars, self.unary())
        if tok in ("!", "~", "-", "*", "&", "+"):
            self.eat()
            return ("un", tok, self.unary())
        if tok in ("++", "--"):
            raise Refuse(f"{self.fn}: `{tok}` is outside the translated subset")
        return self.postfix()

    def postfix(self):
        e = self.primary()
        while True:
            tok = self.peek()
            if tok in (".", "->"):
                self.eat()
                e = ("member", e, self.eat())
            elif tok == "(":
                self.eat("(")
                args = []
                while self.peek() != ")":
                    args.append(self.expr())
                    if self.peek() == ",":
                        self.eat(",")
                self.eat(")")
                e = ("call", e, args)
            elif tok in ("++", "--", "["):
                raise Refuse(f"{self.fn}: `{tok}` is outside the translated subset")
            else:
                return e

    def primary(self):
        tok = self.peek()
        if tok == "(":
            self.eat("(")
            e = self.expr()
            self.eat(")")
            return e
        if tok is None:
            raise Refuse(f"{self.fn}: unexpected end")
        if re.match(r"0[xX][0-9a-fA-F]+$|\d+$", tok):
            self.eat()
            return ("num", int(tok, 0))
        if tok == "::":
            self.eat("::")
            return ("name", "::" + self.qualified())
        if re.match(r"[A-Za-z_]\w*$", tok):
            return ("name", self.qualified())
        raise Refuse(f"{self.fn}: unexpected token {tok!r}")

    def qualified(self):
        n = self.eat()
        while self.peek() == "::":
            self.eat("::")
            n += "::" + self.eat()
        return n


def parse_body(text, fn):
    p = Parser(tokenize(text), fn)
    st = p.stmts()
    if p.peek() is not None:
        raise Refuse(f"{fn}: trailing tokens at {p.peek()!r}")
    return st


def param_names(params, fn, n):
    parts = [x.strip() for x in params.split(",")] if params.strip() else []
    if len(parts) != n:
        raise Refuse(f"{fn}: {len(parts)} parameters, expected {n}")
    names = []
    for x in parts:
        x = x.split("=")[0].strip()
        m = re.search(r"([A-Za-z_]\w*)\s*$", x)
        if not m:
            raise Refuse(f"{fn}: parameter {x!r}")
        names.append(m.group(1))
    return names


# ---- translation ----------------------------------------------------------------------------------------------------
PF = {"readFlag": "r", "writeFlag": "w", "acceptFlag": "a", "connectFlag": "c"}
NF = {"EPOLLIN": "inn", "EPOLLOUT": "out", "EPOLLERR": "err", "EPOLLHUP": "hup", "EPOLLRDHUP": "rdhup", "EPOLLPRI": "pri"}


class Env:
    def __init__(self, locs=None, state="s0", outs=None):
        self.locs = dict(locs or {})     # C++ name -> (lean text, type)
        self.state = state
        self.outs = dict(outs or {})     # out-parameter -> lean text of its current value (Option Int)

    def copy(self):
        e = Env(self.locs, self.state, self.outs)
        e.shadowed = set(getattr(self, "shadowed", set()))
        return e


class Tr:
    """machine = 'client' (ClientPrims), 'sys' (SysPrims) or 'bits' (no state)"""

    def __init__(self, fn, machine, self_names=(), data=None, outptr=None, outref=None, rettype=None):
        self.fn, self.machine = fn, machine
        self.self_names = set(self_names) | {"this"}
        self.data, self.outptr, self.outref, self.rettype = data, outptr, outref, rettype
        self.n = 0
        self.size = 0
        self.helpers = {}        # other functions of the translation unit: name -> {params, body, member}; inlined at the call
        self.event_names = EVENT_NAMES
        self.aliases = {}        # `Buffer &backlog = client._sendBuffer;` : local name -> member chain
        self._cur_env = None
        self.inlining = []
        self.nopq = 0

    def fresh(self, base):
        self.n += 1
        return f"{re.sub(r'[^A-Za-z0-9]', '', base) or 'v'}_{self.n}"

    def refuse(self, msg):
        raise Refuse(f"{self.fn}: {msg}")

    def opaque(self):
        """an integer the translation does not interpret (bit arithmetic on sizes, `_sendBuffer.capacity()`): the k-th value
        of the oracle `opq`, over which the theorems quantify — the translated body may only be proved equal to the model if its
        behaviour does not depend on the value"""
        if self.machine != "client":
            self.refuse("integer bit arithmetic outside the client code")
        self.nopq += 1
        return (f"(opq {self.nopq})", "int")

    # ---- member chains -------------------------------------------------------------------------------------------
    def chain(self, e):
        """flatten `a.b->c` into ['a','b','c'] with the names of the client itself removed; None when not a chain"""
        if e[0] == "name":
            if e[1] in self.aliases:
                return list(self.aliases[e[1]])
            return [] if e[1] in self.self_names else [e[1]]
        if e[0] == "member":
            c = self.chain(e[1])
            return None if c is None else c + [e[2]]
        if e[0] == "un" and e[1] == "*" and self.is_self(e[2]):
            return []
        if e[0] == "cast" and self.is_self_expr(e):
            return []
        return None

    def is_self_expr(self, e):
        """`(ClientImpl *)pollEvent.socket`"""
        return (e[0] == "cast" and e[1].replace(" ", "") == "ClientImpl*" and e[2][0] == "member" and e[2][2] == "socket"
                and e[2][1][0] == "name" and e[2][1][1] in self.event_names)

    def is_self(self, e):
        """`this`, `&client`"""
        if e[0] == "name" and e[1] == "this":
            return True
        if e[0] == "un" and e[1] == "&" and e[2][0] == "name" and e[2][1] in self.self_names and e[2][1] != "this":
            return True
        return self.is_self_expr(e)

    def is_self_ref(self, e):
        """`*this`, `client`"""
        if e[0] == "name" and e[1] in self.self_names and e[1] != "this":
            return True
        return e[0] == "un" and e[1] == "*" and self.is_self(e[2])

    def key(self, e):
        c = self.chain(e)
        if c is None:
            return None
        if c and c[0] == "_p":
            c = c[1:]
        return ".".join(c)

    # ---- expressions ----------------------------------------------------------------------------------------------
    def tx(self, e, env):
        """(lean text, type) with type in int | bool | pf | nf | zero (the literal 0) | ptr:<name>"""
        k = e[0]
        s = env.state
        if k == "num":
            return (f"({e[1]} : Int)", "zero" if e[1] == 0 else "int")
        if k == "name":
            n = e[1]
            if n in env.locs:
                return env.locs[n]
            if n in CONSTS:
                return self.tx(CONSTS[n], env)
            if self.data and n == self.data:
                return ("(0 : Int)", "dptr")
            if n == "nullptr":
                return ("", "null")
            if n in ("true", "false"):
                return (n, "bool")
            last = n.split("::")[-1]
            if last in PF and n in (last, "Poll::" + last, "Socket::Poll::" + last):
                return (f"({{ {PF[last]} := true }} : Flags)", "pf")
            if n in NF:
                return (f"({{ {NF[n]} := true }} : NBits)", "nf")
            if self.machine == "client" and n == "_suspended":
                return (f"(P.suspended {s})", "bool")
            if self.outptr and n == self.outptr:
                return (self.outptr + "NonNull", "bool")
            self.refuse(f"unknown name `{n}`")
        if k == "cast":
            t, ty = self.tx(e[2], env)
            if ty in ("int", "zero") and e[1].split()[-1].rstrip("*&") in INT_TYPES and not e[1].endswith("*"):
                return (t, ty)
            self.refuse(f"cast to `{e[1]}` of a value of type {ty}")
        if k == "member" or (k == "call" and e[1][0] in ("member", "name")):
            return self.tx_prim(e, env)
        if k == "un":
            op = e[1]
            if op == "*" and self.machine == "sys" and e[2] == ("call", ("name", "__errno_location"), []):
                return (f"(P.errno {s})", "int")
            t, ty = self.tx(e[2], env)
            if op == "!":
                return (f"(!{self.as_bool(t, ty)})", "bool")
            if op == "~":
                if ty == "pf":
                    return (f"(fcompl {t})", "pf")
                if ty == "nf":
                    return (f"(NBits.compl {t})", "nf")
                if ty == "int":
                    return self.opaque()
                self.refuse(f"`~` on a value of type {ty}")
            if op == "-" and ty in ("int", "zero"):
                return (f"(-{t})", "int")
            if op == "+" and ty in ("int", "zero"):
                return (t, ty)
            self.refuse(f"unary `{op}` on a value of type {ty}")
        if k == "bin":
            op = e[1]
            a, ta = self.tx(e[2], env)
            b, tb = self.tx(e[3], env)
            if op in ("&&", "||"):
                return (f"({self.as_bool(a, ta)} {op} {self.as_bool(b, tb)})", "bool")
            if op == "+" and ta == "dptr" and tb in ("int", "zero"):
                return (f"({a} + {b})", "dptr")
            if op in ("|", "&", "^", "<<", ">>", "/", "%") and ta in ("int", "zero") and tb in ("int", "zero") and "int" in (ta, tb):
                return self.opaque()
            if op in ("|", "&"):
                ty = self.unify(ta, tb, op)
                if ty == "pf":
                    return (f"({'Flags.union' if op == '|' else 'finter'} {self.as_ty(a, ta, ty)} {self.as_ty(b, tb, ty)})", ty)
                if ty == "nf":
                    return (f"(NBits.{'union' if op == '|' else 'inter'} {self.as_ty(a, ta, ty)} {self.as_ty(b, tb, ty)})", ty)
                self.refuse(f"`{op}` on values of type {ta}, {tb}")
            if op in ("==", "!=", "<", "<=", ">", ">="):
                ty = self.unify(ta, tb, op)
                if ty in ("pf", "nf"):
                    if op not in ("==", "!="):
                        self.refuse(f"`{op}` on flag sets")
                    r = f"decide ({self.as_ty(a, ta, ty)} = {self.as_ty(b, tb, ty)})"
                    return (f"({r})" if op == "==" else f"(!{r})", "bool")
                if ty in ("int", "zero"):
                    lop = {"==": "=", "!=": "≠", "<": "<", "<=": "≤", ">": ">", ">=": "≥"}[op]
                    return (f"(decide ({a} {lop} {b}))", "bool")
                if ty == "bool" and op in ("==", "!="):
                    return (f"({'' if op == '==' else '!'}decide ({a} = {b}))", "bool")
                self.refuse(f"`{op}` on values of type {ta}, {tb}")
            if op in ("+", "-", "*"):
                if ta in ("int", "zero") and tb in ("int", "zero"):
                    return (f"({a} {op} {b})", "int")
                self.refuse(f"`{op}` on values of type {ta}, {tb}")
            self.refuse(f"operator `{op}`")
        if k == "tern":
            c, tc = self.tx(e[1], env)
            a, ta = self.tx(e[2], env)
            b, tb = self.tx(e[3], env)
            ty = self.unify(ta, tb, "?:")
            return (f"(if {self.as_bool(c, tc)} then {self.as_ty(a, ta, ty)} else {self.as_ty(b, tb, ty)})", ty)
        if k == "assign":
            self.refuse("assignment inside an expression")
        self.refuse(f"expression {e[0]}")

    def unify(self, ta, tb, op):
        if ta == tb:
            return ta
        if ta == "zero":
            return tb
        if tb == "zero":
            return ta
        if {ta, tb} <= {"int", "zero"}:
            return "int"
        self.refuse(f"`{op}` mixes values of type {ta} and {tb}")

    def as_ty(self, t, ty, want):
        if ty == want:
            return t
        if ty == "zero" and want == "pf":
            return "({} : Flags)"
        if ty == "zero" and want == "nf":
            return "({} : NBits)"
        if ty == "zero" and want == "int":
            return t
        if want == "zero":
            return t
        self.refuse(f"a value of type {ty} where {want} is needed")

    def as_bool(self, t, ty):
        if ty == "bool":
            return t
        if ty == "pf":
            return f"(!Flags.isZero {t})"
        if ty == "nf":
            return f"(!NBits.isZero {t})"
        if ty in ("int", "zero"):
            return f"(decide ({t} ≠ 0))"
        self.refuse(f"a value of type {ty} used as a condition")

    def tx_prim(self, e, env):
        """pure primitives usable inside expressions"""
        s = env.state
        if e[0] == "call":
            key = self.key(e[1])
            args = e[2]
            if self.machine == "client":
                if key == "_sendBuffer.isEmpty" and not args:
                    return (f"(P.bufIsEmpty {s})", "bool")
                if key == "_sendBuffer.size" and not args:
                    return (f"(P.bufSize {s})", "int")
                if key in ("Socket::getLastError", "getLastError") and not args:
                    return (f"(P.lastError {s})", "int")
                if key == "_sendBuffer.capacity" and not args:
                    return self.opaque()
            self.refuse(f"call of `{key}` inside an expression")
        key = self.key(e)
        if self.machine == "client":
            if key == "_suspended":
                return (f"(P.suspended {s})", "bool")
            if key is not None and key.endswith(".flags") and key[:-6] in self.event_names:
                return ("flags", "pf")
        self.refuse(f"unknown member `{key}`")

    # ---- statements (continuation passing) ------------------------------------------------------------------------
    def bump(self):
        self.size += 1
        if self.size > 4000:
            self.refuse("translation grows too large (too many sequential branches)")

    def seq(self, stmts, env, K):
        """lean text of executing `stmts`, then K['next']"""
        self.bump()
        if not stmts:
            return K["next"](env)
        st, rest = stmts[0], stmts[1:]
        k = st[0]
        if self.helpers and k in ("expr", "decl", "if", "return", "switch"):
            ex = {"expr": 1, "decl": 4, "if": 1, "return": 1, "switch": 1}[k]
            self._cur_env = env
            if st[ex] is not None and not (k == "expr" and self.helper_of(st[ex], env) is not None):
                call = self.find_helper_call(st[ex])
                if call is not None:
                    def cont(back, v):
                        if v is None:
                            self.refuse("the value of a void helper function is used")
                        tmp = self.fresh("h")
                        back.locs["%" + tmp] = v
                        st2 = list(st)
                        st2[ex] = Tr.replace_node(st[ex], call, ("name", "%" + tmp))
                        return self.seq([tuple(st2)] + list(rest), back, K)
                    return self.inline(call, env, cont)
        if k == "block":
            outer = dict(env.locs)

            def leave(e2):
                # names declared inside the block go out of scope (an outer variable they shadowed is visible again)
                for n in [n for n in e2.locs if n not in outer]:
                    del e2.locs[n]
                for n in getattr(e2, "shadowed", set()) & set(outer):
                    e2.locs[n] = outer[n]
                e2.shadowed = set()
                return self.seq(rest, e2, K)
            Kb = dict(K)
            Kb["next"] = leave
            return self.seq(list(st[1]), env, Kb)
        if k == "if":
            c, tc = self.tx(st[1], env)
            cb = self.as_bool(c, tc)
            Kr = dict(K)
            Kr["next"] = lambda e2: self.seq(rest, e2, K)
            a = self.seq([st[2]], env.copy(), Kr)
            b = self.seq([st[3]] if st[3] is not None else [], env.copy(), Kr)
            return f"(if {cb} then {a}\n else {b})"
        if k == "switch":
            v, tv = self.tx(st[1], env)
            if tv not in ("int", "zero"):
                self.refuse("switch on a non-integer")
            cases = st[2]
            Ks = dict(K)
            Ks["brk"] = lambda e2: self.seq(rest, e2, K)

            def body(j, e2):
                if j >= len(cases):
                    return self.seq(rest, e2, K)
                Kj = dict(Ks)
                Kj["next"] = lambda e3: body(j + 1, e3)       # fall-through
                return self.seq(cases[j][1], e2, Kj)
            out = None
            dflt = None
            arms = []
            for j, (labels, _) in enumerate(cases):
                for lab in labels:
                    if lab is None:
                        dflt = j
                    else:
                        lt, lty = self.tx(lab, env)
                        if lty not in ("int", "zero"):
                            self.refuse("case label is not an integer")
                        arms.append((lt, j))
            out = body(dflt, env.copy()) if dflt is not None else self.seq(rest, env.copy(), K)
            for lt, j in reversed(arms):
                out = f"(if {v} = {lt} then {body(j, env.copy())}\n else {out})"
            return out
        if k == "return":
            if st[1] is None:
                return K["ret"](env, None)
            t, ty = self.tx(st[1], env)
            return K["ret"](env, (t, ty))
        if k == "break":
            if "brk" not in K:
                self.refuse("break outside a switch")
            return K["brk"](env)
        if k == "continue":
            if "cont" not in K:
                self.refuse("continue outside the event loop")
            return K["cont"](env)
        if k == "decl":
            return self.decl(st, rest, env, K)
        if k == "expr":
            return self.effect(st[1], rest, env, K)
        self.refuse(f"statement {k}")

    def let(self, name, val, body):
        return f"(let {name} := {val};\n {body})"

    def decl(self, st, rest, env, K):
        _, tname, ref, var, init = st
        if var in self.self_names:
            self.refuse(f"`{var}` declared twice")
        if var in env.locs:
            env.shadowed = getattr(env, "shadowed", set()) | {var}
        if ref == "&" and tname.split()[-1] == "ClientImpl" and init is not None:
            # `ClientImpl &client = *(ClientImpl *)pollEvent.socket;`
            if init[0] == "un" and init[1] == "*" and self.is_self_expr(init[2]):
                self.self_names.add(var)
                return self.seq(rest, env, K)
        if ref == "&" and init is not None and self.machine == "client" and self.key(init) == "_sendBuffer":
            self.aliases[var] = ["_sendBuffer"]
            return self.seq(rest, env, K)
        if ref:
            self.refuse(f"declaration of `{tname} {ref}{var}`")
        if init is None:
            if tname.split()[-1] in INT_TYPES:
                env.locs[var] = ("(0 : Int)", "undef")
                return self.seq(rest, env, K)
            self.refuse(f"declaration of `{tname} {var}` without initialiser")
        call = self.effect_call(init, env)
        if call is not None:
            r = self.fresh("r")
            s2 = self.fresh("s")
            v = self.fresh(var)
            e2 = env
            e2.state = s2
            e2.locs[var] = (v, "int")
            return self.let(r, call, self.let(s2, f"{r}.1", self.let(v, f"{r}.2", self.seq(rest, e2, K))))
        t, ty = self.tx(init, env)
        if ty == "zero":
            # `uint flags = 0;` — an empty flag set or the number 0: decided by what is combined with it later
            env.locs[var] = ("(0 : Int)", "zero")
            return self.seq(rest, env, K)
        v = self.fresh(var)
        env.locs[var] = (v, ty)
        return self.let(v, t, self.seq(rest, env, K))

    def local_type(self, var, stmts):
        """type of a local initialised with 0: the type of the first typed value assigned to it later"""
        found = []

        def walk_e(e):
            if e[0] == "assign" and e[2] == ("name", var):
                found.append(e[3])

        def walk(st):
            k = st[0]
            if k == "block":
                for x in st[1]:
                    walk(x)
            elif k == "if":
                walk(st[2])
                if st[3] is not None:
                    walk(st[3])
            elif k == "switch":
                for _, b in st[2]:
                    for x in b:
                        walk(x)
            elif k == "expr":
                walk_e(st[1])
        for st in stmts:
            walk(st)
        for rhs in found:
            for ty, names in (("pf", PF), ("nf", NF)):
                if any(re.search(r"\b" + n + r"\b", repr(rhs)) for n in names):
                    # the first flag constant decides unless a parameter of the other kind is involved
                    pass
        return None

    def effect_call(self, e, env):
        """lean text of a primitive returning (state, Int), or None"""
        s = env.state
        if e[0] == "cast":
            return self.effect_call(e[2], env) if e[1].split()[-1] in INT_TYPES else None
        if e[0] != "call":
            return None
        if self.machine == "client":
            key = self.key(e[1])
            args = e[2]
            if key == "send" and len(args) == 2:
                n, tn = self.tx(args[1], env)
                if tn not in ("int", "zero"):
                    self.refuse("length argument of send")
                if self.data and args[0] == ("name", self.data):
                    return f"P.send {s} false {n}"
                if self.key(args[0]) == "_sendBuffer":
                    return f"P.send {s} true {n}"
                self.refuse("first argument of send is neither the data parameter nor the send buffer")
            if key == "recv" and len(args) == 2:
                n, tn = self.tx(args[1], env)
                if tn not in ("int", "zero"):
                    self.refuse("length argument of recv")
                return f"P.recv {s} {n}"
        if self.machine == "sys":
            if e[1] == ("name", "::send") and len(e[2]) == 4:
                n, tn = self.tx(e[2][2], env)
                return f"P.sysSend {s} {n}"
            if e[1] == ("name", "::recv") and len(e[2]) == 4:
                n, tn = self.tx(e[2][2], env)
                return f"P.sysRecv {s} {n}"
        return None

    def bind_arg(self, a, env):
        return None

    def helper_of(self, call, env):
        """(name, args without the client argument, client parameter index or None) when `call` is a call of a known helper"""
        if call[0] != "call":
            return None
        fn, args = call[1], call[2]
        if self.machine == "client":
            k = self.key(fn)
            if k in self.helpers and self.helpers[k]["member"]:
                return (k, args, None)
            if fn[0] == "name" and fn[1] in self.helpers and not self.helpers[fn[1]]["member"]:
                idx = [i for i, a in enumerate(args) if self.is_self_ref(a)]
                if len(idx) == 1:
                    return (fn[1], args, idx[0])
            return None
        if fn[0] == "name" and fn[1] in self.helpers and not self.helpers[fn[1]]["member"]:
            return (fn[1], args, None)
        return None

    def find_helper_call(self, e, cond=False):
        """first helper call inside `e` in evaluation order; refuses when it is only conditionally evaluated"""
        if not isinstance(e, tuple):
            return None
        k = e[0]
        if k == "call":
            for a in e[2]:
                r = self.find_helper_call(a, cond)
                if r is not None:
                    return r
            if self._cur_env is not None and self.helper_of(e, self._cur_env) is not None:
                if cond:
                    self.refuse("a helper function is called in a conditionally evaluated operand")
                return e
            return self.find_helper_call(e[1], cond)
        if k == "bin":
            r = self.find_helper_call(e[2], cond)
            if r is not None:
                return r
            return self.find_helper_call(e[3], cond or e[1] in ("&&", "||"))
        if k == "tern":
            r = self.find_helper_call(e[1], cond)
            if r is not None:
                return r
            return self.find_helper_call(e[2], True) or self.find_helper_call(e[3], True)
        if k in ("un", "cast"):
            return self.find_helper_call(e[2], cond)
        if k == "member":
            return self.find_helper_call(e[1], cond)
        if k == "assign":
            return self.find_helper_call(e[3], cond)
        return None

    @staticmethod
    def replace_node(e, old, new):
        if e is old:
            return new
        if isinstance(e, tuple):
            return tuple(Tr.replace_node(x, old, new) for x in e)
        if isinstance(e, list):
            return [Tr.replace_node(x, old, new) for x in e]
        return e

    def inline(self, call, env, cont):
        """translate the body of the helper called by `call` in place; `cont(env', value or None)` continues the caller"""
        name, args, selfidx = self.helper_of(call, env)
        if name in self.inlining or len(self.inlining) > 4:
            self.refuse(f"recursive call of `{name}`")
        h = self.helpers[name]
        pn = param_names(h["params"], f"{name}", len(args))
        locs = {}
        added_self = None
        for i, (p_, a) in enumerate(zip(pn, args)):
            if i == selfidx:
                added_self = p_
                continue
            b = self.bind_arg(a, env)
            if b is not None:
                locs[p_] = b
                continue
            t, ty = self.tx(a, env)
            if ty not in ("int", "zero", "dptr", "bool", "pf", "nf"):
                self.refuse(f"argument of `{name}` of type {ty}")
            locs[p_] = (t, ty)
        e2 = Env(locs, env.state, env.outs)
        saved = (list(self.inlining), set(self.self_names), dict(self.aliases))

        def after(e3, v):
            inner = (list(self.inlining), set(self.self_names), dict(self.aliases))
            self.inlining, self.self_names, self.aliases = list(saved[0]), set(saved[1]), dict(saved[2])
            back = env.copy()
            back.state, back.outs = e3.state, dict(e3.outs)
            try:
                return cont(back, v)
            finally:
                self.inlining, self.self_names, self.aliases = inner
        Kh = {"next": lambda e3: after(e3, None), "ret": lambda e3, v: after(e3, v)}
        self.inlining.append(name)
        if added_self:
            self.self_names.add(added_self)
        try:
            return self.seq(parse_body(h["body"], name), e2, Kh)
        finally:
            self.inlining, self.self_names, self.aliases = list(saved[0]), set(saved[1]), dict(saved[2])

    def effect(self, e, rest, env, K):
        s = env.state
        if e[0] == "call" and self.helpers and self.helper_of(e, env) is not None:
            return self.inline(e, env, lambda back, v: self.seq(rest, back, K))

        def then(newstate_expr):
            s2 = self.fresh("s")
            env.state = s2
            return self.let(s2, newstate_expr, self.seq(rest, env, K))
        if e[0] == "assign":
            op, lhs, rhs = e[1], e[2], e[3]
            # errno = v
            if self.machine == "sys" and lhs == ("un", "*", ("call", ("name", "__errno_location"), [])) and op == "=":
                t, ty = self.tx(rhs, env)
                if ty not in ("int", "zero"):
                    self.refuse("errno assigned a non-integer")
                return then(f"P.setErrno {s} {t}")
            if lhs[0] == "un" and lhs[1] == "*" and lhs[2] == ("name", self.outptr) and op == "=":
                t, ty = self.tx(rhs, env)
                if ty not in ("int", "zero"):
                    self.refuse("out-parameter assigned a non-integer")
                v = self.fresh("out")
                env.outs[self.outptr] = v
                return self.let(v, f"(some {t} : Option Int)", self.seq(rest, env, K))
            if lhs == ("name", self.outref) and op == "=":
                t, ty = self.tx(rhs, env)
                if ty not in ("int", "zero"):
                    self.refuse("out-parameter assigned a non-integer")
                v = self.fresh("out")
                env.outs[self.outref] = v
                return self.let(v, f"(some {t} : Option Int)", self.seq(rest, env, K))
            if self.machine == "client" and self.key(lhs) == "_suspended" and op == "=":
                t, ty = self.tx(rhs, env)
                return then(f"P.setSuspended {s} {self.as_bool(t, ty)}")
            if lhs[0] == "name" and lhs[1] in env.locs:
                var = lhs[1]
                cur, cty = env.locs[var]
                call = self.effect_call(rhs, env) if op == "=" else None
                if call is not None:
                    r, s2, v = self.fresh("r"), self.fresh("s"), self.fresh(var)
                    env.state = s2
                    env.locs[var] = (v, "int")
                    return self.let(r, call, self.let(s2, f"{r}.1", self.let(v, f"{r}.2", self.seq(rest, env, K))))
                t, ty = self.tx(rhs, env)
                if op == "=":
                    nty = ty if cty in ("undef", "zero") or ty != "zero" else cty
                    if cty not in ("undef", "zero") and ty != "zero" and self.unify(cty, ty, "=") != cty and not (cty == "int"):
                        self.refuse(f"`{var}` changes its type")
                    if ty == "zero" and cty not in ("undef", "zero"):
                        t, nty = self.as_ty(t, "zero", cty), cty
                    if nty == "zero":
                        nty = "int"
                    val = t
                elif op in ("|=", "&="):
                    nty = self.unify(cty if cty != "undef" else "zero", ty, op)
                    if nty == "pf":
                        f = "Flags.union" if op == "|=" else "finter"
                    elif nty == "nf":
                        f = "NBits.union" if op == "|=" else "NBits.inter"
                    else:
                        self.refuse(f"`{op}` on a value of type {nty}")
                    val = f"({f} {self.as_ty(cur, cty if cty != 'undef' else 'zero', nty)} {self.as_ty(t, ty, nty)})"
                elif op in ("+=", "-="):
                    if cty not in ("int", "zero") or ty not in ("int", "zero"):
                        self.refuse(f"`{op}` on a value of type {cty}")
                    nty, val = "int", f"({cur} {op[0]} {t})"
                else:
                    self.refuse(f"assignment operator {op}")
                v = self.fresh(var)
                env.locs[var] = (v, nty)
                return self.let(v, val, self.seq(rest, env, K))
            self.refuse("assignment to something that is neither a local, an out-parameter nor `_suspended`")
        if e[0] == "call":
            if self.machine == "client":
                key = self.key(e[1])
                args = e[2]
                if key == "_sendBuffer.append" and len(args) == 2:
                    n, tn = self.tx(args[1], env)
                    off, to = self.tx(args[0], env)
                    if to != "dptr":
                        self.refuse("first argument of _sendBuffer.append is not `data` or `data + k`")
                    if tn not in ("int", "zero"):
                        self.refuse("length argument of append")
                    return then(f"P.bufAppend {s} {off} {n}")
                if key == "_sendBuffer.removeFront" and len(args) == 1:
                    n, tn = self.tx(args[0], env)
                    if tn not in ("int", "zero"):
                        self.refuse("argument of removeFront")
                    return then(f"P.bufRemoveFront {s} {n}")
                if key == "_sendBuffer.free" and not args:
                    return then(f"P.bufFree {s}")
                if key == "_sockets.set" and len(args) == 2 and self.is_self_ref(args[0]):
                    f, tf = self.tx(args[1], env)
                    return then(f"P.pollSet {s} {self.as_ty(f, tf, 'pf')}")
                if key == "_sockets.remove" and len(args) == 1 and self.is_self_ref(args[0]):
                    return then(f"P.pollRemove {s}")
                if key == "_closingClients.append" and len(args) == 1 and self.is_self(args[0]):
                    return then(f"P.closingAppend {s}")
                if key in ("_callback.onRead", "_callback.onWrite", "_callback.onClosed") and not args:
                    return then(f"P.{key.split('.')[1]} {s}")
                if key == "_sendBuffer.reserve" and len(args) == 1:
                    # Buffer::reserve changes the capacity only, not the content (contract of Buffer, property C08)
                    t, ty = self.tx(args[0], env)
                    if ty not in ("int", "zero"):
                        self.refuse("argument of reserve")
                    return self.seq(rest, env, K)
                if self.helper_of(e, env) is not None:
                    return self.inline(e, env, lambda back, v: self.seq(rest, back, K))
                self.refuse(f"unknown call `{key}`")
            self.refuse("unknown call")
        if e[0] == "name" or e[0] == "num":
            return self.seq(rest, env, K)
        self.refuse(f"expression statement {e[0]}")


# ---- table-driven machines (Poll::set / remove, the timer loop and the closing loop of run()) -----------------------
class GTr(Tr):
    """Primitives are looked up by the RENDERED expression: names / members / calls are written as a dotted key in which a
    local that denotes a register of the machine is written by its kind (`@timer`, `@sock`, `@client`: references and pointers
    as cells; `%sock`, `%sel`: iterators as the result of the find — a boolean), so renamed locals do not matter.  Arguments that
    are not such tokens are `_` in the key and are translated as expressions."""

    def __init__(self, fn, tables, params):
        super().__init__(fn, "gen")
        self.T = tables
        self.helpers = HELPERS_PRIVATE
        self.params = params          # C++ parameter name -> (lean text, type) or ("key", token)
        self.regs = {}

    def token(self, e, env):
        k = e[0]
        if k == "name":
            n = e[1]
            if n in env.locs:
                ty = env.locs[n][1]
                if ty.startswith("reg:"):
                    return "@" + ty[4:]
                if ty.startswith("iter:"):
                    return "%" + ty[5:]
                if ty.startswith("struct:"):
                    return "$" + ty[7:]
                return None
            if n in EVENT_NAMES:
                return "@event"
            if n in self.params and self.params[n][0] == "key":
                return self.params[n][1]
            if n in self.params:
                return None
            return n.split("::")[-1] if n.startswith("Private::") else n
        if k == "num":
            return str(e[1])
        if k == "member":
            b = self.token(e[1], env)
            return None if b is None else b + "." + e[2]
        if k == "call":
            b = self.token(e[1], env)
            if b is None:
                return None
            return b + "(" + ",".join(self.argtok(a, env) for a in e[2]) + ")"
        if k == "un" and e[1] in ("*", "&"):
            b = self.token(e[2], env)
            return None if b is None else e[1] + b
        if k == "cast":
            return self.token(e[2], env)
        return None

    def argtok(self, a, env):
        t = self.token(a, env)
        if t is not None and (t in self.T.get("argtokens", ()) or (t[0] in "@%&*$" and "." not in t)):
            return t
        return "_"

    def fill(self, tmpl, e, env, v=None):
        """instantiate a template: {s} the state, {a0}.. the `_` arguments of the call `e` in order, {v} a value"""
        vals = {"s": env.state}
        if v is not None:
            vals["v"] = v
        if e is not None and e[0] == "call":
            i = 0
            for a in e[2]:
                if self.argtok(a, env) == "_":
                    if ("{a%d}" % i) in tmpl:
                        t, ty = self.tx(a, env)
                        vals[f"a{i}"] = self.as_ty(t, ty, "int") if ty == "zero" else t
                    i += 1
        return tmpl.format(**vals)

    def tx(self, e, env):
        k = e[0]
        if k == "name" and e[1] in CONSTS and e[1] not in env.locs:
            return self.tx(CONSTS[e[1]], env)
        if k == "name" and e[1] in self.params and self.params[e[1]][0] != "key":
            return self.params[e[1]]
        if k == "name" and e[1] in env.locs:
            t, ty = env.locs[e[1]]
            if ty == "undef":
                self.refuse(f"`{e[1]}` is read before it is assigned")
            if ty.startswith("reg:") and ("@" + ty[4:]) in self.T.get("cells", {}):
                g, _, cty = self.T["cells"]["@" + ty[4:]]
                return (g.format(s=env.state), cty)
            return (t, ty)
        if k in ("name", "member", "call") or (k == "un" and e[1] == "*"):
            key = self.token(e, env)
            if key is not None:
                if key in self.T.get("cells", {}):
                    g, _, cty = self.T["cells"][key]
                    return (g.format(s=env.state), cty)
                if key in self.T.get("pure", {}):
                    tmpl, ty = self.T["pure"][key]
                    return (self.fill(tmpl, e, env), ty)
                if k not in ("un", "name"):
                    self.refuse(f"unknown expression `{key}`")
        if k == "bin" and e[1] in ("==", "!="):
            for a, b in ((e[2], e[3]), (e[3], e[2])):
                if a[0] == "name" and a[1] in env.locs and env.locs[a[1]][1].startswith("iter:"):
                    kind = env.locs[a[1]][1][5:]
                    if self.token(b, env) == self.T["iter_end"][kind]:
                        v = env.locs[a[1]][0]
                        return (v if e[1] == "!=" else f"(!{v})", "bool")
                    self.refuse("an iterator is compared with something that is not the end of its table")
        return super().tx(e, env)

    def has_boolcall(self, e, env):
        if not isinstance(e, tuple):
            return False
        if e[0] == "call" and self.token(e, env) in self.T.get("boolcalls", {}):
            return True
        if e[0] == "call" and self.helpers and self.helper_of(e, env) is not None:
            return True
        if e[0] in ("bin", "un", "tern", "cast"):
            return any(self.has_boolcall(x, env) for x in e[1:] if isinstance(x, tuple))
        return False

    def cond(self, e, env, kt, kf):
        """`if (e)` with short-circuit evaluation when `e` contains calls with effects"""
        if e[0] == "bin" and e[1] == "||":
            return self.cond(e[2], env, kt, lambda e2: self.cond(e[3], e2, kt, kf))
        if e[0] == "bin" and e[1] == "&&":
            return self.cond(e[2], env, lambda e2: self.cond(e[3], e2, kt, kf), kf)
        if e[0] == "un" and e[1] == "!":
            return self.cond(e[2], env, kf, kt)
        if e[0] == "call" and self.token(e, env) in self.T.get("boolcalls", {}):
            r, s2 = self.fresh("r"), self.fresh("s")
            text = self.fill(self.T["boolcalls"][self.token(e, env)], e, env)
            env2 = env.copy()
            env2.state = s2
            return self.let(r, text, self.let(s2, f"{r}.1", f"(if {r}.2 then {kt(env2.copy())}\n else {kf(env2.copy())})"))
        if e[0] == "call" and self.helpers and self.helper_of(e, env) is not None:
            # a helper function that returns a boolean and may make calls with effects (`configureClientSocket(socket)`)
            def on_value(back, v):
                if v is None:
                    self.refuse("the value of a void helper function is used as a condition")
                return f"(if {self.as_bool(*v)} then {kt(back.copy())}\n else {kf(back.copy())})"
            return self.inline(e, env, on_value)
        if self.has_boolcall(e, env):
            self.refuse("a call with effects inside an expression that is not a plain && / || / ! condition")
        c, tc = self.tx(e, env)
        return f"(if {self.as_bool(c, tc)} then {kt(env.copy())}\n else {kf(env.copy())})"

    def seq(self, stmts, env, K):
        if stmts and stmts[0][0] == "return" and stmts[0][1] is not None and self.T.get("boolcalls") and self.has_boolcall(stmts[0][1], env):
            return self.cond(stmts[0][1], env, lambda e2: K["ret"](e2, ("true", "bool")), lambda e2: K["ret"](e2, ("false", "bool")))
        if stmts and stmts[0][0] == "if" and self.T.get("boolcalls") and self.has_boolcall(stmts[0][1], env):
            st, rest = stmts[0], stmts[1:]
            Kr = dict(K)
            Kr["next"] = lambda e2: self.seq(rest, e2, K)
            return self.cond(st[1], env, lambda e2: self.seq([st[2]], e2, Kr),
                             lambda e2: self.seq([st[3]] if st[3] is not None else [], e2, Kr))
        return super().seq(stmts, env, K)

    def bind_arg(self, a, env):
        key = self.token(a, env)
        b = self.T.get("binders", {}).get(key)
        if b is not None and b[0] is None and b[1] is None and b[2].startswith("reg:"):
            return (env.state, b[2])
        if a[0] == "name" and a[1] in env.locs and env.locs[a[1]][1].startswith(("reg:", "struct:")):
            return env.locs[a[1]]
        return None

    def as_bool(self, t, ty):
        if ty.startswith("reg:") and ty[4:] in self.T.get("regbool", {}):
            return self.T["regbool"][ty[4:]].format(s=t)
        return super().as_bool(t, ty)

    def decl(self, st, rest, env, K):
        _, tname, ref, var, init = st
        if var in env.locs:
            env.shadowed = getattr(env, "shadowed", set()) | {var}
        if init is None:
            if tname in self.T.get("structs", ()):
                env.locs[var] = (var, "struct:" + tname)
                return self.seq(rest, env, K)
            return super().decl(st, rest, env, K)
        key = self.token(init, env)
        b = self.T.get("binders", {}).get(key)
        if b is not None:
            eff, val, lty = b
            body_env = env
            if lty.startswith("reg:"):
                if eff is None:
                    body_env.locs[var] = (body_env.state, lty)
                    return self.seq(rest, body_env, K)
                s2 = self.fresh("s")
                text = self.fill(eff, init, env)
                body_env.state = s2
                body_env.locs[var] = (s2, lty)
                return self.let(s2, text, self.seq(rest, body_env, K))
            v = self.fresh(var)
            text = self.fill(val, init, env)
            body_env.locs[var] = (v, lty)
            return self.let(v, text, self.seq(rest, body_env, K))
        if ref:
            self.refuse(f"declaration of `{tname} {ref}{var}` from `{key}`")
        return super().decl(st, rest, env, K)

    def tx_reg(self, name, env):
        return env.locs[name]

    def effect(self, e, rest, env, K):
        s = env.state

        def then(text):
            s2 = self.fresh("s")
            env.state = s2
            return self.let(s2, text, self.seq(rest, env, K))
        if e[0] == "assign":
            op, lhs, rhs = e[1], e[2], e[3]
            key = self.token(lhs, env)
            if lhs[0] == "name" and lhs[1] in env.locs and env.locs[lhs[1]][1].startswith("reg:"):
                key = "@" + env.locs[lhs[1]][1][4:]
            if key is not None and key in self.T.get("cells", {}):
                g, st_, cty = self.T["cells"][key]
                t, ty = self.tx(rhs, env)
                cur = g.format(s=s)
                if op == "=":
                    val = self.as_ty(t, ty, cty)
                elif op in ("|=", "&=") and cty in ("pf", "nf"):
                    f = {"pf": {"|=": "Flags.union", "&=": "finter"}, "nf": {"|=": "NBits.union", "&=": "NBits.inter"}}[cty][op]
                    val = f"({f} {cur} {self.as_ty(t, ty, cty)})"
                elif op in ("+=", "-=") and cty == "int" and ty in ("int", "zero"):
                    val = f"({cur} {op[0]} {t})"
                else:
                    self.refuse(f"`{op}` on `{key}`")
                return then(st_.format(s=s, v=val))
            if key is not None and op == "=" and rhs[0] == "call" and (key, self.token(rhs, env)) in self.T.get("assign_call", {}):
                return then(self.fill(self.T["assign_call"][(key, self.token(rhs, env))], rhs, env))
            if key is not None and key in self.T.get("ignored_assign", {}):
                want = self.T["ignored_assign"][key]
                if want is not None and self.token(rhs, env) != want:
                    t, ty = self.tx(rhs, env)
                    if want != "int" or ty not in ("int", "zero"):
                        self.refuse(f"`{key}` is assigned something else than `{want}`")
                return self.seq(rest, env, K)
            if key is not None and key.startswith("$epoll_event."):
                # a field of a local struct (`ev.events = …`): a local of its own
                t, ty = self.tx(rhs, env)
                v = self.fresh("f")
                env.locs[key] = (v, ty)
                return self.let(v, t, self.seq(rest, env, K))
            return super().effect(e, rest, env, K)
        if e[0] == "call":
            key = self.token(e, env)
            if key is not None and key.startswith("VERIFY("):
                return self.verify(e, rest, env, K, then)
            if key in self.T.get("effect", {}):
                return then(self.fill(self.T["effect"][key], e, env))
            if self.helpers and self.helper_of(e, env) is not None:
                return self.inline(e, env, lambda back, v: self.seq(rest, back, K))
            self.refuse(f"unknown call `{key}`")
        return super().effect(e, rest, env, K)

    def verify(self, e, rest, env, K, then):
        """`VERIFY(epoll_ctl(fd, OP, <descriptor>, &ev) == 0);` -> P.epollCtl s OP <mask in ev.events>"""
        a = e[2][0] if len(e[2]) == 1 else None
        if not (a and a[0] == "bin" and a[1] == "==" and a[3] == ("num", 0) and a[2][0] == "call" and a[2][1] == ("name", "epoll_ctl")
                and len(a[2][2]) == 4 and a[2][2][1][0] == "num"):
            self.refuse("VERIFY of something that is not `epoll_ctl(fd, op, s, &ev) == 0`")
        opn = a[2][2][1][1]
        ev = env.locs.get("$epoll_event.events")
        mask = ev[0] if ev and ev[1] == "nf" else "({} : NBits)"
        if opn != 2 and not ev:
            self.refuse("epoll_ctl with an event mask that was not set")
        return then(f"P.epollCtl {env.state} {opn} {mask}")


POLL_TABLES = {
    "argtokens": ("SocketInfo()", "@sock.socket"),
    "structs": ("epoll_event",),
    "iter_end": {"sock": "sockets.end()", "sel": "selectedSockets.end()"},
    "pure": {"&socket.s": ("(P.sockFd {s})", "int"), "mapEvents(_)": ("(mapEvents {a0})", "nf"),
             "selectedSockets.isEmpty()": ("(P.selIsEmpty {s})", "bool")},
    "cells": {"@sock.events": ("(P.sockEvents {s})", "P.setSockEvents {s} {v}", "pf"),
              "@selref": ("(P.selEvents {s})", "P.setSelEvents {s} {v}", "pf"),
              "*%sel": ("(P.selEvents {s})", "P.setSelEvents {s} {v}", "pf"),
              "@sock.s": ("(P.sockFd {s})", "{s}", "int")},
    "ignored_assign": {"@sock.socket": "&&socket", "$epoll_event.data.ptr": "&@sock"},
    "binders": {"sockets.find(&&socket)": (None, "(P.sockFind {s})", "iter:sock"),
                "selectedSockets.find(@sock.socket)": (None, "(P.selFind {s})", "iter:sel"),
                "selectedSockets.find(&&socket)": (None, "(P.selFind {s})", "iter:sel"),
                "*%sock": (None, None, "reg:sock"), "*%sel": (None, None, "reg:selref"),
                "sockets.append(&&socket,SocketInfo())": ("P.sockAppend {s}", None, "reg:sock")},
    "effect": {"selectedSockets.remove(%sel)": "P.selRemove {s}", "selectedSockets.remove(&&socket)": "P.selRemove {s}",
               "sockets.remove(%sock)": "P.sockRemove {s}", "sockets.remove(&&socket)": "P.sockRemove {s}"},
}
TIMER_TABLES = {
    "pure": {"_queuedTimers.begin().key()": ("(P.queueFrontKey {s})", "int"), "@timer.interval": ("(P.timerInterval {s})", "int")},
    "cells": {"@timer.executionTime": ("(P.timerExec {s})", "P.setTimerExec {s} {v}", "int")},
    "binders": {"_queuedTimers.front()": ("P.queueFront {s}", None, "reg:timer")},
    "regbool": {"timer": "(P.curIsUser {s})"},
    "effect": {"_queuedTimers.removeFront()": "P.queueRemoveFront {s}", "_queuedTimers.insert(_,@timer)": "P.queueInsertCur {s} {a0}",
               "_queuedTimers.insert(_,0)": "P.queueInsertDefault {s} {a0}", "@timer.callback.onActivated()": "P.onActivated {s}"},
    "argtokens": ("0",),
}
CLOSING_TABLES = {
    "pure": {"_closingClients.isEmpty()": ("(P.closingIsEmpty {s})", "bool"), "@client._callback": ("(P.hasCallback {s})", "bool"),
             "@client._removed": ("(P.removedFlag {s})", "bool")},
    "binders": {"*_closingClients.front()": ("P.closingFront {s}", None, "reg:client")},
    "effect": {"_closingClients.removeFront()": "P.closingRemoveFront {s}", "@client._callback.onClosed()": "P.onClosed {s}",
               "deleteClient(@client)": "P.deleteClient {s}"},
}


OPT_PURE = {"_keepAlive": ("(P.optKeepAlive {s})", "bool"), "_noDelay": ("(P.optNoDelay {s})", "bool"),
            "_sendBufferSize": ("(P.optSendBuf {s})", "int"), "_receiveBufferSize": ("(P.optRecvBuf {s})", "int"),
            "@client._callback": ("(P.hasCallback {s})", "bool"), "@client._removed": ("(P.removedFlag {s})", "bool")}


def opt_calls(sock):
    return {f"{sock}.setNonBlocking()": "P.setNonBlocking {s}", f"{sock}.setKeepAlive()": "P.setOption {s} 0",
            f"{sock}.setNoDelay()": "P.setOption {s} 1", f"{sock}.setSendBufferSize(_)": "P.setOption {s} 2",
            f"{sock}.setReceiveBufferSize(_)": "P.setOption {s} 3"}


ACCEPT_TABLES = {
    "structs": ("Socket",), "argtokens": ("*this", "$Socket", "*&@client"),
    "pure": dict(OPT_PURE),
    "boolcalls": dict(opt_calls("$Socket"), **{"@listener.accept($Socket,_,_)": "P.accept {s}"}),
    "binders": {"*@event.socket": (None, None, "reg:listener"), "_clients.append(*this)": ("P.newClient {s}", None, "reg:client")},
    "effect": {"@client.swap($Socket)": "P.swapSocket {s}", "_sockets.set(@client,_)": "P.pollSetClient {s} {a0}",
               "deleteClient(@client)": "P.deleteClient {s}"},
    "assign_call": {("@client._callback", "@listener.callback.onAccepted(*&@client,_,_)"): "P.handOver {s}"},
}
CONNECT_TABLES = {
    "argtokens": ("*this", "*&@client"),
    "pure": dict(OPT_PURE),
    "boolcalls": opt_calls("@est"),
    "binders": {"*@event.socket": (None, None, "reg:est"), "_clients.append(*this)": ("P.newClient {s}", None, "reg:client"),
                "@est.getAndResetErrorStatus()": (None, "(P.soError {s})", "int")},
    "effect": {"@client.swap(@est)": "P.swapSocket {s}", "_sockets.set(@client,_)": "P.pollSetClient {s} {a0}",
               "_sockets.remove(@est)": "P.pollRemoveEst {s}", "deleteClient(@client)": "P.deleteClient {s}",
               "@est.callback.onAbolished()": "P.onAbolished {s}", "Error::setLastError(_)": "{s}"},
    "assign_call": {("@client._callback", "@est.callback.onConnected(*&@client)"): "P.handOver {s}"},
}


def tr_handover_branch(fn, body, tables):
    t = GTr(fn, tables, {})
    body = re.sub(r"\.\s*append\s*<[^<>;()]*>\s*\(", ".append(", body)
    for h in HELPERS_PRIVATE.values():
        h["body"] = re.sub(r"\.\s*append\s*<[^<>;()]*>\s*\(", ".append(", h["body"])
    K = {"next": lambda e: e.state, "cont": lambda e: e.state, "ret": lambda e, v: t.refuse("return inside the branch")}
    return t.seq(parse_body(body, fn), Env(), K)


def tr_poll_fn(fn, params, body, nparams):
    names = param_names(params, fn, nparams)
    pm = {names[0]: ("key", "&socket")}
    if nparams == 2:
        pm[names[1]] = ("p1", "pf")
    t = GTr(fn, POLL_TABLES, pm)
    K = {"next": lambda e: e.state, "ret": lambda e, v: e.state if v is None else t.refuse("value returned from a void function")}
    return t.seq(parse_body(fold_verify(body), fn), Env(), K)


def split_header(h):
    parts, depth, cur = [], 0, ""
    for ch in h:
        if ch in "([":
            depth += 1
        elif ch in ")]":
            depth -= 1
        if ch == ";" and depth == 0:
            parts.append(cur)
            cur = ""
        else:
            cur += ch
    return parts + [cur]


def loop_iteration(fn, text, kw, tables, params, pre_text=""):
    """one iteration of the first `for` / `while` loop in `text`, as statements: [declarations before the loop] [if (!cond)
    break;] body — falling out of the body or `continue` = the loop goes round (true), `break` = it is left (false).
    `for (; c; x = e)` is only accepted when `T x = e;` with the same `e` stands right before the loop (so that the value of `x`
    at the loop head is a function of the state)."""
    m = re.search(r"\b" + kw + r"\s*\(", text)
    if not m:
        raise Refuse(f"{fn}: no `{kw}` loop found")
    hend = balanced(text, m.end() - 1, "(", ")")
    header = text[m.end():hend - 1]
    k = hend
    while text[k].isspace():
        k += 1
    if text[k] != "{":
        raise Refuse(f"{fn}: loop body is not a block")
    bend = balanced(text, k)
    body = parse_body(text[k + 1:bend - 1], fn)
    pre = parse_body(pre_text, fn) if pre_text.strip() else []
    if kw == "while":
        cond = Parser(tokenize(header), fn).expr()
        stmts = pre + [("if", ("un", "!", cond), ("break",), None)] + body
    else:
        parts = split_header(header)
        if len(parts) != 3:
            raise Refuse(f"{fn}: for header")
        init, cond, inc = [x.strip() for x in parts]
        if init:
            raise Refuse(f"{fn}: for loop with an init statement")
        stmts = list(pre)
        if cond:
            stmts.append(("if", ("un", "!", Parser(tokenize(cond), fn).expr()), ("break",), None))
        stmts += body
        if inc:
            ie = Parser(tokenize(inc), fn).expr()
            ok = ie[0] == "assign" and ie[1] == "=" and any(d[0] == "decl" and ("name", d[3]) == ie[2] and d[4] == ie[3] for d in pre)
            if not ok:
                raise Refuse(f"{fn}: the increment of the for loop is not the re-computation of a variable initialised right before the loop")
    t = GTr(fn, tables, params)
    K = {"next": lambda e: f"({e.state}, true)", "cont": lambda e: f"({e.state}, true)", "brk": lambda e: f"({e.state}, false)",
         "ret": lambda e, v: t.refuse("return inside the loop")}
    return t.seq(stmts, Env(), K), (m.start(), bend)


# ---- the translated units -------------------------------------------------------------------------------------------
def outs_text(env, names):
    return "".join(f", {env.outs.get(n, '(none : Option Int)')}" for n in names)


HELPERS = {}
HELPERS_PRIVATE = {}
EVENT_NAMES = {"pollEvent"}
SYS_HELPERS = {}
CONSTS = {}


def collect_helpers(src, qual_rx, member, exclude=()):
    out = {}
    for m in re.finditer(r"[\w>\*&]\s+" + qual_rx + r"(\w+)\s*\(", src):
        name = m.group(1)
        if name in exclude or name in out:
            continue
        try:
            params, body = extract(src, name, r"[\w>\*&]\s+" + qual_rx + name)
        except Refuse:
            continue      # overloaded (remove) or only declared
        out[name] = {"params": params, "body": body, "member": member}
    return out


def tr_client_void(fn, body, self_names=()):
    t = Tr(fn, "client", self_names)
    t.helpers = HELPERS
    K = {"next": lambda e: e.state, "ret": lambda e, v: e.state if v is None else t.refuse("value returned from a void function")}
    return t.seq(parse_body(body, fn), Env(), K)


def tr_branch(fn, body):
    """a branch of the dispatch chain of run(): ends with `continue` or by falling out of the chain (the loop goes round)"""
    t = Tr(fn, "client")
    t.helpers = HELPERS
    K = {"next": lambda e: e.state, "cont": lambda e: e.state, "ret": lambda e, v: t.refuse("return inside the branch")}
    return t.seq(parse_body(body, fn), Env(), K)


def tr_write(fn, params, body):
    data, size, postponed = param_names(params, fn, 3)
    t = Tr(fn, "client", data=data, outptr=postponed)
    t.helpers = HELPERS
    env = Env({size: ("size", "int")})

    def ret(e, v):
        if v is None:
            t.refuse("return without value")
        return f"({e.state}, {t.as_bool(*v)}{outs_text(e, [postponed])})"
    K = {"next": lambda e: t.refuse("control reaches the end of a non-void function"), "ret": ret}
    return t.seq(parse_body(body, fn), env, K), postponed


def tr_read(fn, params, body):
    buf, maxsize, size = param_names(params, fn, 3)
    t = Tr(fn, "client", data=buf, outref=size)
    t.helpers = HELPERS
    env = Env({maxsize: ("maxSize", "int")})

    def ret(e, v):
        if v is None:
            t.refuse("return without value")
        return f"({e.state}, {t.as_bool(*v)}{outs_text(e, [size])})"
    K = {"next": lambda e: t.refuse("control reaches the end of a non-void function"), "ret": ret}
    return t.seq(parse_body(body, fn), env, K)


def tr_sys(fn, params, body, nparams, first_switch_only=False):
    names = param_names(params, fn, nparams)
    t = Tr(fn, "sys", data=names[0])
    t.helpers = SYS_HELPERS
    env = Env({names[1]: ("size", "int")})
    if first_switch_only:
        # Socket::recv(data, maxSize, minSize): the part up to and including the first switch; what follows (`if((usize)r >=
        # minSize) return r;` and the loop that waits for minSize bytes) is not translated: Server calls recv with minSize = 0
        m = re.search(r"\bswitch\b", body)
        if not m:
            t.refuse("no switch found")
        body = body[:balanced(body, body.index("{", m.end()))]
    st = parse_body(body, fn)
    if first_switch_only:
        idx = [i for i, x in enumerate(st) if x[0] == "switch"]
        if not idx:
            t.refuse("no switch found")
        st = st[: idx[0] + 1]
        last = [v for v in st if v[0] == "decl"]
        if len(last) != 1:
            t.refuse("expected exactly one declaration before the switch")
        var = last[0][3]
        K = {"next": lambda e: f"({e.state}, {e.locs[var][0]})", "ret": lambda e, v: f"({e.state}, {v[0]})"}
    else:
        K = {"next": lambda e: t.refuse("control reaches the end of a non-void function"),
             "ret": lambda e, v: f"({e.state}, {v[0]})" if v and v[1] in ("int", "zero") else t.refuse("non-integer result")}
    return t.seq(st, env, K)


def tr_bits(fn, params, body, ptypes, rtype):
    names = param_names(params, fn, len(ptypes))
    t = Tr(fn, "bits")
    env = Env({n: (f"p{i}", ty) for i, (n, ty) in enumerate(zip(names, ptypes))})
    st = parse_body(body, fn)
    # locals initialised with 0 are flag sets of the function's domain: their type is the result type when they are returned,
    # else the type of the first flag constant assigned
    orig_decl = t.decl

    def decl(s, rest, e, K):
        if s[4] == ("num", 0) and not s[2]:
            v = t.fresh(s[3])
            ty = rtype
            e.locs[s[3]] = (v, ty)
            return t.let(v, t.as_ty("(0 : Int)", "zero", ty), t.seq(rest, e, K))
        return orig_decl(s, rest, e, K)
    t.decl = decl
    K = {"next": lambda e: t.refuse("control reaches the end of a non-void function"),
         "ret": lambda e, v: t.as_ty(v[0], v[1], rtype)}
    return t.seq(st, env, K)


def enum_values(src, names):
    vals = {}
    for n in names:
        ms = set(re.findall(r"\b" + n + r"\s*=\s*(0[xX][0-9a-fA-F]+|\d+)\s*[,}]", src))
        if len(ms) != 1:
            raise Refuse(f"value of {n}: {len(ms)} definitions")
        vals[n] = int(ms.pop(), 0)
    return vals


def check_single_bits(vals, what):
    seen = set()
    for n, v in vals.items():
        if v <= 0 or v & (v - 1) or v in seen:
            raise Refuse(f"{what}: {n} = {v} is not a distinct single bit")
        seen.add(v)


def errno_values():
    p = subprocess.run(["g++", "-E", "-P", "-x", "c++", "-"], input="#include <errno.h>\nVALUES EAGAIN EWOULDBLOCK\n",
                       stdout=subprocess.PIPE, stderr=subprocess.PIPE, text=True)
    m = re.search(r"VALUES\s+(\d+)\s+(\d+)", p.stdout)
    if p.returncode != 0 or not m:
        raise Refuse("cannot determine EAGAIN / EWOULDBLOCK")
    return {"EAGAIN": int(m.group(1)), "EWOULDBLOCK": int(m.group(2))}


def dispatch_chain(run_body):
    """the flag tests of the dispatch chain of run(), in program order, with the text of each branch"""
    rx = re.compile(r"(else\s+)?if\s*\(\s*(\w+)\s*\.\s*flags\s*&\s*(?:Socket\s*::\s*)?(?:Poll\s*::\s*)?(\w+Flag)\s*\)")
    ms = list(rx.finditer(run_body))
    if not ms:
        raise Refuse("run(): no dispatch chain found")
    evname = ms[0].group(2)
    if any(m.group(2) != evname for m in ms):
        raise Refuse("run(): the dispatch chain tests two different events")
    order, bodies = [], {}
    pos_end = None
    for j, m in enumerate(ms):
        if (j == 0) != (m.group(1) is None):
            raise Refuse("run(): the dispatch tests do not form one if / else-if chain")
        if pos_end is not None and run_body[pos_end:m.start()].strip() != "":
            raise Refuse("run(): code between two branches of the dispatch chain")
        k = m.end()
        while run_body[k].isspace():
            k += 1
        if run_body[k] == "{":
            end = balanced(run_body, k)
            text = run_body[k + 1:end - 1]
        else:
            end = run_body.index(";", k) + 1
            text = run_body[k:end]
        if m.group(3) in bodies:
            raise Refuse(f"run(): {m.group(3)} is tested twice")
        order.append(m.group(3))
        bodies[m.group(3)] = text
        pos_end = end
    tail = run_body[pos_end:].strip()
    if tail.startswith("else"):
        raise Refuse("run(): the dispatch chain has a final else")
    return order, bodies, evname


def generate(repo, out_path):
    """writes out_path (only when the content changes); returns a one-line summary; raises Refuse"""
    repo = Path(repo)
    srv = preprocess(repo, "src/Socket/Server.cpp")
    sock = preprocess(repo, "src/Socket/Socket.cpp")
    pfv = enum_values(sock, list(PF))
    nfv = enum_values(sock, list(NF))
    check_single_bits(pfv, "Socket::Poll::Flag")
    check_single_bits(nfv, "EPOLL_EVENTS")
    C = r"Server\s*::\s*Private\s*::\s*ClientImpl\s*::\s*"
    defs = []
    HELPERS.clear(); HELPERS_PRIVATE.clear(); SYS_HELPERS.clear(); CONSTS.clear()
    P_ = r"Server\s*::\s*Private\s*::\s*"
    HELPERS.update(collect_helpers(srv, C, True, exclude=("suspend", "resume", "write", "read", "ClientImpl")))
    priv = collect_helpers(srv, P_ + r"(?!ClientImpl\b)", False, exclude=("run", "Private", "clear", "interrupt", "resolve", "listen", "connect", "pair", "time"))
    for n, h in priv.items():
        if n not in HELPERS:
            HELPERS[n] = h
    HELPERS_PRIVATE.update(priv)
    for m in re.finditer(r"\bstatic\s+(?:bool|int|void)\s+(\w+)\s*\(\s*\)\s*\{", sock):
        try:
            pr, bd = extract(sock, m.group(1), r"\bstatic\s+(?:bool|int|void)\s+" + m.group(1))
            SYS_HELPERS[m.group(1)] = {"params": pr, "body": bd, "member": False}
        except Refuse:
            pass
    for m in re.finditer(r"\bstatic\s+const\s+(?:int64|int|uint|usize|int32|uint32)\s+(\w+)\s*=\s*([^;{}]+);", srv):
        try:
            CONSTS[m.group(1)] = Parser(tokenize(m.group(2)), m.group(1)).expr()
        except Refuse:
            pass
    _, b = extract(srv, "ClientImpl::suspend", r"void\s+" + C + "suspend")
    defs.append(("suspend", "{σ : Type} (P : ClientPrims σ) (opq : Nat → Int) (s0 : σ) : σ", tr_client_void("ClientImpl::suspend", b)))
    _, b = extract(srv, "ClientImpl::resume", r"void\s+" + C + "resume")
    defs.append(("resume", "{σ : Type} (P : ClientPrims σ) (opq : Nat → Int) (s0 : σ) : σ", tr_client_void("ClientImpl::resume", b)))
    p, b = extract(srv, "ClientImpl::write", r"bool\s+" + C + "write")
    text, pp = tr_write("ClientImpl::write", p, b)
    defs.append(("write", f"{{σ : Type}} (P : ClientPrims σ) (opq : Nat → Int) (size : Int) ({pp}NonNull : Bool) (s0 : σ) : σ × Bool × Option Int", text))
    p, b = extract(srv, "ClientImpl::read", r"bool\s+" + C + "read")
    defs.append(("read", "{σ : Type} (P : ClientPrims σ) (opq : Nat → Int) (maxSize : Int) (s0 : σ) : σ × Bool × Option Int", tr_read("ClientImpl::read", p, b)))
    _, runb = extract(srv, "Server::Private::run", r"void\s+Server\s*::\s*Private\s*::\s*run")
    try:
        order, bodies, evname = dispatch_chain(runb)
    except Refuse:
        # the chain may live in a function that run() calls (`dispatch(pollEvent)`)
        found = [h["body"] for n, h in HELPERS_PRIVATE.items() if re.search(r"\.\s*flags\s*&\s*(?:Socket\s*::\s*)?(?:Poll\s*::\s*)?readFlag", h["body"])]
        called = [n for n, h in HELPERS_PRIVATE.items() if re.search(r"\.\s*flags\s*&\s*(?:Socket\s*::\s*)?(?:Poll\s*::\s*)?readFlag", h["body"])
                  and re.search(r"\b" + n + r"\s*\(\s*pollEvent\s*\)\s*;", runb)]
        if len(called) != 1:
            raise
        order, bodies, evname = dispatch_chain(HELPERS_PRIVATE[called[0]]["body"])
    EVENT_NAMES.clear(); EVENT_NAMES.add(evname)
    for want in ("readFlag", "writeFlag"):
        if want not in bodies:
            raise Refuse(f"run(): no branch for {want}")
    defs.append(("readBranch", "{σ : Type} (P : ClientPrims σ) (opq : Nat → Int) (flags : Flags) (s0 : σ) : σ", tr_branch("run(): read branch", bodies["readFlag"])))
    defs.append(("writeBranch", "{σ : Type} (P : ClientPrims σ) (opq : Nat → Int) (flags : Flags) (s0 : σ) : σ", tr_branch("run(): write-ready branch", bodies["writeFlag"])))
    for o in order:
        if o not in PF:
            raise Refuse(f"run(): unknown flag {o} in the dispatch chain")
    p, b = extract(sock, "Socket::send", r"ssize\s+Socket\s*::\s*send")
    defs.append(("socketSend", "{σ : Type} (P : SysPrims σ) (size : Int) (s0 : σ) : σ × Int", tr_sys("Socket::send", p, b, 2)))
    p, b = extract(sock, "Socket::recv", r"ssize\s+Socket\s*::\s*recv")
    defs.append(("socketRecv", "{σ : Type} (P : SysPrims σ) (size : Int) (s0 : σ) : σ × Int", tr_sys("Socket::recv", p, b, 3, first_switch_only=True)))
    M = r"Socket\s*::\s*Poll\s*::\s*Private\s*::\s*"
    p, b = extract(sock, "Poll::Private::mapEvents", r"uint32\s+" + M + "mapEvents")
    defs.append(("mapEvents", "(p0 : Flags) : NBits", tr_bits("mapEvents", p, b, ["pf"], "nf")))
    p, b = extract(sock, "Poll::Private::unmapEvents", r"uint\s+" + M + "unmapEvents")
    defs.append(("unmapEvents", "(p0 : NBits) (p1 : Flags) : Flags", tr_bits("unmapEvents", p, b, ["nf", "pf"], "pf")))
    p, b = extract(sock, "Poll::Private::set", r"void\s+" + M + "set")
    defs.append(("pollSet", "{σ : Type} (P : PollPrims σ) (p1 : Flags) (s0 : σ) : σ", tr_poll_fn("Poll::Private::set", p, b, 2)))
    p, b = extract(sock, "Poll::Private::remove", r"void\s+" + M + "remove")
    defs.append(("pollRemove", "{σ : Type} (P : PollPrims σ) (s0 : σ) : σ", tr_poll_fn("Poll::Private::remove", p, b, 1)))
    # the timer loop and the closing loop of run(): one iteration each
    mnow = re.search(r"int64\s+(\w+)\s*=\s*Time\s*::\s*ticks\s*\(\s*\)\s*;", runb)
    if not mnow:
        raise Refuse("run(): `int64 now = Time::ticks();` not found")
    after_now = runb[mnow.end():]
    mfor = re.search(r"\bfor\s*\(", after_now)
    mwh = re.search(r"\bwhile\s*\(", after_now)
    if not mfor or not mwh or mwh.start() < mfor.start():
        raise Refuse("run(): timer loop (for) followed by the closing loop (while) not found")
    pre = after_now[:mfor.start()]
    text, (a0, a1) = loop_iteration("run(): timer loop", after_now, "for", TIMER_TABLES, {mnow.group(1): ("now", "int")}, pre)
    defs.append(("timerIter", "{σ : Type} (P : TimerPrims σ) (now : Int) (s0 : σ) : σ × Bool", text))
    between = after_now[a1:mwh.start()]
    if between.strip():
        raise Refuse("run(): code between the timer loop and the closing loop")
    text, _ = loop_iteration("run(): closing loop", after_now[a1:], "while", CLOSING_TABLES, {})
    defs.append(("closingIter", "{σ : Type} (P : ClosingPrims σ) (s0 : σ) : σ × Bool", text))
    for want in ("acceptFlag", "connectFlag"):
        if want not in bodies:
            raise Refuse(f"run(): no branch for {want}")
    hand = [("acceptBranch", "{σ : Type} (P : HandOverPrims σ) (s0 : σ) : σ", tr_handover_branch("run(): accept branch", bodies["acceptFlag"], ACCEPT_TABLES)),
            ("connectBranch", "{σ : Type} (P : HandOverPrims σ) (s0 : σ) : σ", tr_handover_branch("run(): connect branch", bodies["connectFlag"], CONNECT_TABLES))]
    hparts = ["/- generated by tools/gen_server.py from src/Socket/Server.cpp (after g++ -E): the accept and connect branches of the dispatch chain of run() - do not edit -/",
              "import Nstd.Server.TrHand", "", "set_option linter.unusedVariables false", "",
              "namespace Nstd.Generated.ServerTrHand", "open Nstd.Server.Tr", "open Nstd.Server.C14 (Flags)", ""]
    for name, sig, text in hand:
        hparts += [f"def {name} {sig} :=", " " + text, ""]
    hparts += ["end Nstd.Generated.ServerTrHand", ""]
    htext = "\n".join(hparts)
    hpath = Path(out_path).parent / "ServerTrHand.lean"
    if not hpath.exists() or hpath.read_text() != htext:
        hpath.write_text(htext)
    parts = ["/- generated by tools/gen_server.py from src/Socket/Server.cpp and src/Socket/Socket.cpp (after g++ -E) - do not edit -/",
             "import Nstd.Server.TrRt", "", "set_option linter.unusedVariables false", "",
             "namespace Nstd.Generated.ServerTr", "open Nstd.Server.Tr", "open Nstd.Server.C14 (Flags)", ""]
    for name, sig, text in defs:
        parts += [f"def {name} {sig} :=", " " + text, ""]
    ev = errno_values()
    parts += ["/-- EAGAIN / EWOULDBLOCK of this platform (`g++ -E` of <errno.h>) -/",
              f"def eAgain : Int := {ev['EAGAIN']}", f"def eWouldBlock : Int := {ev['EWOULDBLOCK']}", ""]
    parts += ["/-- the flag tests of the dispatch chain of `Server::Private::run`, in program order -/",
              "def dispatchOrder : List String := [" + ", ".join(f'"{PF[o]}"' for o in order) + "]", "",
              "/-- values of the flag constants (each checked to be a distinct single bit) -/",
              "def pollFlagValues : List (String × Nat) := [" + ", ".join(f'("{PF[n]}", {v})' for n, v in pfv.items()) + "]",
              "def nativeFlagValues : List (String × Nat) := [" + ", ".join(f'("{NF[n]}", {v})' for n, v in nfv.items()) + "]", "",
              "end Nstd.Generated.ServerTr", ""]
    text = "\n".join(parts)
    out_path = Path(out_path)
    out_path.parent.mkdir(parents=True, exist_ok=True)
    if not out_path.exists() or out_path.read_text() != text:
        out_path.write_text(text)
    defs = defs + hand
    return (f"{len(defs)} bodies translated ({', '.join(d[0] for d in defs)}); dispatch order {'/'.join(order)}; "
            f"flag values {pfv} {nfv}")


if __name__ == "__main__":
    repo = sys.argv[1] if len(sys.argv) > 1 else "/repo"
    out = sys.argv[2] if len(sys.argv) > 2 else str(Path(__file__).resolve().parent.parent / "lean/Nstd/Generated/ServerTr.lean")
    try:
        print(generate(repo, out))
    except Refuse as e:
        print("REFUSED:", e)
        sys.exit(1)
