#!/usr/bin/env python3
"""Harmless-change experiment: import /tmp/harm-<Cxx>/harm_<i>/ into /verif/harmless/<Cxx>-h<i>/, confirm the
repository's own tests pass with the change (scratch worktree), then apply it to /repo, run the property's quick
check (must stay quiet), restore /repo.  A VIOLATION here is either a broken tie on an internal detail
(`no-failing-input-found`: expected for internal-policy changes the model mirrors) or a false alarm to be corrected.

  harmtest.py import [--round 2] <Cxx> ...  (round 2: /tmp/harm2-<Cxx>-out/harm_<i> -> <Cxx>-h<3+i>)
  harmtest.py run [<id> ...] [--tier quick|thorough]
"""
import fcntl
import json
import shutil
import subprocess
import sys
import tempfile
import time
from pathlib import Path

VERIF = Path(__file__).resolve().parents[1]
H = VERIF / "harmless"
import os
REPO = os.environ.get("NSTD_REPO", "/repo")   # a scratch worktree/snapshot when set; /repo otherwise


def sh(cmd, cwd=None, timeout=3600):
    p = subprocess.run(cmd, cwd=cwd, shell=isinstance(cmd, str), stdout=subprocess.PIPE, stderr=subprocess.STDOUT, text=True, errors="replace", timeout=timeout)
    return p.returncode, p.stdout


def do_import(props, rnd=1):
    for p in props:
        for i in (1, 2, 3):
            src = Path(f"/tmp/harm-{p}/harm_{i}") if rnd == 1 else Path(f"/tmp/harm{rnd}-{p}-out/harm_{i}")
            hid = f"{p}-h{i + 3 * (rnd - 1)}"
            if not (src / "patch.diff").exists():
                print(f"{p}-h{i}: no patch")
                continue
            tmp = Path(tempfile.mkdtemp(prefix="harm-", dir="/tmp"))
            wt = tmp / "wt"
            sh(["git", "-C", "/repo", "worktree", "add", "--detach", str(wt), "HEAD"])
            try:
                rc, o = sh(["git", "-C", str(wt), "apply", str(src / "patch.diff")])
                ok = rc == 0
                tests = False
                if ok:
                    rc, o = sh(f"cmake -G Ninja -S {wt} -B {tmp}/b -DCMAKE_BUILD_TYPE=Debug >/dev/null && cmake --build {tmp}/b -j16 2>&1 | tail -2 && ctest --test-dir {tmp}/b -j8 --timeout 900 2>&1 | tail -3")
                    tests = "100% tests passed" in o
            finally:
                sh(["git", "-C", "/repo", "worktree", "remove", "--force", str(wt)])
                shutil.rmtree(tmp, ignore_errors=True)
            if ok and tests:
                d = H / hid
                d.mkdir(parents=True, exist_ok=True)
                shutil.copy(src / "patch.diff", d / "patch.diff")
                meta = json.loads((src / "meta.json").read_text()) if (src / "meta.json").exists() else {"property": p}
                meta["property"] = p
                meta["origin"] = "independent sub-agent given only the property text; asked for a change that keeps the property true"
                meta["tests_pass_with_change"] = True
                (d / "meta.json").write_text(json.dumps(meta, indent=1) + "\n")
                print(f"{hid}: imported")
            else:
                print(f"{hid}: NOT imported (applies={ok} tests={tests})")


def do_run(ids, tier):
    lock = open("/tmp/nstd-seedtest" + REPO.replace("/", "_") + ".lock", "w")
    fcntl.flock(lock, fcntl.LOCK_EX)
    ids = ids or sorted(d.name for d in H.iterdir() if (d / "patch.diff").exists())
    dirty = sh(["git", "-C", REPO, "status", "--porcelain", "--untracked-files=no"])[1].strip()
    if dirty:
        print("refusing: /repo dirty\n" + dirty)
        return
    for hid in ids:
        d = H / hid
        meta = json.loads((d / "meta.json").read_text())
        p = meta["property"]
        rc, o = sh(["git", "-C", REPO, "apply", str(d / "patch.diff")])
        if rc != 0:
            print(f"{hid}: patch does not apply")
            sh(["git", "-C", REPO, "checkout", "HEAD", "--", "."])
            continue
        ev = VERIF / "evidence" / f"{p}.json"
        saved = ev.read_bytes() if ev.exists() else None
        try:
            t = time.time()
            rc, o = sh(["python3", "tools/check.py", "--property", p, "--tier", tier], cwd=VERIF)
            viol = [l for l in o.splitlines() if l.startswith("VIOLATION")]
            res = {"at": time.strftime("%Y-%m-%dT%H:%M:%SZ", time.gmtime()), "tier": tier, "exit": rc, "violations": viol[:4],
                   "wall_s": round(time.time() - t, 1),
                   "outcome": "quiet" if rc == 0 else ("broken-tie-no-failing-input" if viol and all("no-failing-input-found" in v for v in viol) else "ALARM-with-failing-input")}
            if viol:
                rp = viol[0].split("replay=")[1].split()[0]
                try:
                    (d / f"replay-{tier}.txt").write_text(Path(rp).read_text()[:20000])
                except OSError:
                    pass
        finally:
            sh(["git", "-C", REPO, "checkout", "HEAD", "--", "."])
            if saved is not None:               # evidence files describe runs on the unchanged tree only
                ev.write_bytes(saved)
        old = json.loads((d / "result.json").read_text()) if (d / "result.json").exists() else {"runs": []}
        old["runs"].append(res)
        old["last_outcome"] = res["outcome"]
        (d / "result.json").write_text(json.dumps(old, indent=1) + "\n")
        print(f"{hid}: {res['outcome']} ({meta.get('kind', '?')})", flush=True)


if __name__ == "__main__":
    if sys.argv[1] == "import":
        a = sys.argv[2:]
        rnd = 1
        if "--round" in a:
            rnd = int(a[a.index("--round") + 1])
            a = [x for x in a if x not in ("--round", str(rnd))]
        do_import(a, rnd)
    else:
        tier = "quick"
        a = sys.argv[2:]
        if "--tier" in a:
            tier = a[a.index("--tier") + 1]
            a = [x for x in a if x not in ("--tier", tier)]
        do_run(a, tier)
