#!/usr/bin/env python3
"""Translator for the element-lifetime code of Array.hpp (properties C04 / C05, area Life).

Extracts from the CURRENT header include/nstd/Array.hpp the bodies of
    Array()  Array(usize)  Array(const Array&)  ~Array()  operator=  reserve(usize)  reserve(usize, const T*)  resize  clear  swap
    append(const T&)  append(const Array&)  append(const T*, usize)  remove(usize)  remove(const Iterator&)  removeFront  removeBack
    size()  capacity()
(tokenizer + recursive-descent parser for the C++ subset these bodies are written in) and writes them, statement by statement,
as Lean functions over the pointer machine of lean/Nstd/Life/ArrPtr.lean (`AP.Ptr`, `AP.Hdr`, `AP.PS`) into
lean/Nstd/Generated/LifeArray.lean.  lean/Nstd/Life/PropsArrTr.lean proves that the generated functions compute exactly what the
hand-written slot-level model (`compile` + `exec` of Nstd/Life/Model.lean) computes - memory, block table, event log, header -
on every state that represents a model state.

Anything outside the understood subset is REFUSED (exception -> the check reports a broken tie).

Semantics of the translation (assumptions, listed in the MANIFEST note):
  T* / const T* / Iterator (its only member `item`)  -> AP.Ptr (null | heap block index | object of the caller)
  usize                                              -> Nat (no wrap-around: sizes stay far below 2^64)
  Array& parameters and `this`                        -> index of an Array object in `PS.hd`; two references alias iff the indices are equal
  const T& value                                     -> the pointer `&value` (AP.Ptr)
  `new(d) T(*s)` `p->~T()` `*d = *s` `delete[] (char*)p` `(T*)new char[<byte size of n elements>]`
                                                     -> PS.construct / destroy / assignObj / deleteBlock / newBlock n
        (<byte size of n elements> is `sizeof(T) * n` or the saturating form `n > (usize)-1 / sizeof(T) ? (usize)-1 : sizeof(T) * n`;
         allocation never fails)
  `#ifdef VERIFY  VERIFY(X == y);  #else  X;  #endif`  -> X   (both branches must agree up to the VERIFY wrapper)
  loops                                              -> one recursive Lean function per loop with a fuel argument (`none` when it runs out;
                                                        the theorems show which fuel suffices)
  a statement that is undefined for its operands (null dereference, difference of pointers into different blocks ...) -> `none`
  the VALUE returned by functions of type Iterator / T& / Array& is dropped (it has no lifetime effect); its expression must be free
  of side effects, or a call (`return remove(_begin);`), which is executed
  an `Iterator` argument is passed by value (`remove(_begin)`: the callee reads `it.item` before it modifies anything)
  `*d = *(++s)`: right operand first (C++17; the older rule gives the same result because `++s` does not change `d`)
"""
import re
import sys
from pathlib import Path


class Refuse(Exception):
    pass


def strip_comments(src):
    src = re.sub(r"/\*.*?\*/", " ", src, flags=re.S)
    return re.sub(r"//[^\n]*", "", src)


TOK = re.compile(r"\s*(->|==|!=|<=|>=|&&|\|\||\+\+|--|\|=|\+=|-=|0x[0-9a-fA-F]+|[A-Za-z_]\w*|\d+|[{}()\[\];,<>=+\-*/!?:&.~|^%])")


def tokenize(text, what):
    toks, pos = [], 0
    text = text.rstrip()
    while pos < len(text):
        m = TOK.match(text, pos)
        if not m:
            if text[pos:].strip() == "":
                break
            raise Refuse(f"{what}: cannot tokenize at {text[pos:pos + 30]!r}")
        toks.append(m.group(1))
        pos = m.end()
    return toks


def balanced(src, start):
    depth = 0
    for i in range(start, len(src)):
        if src[i] == "{":
            depth += 1
        elif src[i] == "}":
            depth -= 1
            if depth == 0:
                return i + 1
    raise Refuse("unbalanced braces")


def resolve_verify(body, what):
    """`#ifdef VERIFY A #else B #endif` -> B, after checking that A is B wrapped as VERIFY(B' == x);"""
    def norm(s):
        return re.sub(r"\s+", "", s)

    def repl(m):
        a, b = norm(m.group(1)), norm(m.group(2))
        mm = re.fullmatch(r"VERIFY\((.*)==(\w+)\);", a)
        if not mm or mm.group(1) + ";" != b:
            raise Refuse(f"{what}: the VERIFY branch `{a}` is not the other branch `{b}` wrapped in VERIFY(... == x)")
        return m.group(2)
    body = re.sub(r"#\s*ifdef\s+VERIFY\b(.*?)#\s*else\b(.*?)#\s*endif", repl, body, flags=re.S)
    if "#" in body:
        raise Refuse(f"{what}: preprocessor directive outside the understood VERIFY form")
    return body


IDENT = re.compile(r"[A-Za-z_]\w*$")
TYPEWORDS = ("T", "char", "usize", "const", "Array")


# ---- parser ------------------------------------------------------------------------------------------------------------
class P:
    def __init__(self, toks, fn):
        self.t, self.i, self.fn = toks, 0, fn

    def peek(self, k=0):
        return self.t[self.i + k] if self.i + k < len(self.t) else None

    def eat(self, x=None):
        tok = self.peek()
        if tok is None or (x is not None and tok != x):
            raise Refuse(f"{self.fn}: expected {x!r}, found {tok!r}")
        self.i += 1
        return tok

    # --- statements
    def stmts(self):
        out = []
        while self.peek() is not None and self.peek() != "}":
            out.append(self.stmt())
        return out

    def is_decl(self):
        j = self.i
        if self.t[j] == "const":
            j += 1
        if j < len(self.t) and self.t[j] in ("T", "usize", "bool"):
            nxt = self.t[j + 1] if j + 1 < len(self.t) else None
            return nxt == "*" or (nxt is not None and IDENT.match(nxt) and nxt not in TYPEWORDS)
        return False

    def decl(self):
        const = False
        if self.peek() == "const":
            self.eat(); const = True
        base = self.eat()
        ds = []
        while True:
            ptr = False
            if self.peek() == "*":
                self.eat("*"); ptr = True
            name = self.eat()
            if not IDENT.match(name) or name in TYPEWORDS:
                raise Refuse(f"{self.fn}: declarator `{name}`")
            if base == "T" and not ptr:
                raise Refuse(f"{self.fn}: a local object of type T (`{name}`) is outside the translated subset")
            if base in ("usize", "bool") and ptr:
                raise Refuse(f"{self.fn}: `{base}* {name}`")
            init = None
            if self.peek() == "=":
                self.eat("=")
                init = self.assignment()
            ds.append(("ptr" if ptr else ("bool" if base == "bool" else "nat"), name, init))
            if self.peek() == ",":
                self.eat(",")
                continue
            break
        return ("decl", ds)

    def stmt(self):
        tok = self.peek()
        if tok == "{":
            self.eat("{")
            b = self.stmts()
            self.eat("}")
            return ("block", b)
        if tok == "if":
            self.eat("if"); self.eat("(")
            c = self.expr()
            self.eat(")")
            a = self.stmt()
            b = ("block", [])
            if self.peek() == "else":
                self.eat("else")
                b = self.stmt()
            return ("if", c, a, b)
        if tok == "for":
            self.eat("for"); self.eat("(")
            init = None
            if self.peek() != ";":
                init = self.decl() if self.is_decl() else ("expr", self.expr())
            self.eat(";")
            cond = None if self.peek() == ";" else self.expr()
            self.eat(";")
            inc = []
            if self.peek() != ")":
                inc.append(self.assignment())
                while self.peek() == ",":
                    self.eat(",")
                    inc.append(self.assignment())
            self.eat(")")
            if self.peek() == ";":
                self.eat(";")
                body = ("block", [])
            else:
                body = self.stmt()
            return ("for", init, cond, inc, body)
        if tok == "return":
            self.eat("return")
            e = None if self.peek() == ";" else self.expr()
            self.eat(";")
            return ("return", e)
        if tok == "delete":
            self.eat("delete"); self.eat("["); self.eat("]")
            e = self.expr()
            self.eat(";")
            return ("delete", e)
        if tok in ("int", "uint", "char", "static", "Iterator", "Array", "auto"):
            raise Refuse(f"{self.fn}: a local declaration of type `{tok}` is outside the translated subset (locals are T*, const T*, usize)")
        if tok in ("while", "do", "switch", "goto", "break", "continue", "try", "throw"):
            raise Refuse(f"{self.fn}: statement `{tok}` is outside the translated subset")
        if self.is_decl():
            d = self.decl()
            self.eat(";")
            return d
        e = self.expr()
        self.eat(";")
        return ("expr", e)

    # --- expressions
    def expr(self):
        e = self.assignment()
        if self.peek() == ",":
            raise Refuse(f"{self.fn}: comma expression outside a for-increment")
        return e

    def assignment(self):
        lhs = self.ternary()
        if self.peek() in ("=", "|="):
            op = self.eat()
            return ("assign", op, lhs, self.assignment())
        if self.peek() in ("+=", "-="):
            raise Refuse(f"{self.fn}: operator `{self.peek()}` is outside the translated subset")
        return lhs

    def ternary(self):
        c = self.binary(0)
        if self.peek() == "?":
            self.eat("?")
            a = self.assignment()
            self.eat(":")
            b = self.assignment()
            return ("cond", c, a, b)
        return c

    LEVELS = [("||",), ("&&",), ("|",), ("==", "!="), ("<", ">", "<=", ">="), ("+", "-"), ("*", "/")]

    def binary(self, lvl):
        if lvl == len(self.LEVELS):
            return self.unary()
        a = self.binary(lvl + 1)
        while self.peek() in self.LEVELS[lvl]:
            op = self.eat()
            b = self.binary(lvl + 1)
            a = ("bin", op, a, b)
        if self.peek() in ("^", "%", "&") and lvl == 0:
            raise Refuse(f"{self.fn}: operator `{self.peek()}` is outside the translated subset")
        return a

    def try_cast(self):
        """`(T*)`, `(char*)`, `(usize)` at the cursor -> type string, else None"""
        if self.peek() != "(":
            return None
        j = self.i + 1
        words = []
        while j < len(self.t) and self.t[j] in ("const", "T", "char", "usize"):
            words.append(self.t[j]); j += 1
        if not words or words == ["const"]:
            return None
        stars = 0
        while j < len(self.t) and self.t[j] == "*":
            stars += 1; j += 1
        if j < len(self.t) and self.t[j] == ")":
            self.i = j + 1
            return " ".join(w for w in words if w != "const") + "*" * stars
        return None

    def unary(self):
        tok = self.peek()
        if tok in ("!", "&", "*", "-"):
            self.eat()
            return ("un", tok, self.unary())
        if tok in ("++", "--"):
            self.eat()
            return ("pre", tok, self.unary())
        if tok in ("~", "+"):
            raise Refuse(f"{self.fn}: unary `{tok}` is outside the translated subset")
        if tok == "sizeof":
            self.eat(); self.eat("(")
            ty = self.eat()
            self.eat(")")
            if ty != "T":
                raise Refuse(f"{self.fn}: sizeof({ty})")
            return ("sizeof",)
        if tok == "new":
            self.eat("new")
            if self.peek() == "(":
                self.eat("(")
                d = self.expr()
                self.eat(")")
                self.eat("T"); self.eat("(")
                s = self.expr()
                self.eat(")")
                return ("placement", d, s)
            self.eat("char"); self.eat("[")
            n = self.expr()
            self.eat("]")
            return ("newarr", n)
        ty = self.try_cast()
        if ty is not None:
            return ("cast", ty, self.unary())
        return self.postfix()

    def postfix(self):
        tok = self.eat()
        if tok == "(":
            a = self.expr()
            self.eat(")")
        elif tok == "this":
            a = ("this",)
        elif re.fullmatch(r"\d+|0x[0-9a-fA-F]+", tok):
            a = ("num", int(tok, 0))
        elif IDENT.match(tok):
            a = ("id", tok)
        else:
            raise Refuse(f"{self.fn}: unexpected token {tok!r}")
        while self.peek() in ("->", ".", "[", "++", "--", "("):
            op = self.eat()
            if op in ("[", "++", "--"):
                raise Refuse(f"{self.fn}: postfix `{op}` is outside the translated subset")
            if op == "(":
                args = []
                if self.peek() != ")":
                    args.append(self.assignment())
                    while self.peek() == ",":
                        self.eat(",")
                        args.append(self.assignment())
                self.eat(")")
                a = ("call", a, args)
                continue
            if self.peek() == "~":
                self.eat("~"); self.eat("T"); self.eat("("); self.eat(")")
                if op != "->":
                    raise Refuse(f"{self.fn}: destructor call through `.`")
                a = ("dtorcall", a)
                continue
            f = self.eat()
            if not IDENT.match(f):
                raise Refuse(f"{self.fn}: member name {f!r}")
            a = ("member" if op == "." else "arrow", a, f)
        return a


# ---- translation -------------------------------------------------------------------------------------------------------
LEANTY = {"ptr": "Ptr", "nat": "Nat", "unit": "Unit", "bool": "Bool"}
VALTYS = ("ptr", "nat", "bool")
FIELDS = {"_begin": "begin", "_end": "fin"}


def has_effect(e):
    if isinstance(e, list):
        return any(has_effect(x) for x in e)
    if not isinstance(e, tuple):
        return False
    if e[0] in ("call", "assign", "pre", "placement", "newarr", "dtorcall"):
        return True
    return any(has_effect(x) for x in e[1:])


def has_return(st):
    if isinstance(st, list):
        return any(has_return(x) for x in st)
    if not isinstance(st, tuple):
        return False
    if st[0] == "return":
        return True
    if st[0] in ("block", "if", "for"):
        return any(has_return(x) for x in st[1:])
    return False


class Tr:
    def __init__(self, fn, leanname, sigs, ret, objparams):
        self.fn, self.leanname, self.sigs, self.ret = fn, leanname, sigs, ret
        self.objparams = objparams        # names of the Array& parameters (Lean: Nat)
        self.n = 0
        self.loops = []                   # emitted loop definitions (lists of lines)
        self.in_loop = False
        self.retstack = []                # frames of inlined helper functions: (return type, continuation)
        self.trace = []                   # names of locals in the order they are assigned
        self.helpers = {}                 # name -> list of helper definitions (private / static members that are not translated on their own)
        self.depth = 0

    def fresh(self, base):
        self.n += 1
        return f"{base}_{self.n}"

    def dry(self, f):
        """run f for its side results only: fresh-name counter and emitted loops are restored"""
        n, nl, il = self.n, len(self.loops), self.in_loop
        try:
            f()
        finally:
            self.n, self.in_loop = n, il
            del self.loops[nl:]

    def unpack(self, r, vs, env, env_out, ind):
        """lines that bind S and the variables vs from the tuple r; env_out is updated"""
        if not vs:
            return [f"{ind}let S := {r}"]
        lines = [f"{ind}let S := {r}.1"]
        for j, n in enumerate(vs):
            proj = f"{r}" + ".2" * (j + 1) + ("" if j == len(vs) - 1 else ".1")
            nm = self.fresh("v_" + n)
            lines.append(f"{ind}let {nm} := {proj}")
            env_out[n] = (nm, env[n][1])
        return lines

    # --- objects and members
    def obj(self, e, env):
        """Lean term (Nat) of the Array object an expression designates"""
        if e == ("un", "*", ("this",)):
            return "this"
        if e[0] == "id" and e[1] in env and env[e[1]][1] == "arr":
            return env[e[1]][0]
        raise Refuse(f"{self.fn}: `{e}` does not designate an Array object")

    def member(self, e, env):
        """(object term, lean field, type) when e is a data member of an Array object, else None"""
        if e[0] == "member" and e[2] == "item" and e[1][0] == "id" and e[1][1] in FIELDS and e[1][1] not in env:
            return "this", FIELDS[e[1][1]], "ptr"
        if e[0] == "member" and e[2] == "item" and e[1][0] == "member" and e[1][2] in FIELDS:
            return self.obj(e[1][1], env), FIELDS[e[1][2]], "ptr"
        if e == ("id", "_capacity") and "_capacity" not in env:
            return "this", "cap", "nat"
        if e[0] == "member" and e[2] == "_capacity":
            return self.obj(e[1], env), "cap", "nat"
        return None

    # --- pure expressions: (term, type); Refuse when not pure / not total
    def pure(self, e, env):
        k = e[0]
        if k == "num":
            return str(e[1]), "nat"
        if k == "id":
            if e[1] in env:
                t, ty = env[e[1]]
                if t is None:
                    raise Refuse(f"{self.fn}: `{e[1]}` is read before it is assigned")
                if ty == "ref":
                    raise Refuse(f"{self.fn}: the referenced object `{e[1]}` is used other than as `&{e[1]}` / copy source")
                return t, ty
            if e[1] in FIELDS:
                return f"(S.hd this).{FIELDS[e[1]]}", "ptr"        # an Iterator member passed by value
        m = self.member(e, env)
        if m is not None:
            return f"(S.hd {m[0]}).{m[1]}", m[2]
        if k == "member" and e[2] == "item" and e[1][0] == "id" and e[1][1] in env and env[e[1][1]][1] == "ptr":
            return env[e[1][1]][0], "ptr"                           # it.item of an Iterator parameter
        if k == "call" and e[1][0] == "id":
            args = [self.pure(a, env) for a in e[2]]
            hs = [h for h in self.helpers.get(e[1][1], []) if tuple(t for _, t in h["params"]) == tuple(t for _, t in args)]
            if len(hs) == 1 and len(hs[0]["stmts"]) == 1 and hs[0]["stmts"][0][0] == "return" and hs[0]["stmts"][0][1] is not None \
                    and not has_effect(hs[0]["stmts"][0][1]):
                cenv = {pn: (a, pty) for (pn, pty), (a, _) in zip(hs[0]["params"], args)}
                t, ty = self.pure(hs[0]["stmts"][0][1], cenv)
                if ty != hs[0]["ret"]:
                    raise Refuse(f"{self.fn}: `{e[1][1]}` returns a value of type {ty}, expected {hs[0]['ret']}")
                return t, ty
            raise Refuse(f"{self.fn}: call of `{e[1][1]}` inside a condition: not a helper of the form `return <side-effect free expression>;`")
        if k == "this":
            return "this", "objaddr"
        if k == "un" and e[1] == "&":
            x = e[2]
            if x[0] == "id" and x[1] in env and env[x[1]][1] == "ref":
                return env[x[1]][0], "ptr"
            if x[0] == "id" and x[1] in env and env[x[1]][1] == "arr":
                return env[x[1]][0], "objaddr"
            raise Refuse(f"{self.fn}: address-of `{x}`")
        if k == "un" and e[1] == "!":
            return f"(!{self.truth(e[2], env)})", "bool"
        if k == "cast" and e[1] in ("T*", "char*"):
            t, ty = self.pure(e[2], env)
            if ty != "ptr":
                raise Refuse(f"{self.fn}: cast of a {ty} to a pointer")
            return t, ty
        if k == "bin":
            op = e[1]
            if op in ("&&", "||"):
                return f"({self.truth(e[2], env)} {op} {self.truth(e[3], env)})", "bool"
            a, ta = self.pure(e[2], env)
            b, tb = self.pure(e[3], env)
            if op in ("==", "!="):
                if ta != tb:
                    raise Refuse(f"{self.fn}: `{op}` between {ta} and {tb}")
                return (f"decide ({a} = {b})" if op == "==" else f"(!decide ({a} = {b}))"), "bool"
            if op in ("<", ">", "<=", ">="):
                if ta != tb or ta not in ("ptr", "nat"):
                    raise Refuse(f"{self.fn}: `{op}` between {ta} and {tb}")
                if ta == "nat":
                    return f"decide ({a} {op.replace('<=', '≤').replace('>=', '≥')} {b})", "bool"
                return {"<": f"Ptr.lt {a} {b}", ">": f"Ptr.lt {b} {a}", ">=": f"(!Ptr.lt {a} {b})", "<=": f"(!Ptr.lt {b} {a})"}[op], "bool"
            if op in ("+", "*") and ta == "nat" and tb == "nat":
                return f"({a} {op} {b})", "nat"
            if op == "-" and ta == "nat" and tb == "nat":
                return f"(usub {a} {b})", "nat"
            if op == "|" and ta == "nat" and tb == "nat":
                return f"({a} ||| {b})", "nat"
        raise Refuse(f"{self.fn}: expression `{e}` is not a side-effect free total expression of the subset")

    def truth(self, e, env):
        t, ty = self.pure(e, env)
        if ty == "bool":
            return t
        if ty == "ptr":
            return f"(!decide ({t} = Ptr.null))"
        if ty == "nat":
            return f"(!decide ({t} = 0))"
        raise Refuse(f"{self.fn}: a value of type {ty} used as a condition")

    # --- effectful expressions in continuation-passing style: k(term, type, env) -> lines
    def bytes_of(self, e, env):
        """n when e is the byte size of n elements"""
        def count(x):
            if x[0] == "bin" and x[1] == "*" and x[2] == ("sizeof",):
                return x[3]
            if x[0] == "bin" and x[1] == "*" and x[3] == ("sizeof",):
                return x[2]
            return None
        n = count(e)
        if n is None and e[0] == "cond":
            maxv = ("cast", "usize", ("un", "-", ("num", 1)))
            n2 = count(e[3])
            if n2 is not None and e[2] == maxv and e[1] == ("bin", ">", n2, ("bin", "/", maxv, ("sizeof",))):
                n = n2
        if n is None:
            raise Refuse(f"{self.fn}: `new char[...]` whose size is not the byte size of a number of elements")
        t, ty = self.pure(n, env)
        if ty != "nat":
            raise Refuse(f"{self.fn}: element count of type {ty}")
        return t

    def ev(self, e, env, ind, k):
        kind = e[0]
        if not has_effect(e):
            # pointer arithmetic is partial: p + n, p - n, p - q
            if kind == "bin" and e[1] in ("+", "-"):
                return self.ev(e[2], env, ind, lambda a, ta, env2: self.ev(e[3], env2, ind, lambda b, tb, env3: self.arith(e[1], a, ta, b, tb, env3, ind, k)))
            if kind == "cast" and e[1] in ("T*", "char*"):
                return self.ev(e[2], env, ind, k)
            t, ty = self.pure(e, env)
            return k(t, ty, env)
        if kind == "cast" and e[1] == "T*" and e[2][0] == "newarr":
            n = self.bytes_of(e[2][1], env)
            p = self.fresh("t")
            return [f"{ind}let {p} := (S.newBlock {n}).2", f"{ind}let S := (S.newBlock {n}).1"] + k(p, "ptr", env)
        if kind == "cast" and e[1] in ("T*", "char*"):
            return self.ev(e[2], env, ind, k)
        if kind == "bin" and e[1] in ("+", "-"):
            return self.ev(e[2], env, ind, lambda a, ta, env2: self.ev(e[3], env2, ind, lambda b, tb, env3: self.arith(e[1], a, ta, b, tb, env3, ind, k)))
        if kind == "pre":
            def after(t, ty, env2):
                if ty == "ptr":
                    v = self.fresh("t")
                    fnm = "Ptr.add" if e[1] == "++" else "Ptr.subn"
                    return [f"{ind}({fnm} {t} 1).bind fun {v} =>"] + self.store(e[2], v, "ptr", env2, ind, lambda env3: k(v, "ptr", env3))
                raise Refuse(f"{self.fn}: `{e[1]}` on a value of type {ty}")
            return self.ev(e[2], env, ind, after)
        if kind == "assign":
            op, lhs, rhs = e[1], e[2], e[3]
            if op == "|=":
                a, ta = self.pure(lhs, env)
                b, tb = self.pure(rhs, env)
                if ta != "nat" or tb != "nat":
                    raise Refuse(f"{self.fn}: `|=` on {ta}, {tb}")
                v = self.fresh("t")
                return [f"{ind}let {v} := {a} ||| {b}"] + self.store(lhs, v, "nat", env, ind, lambda env2: k(v, "nat", env2))
            if lhs[0] == "un" and lhs[1] == "*":
                if not (rhs[0] == "un" and rhs[1] == "*"):
                    raise Refuse(f"{self.fn}: `*d = ` with a right side that is not `*s`")
                return self.ev(rhs[2], env, ind, lambda s, ts, env2: self.ev(lhs[2], env2, ind, lambda d, td, env3: self.prim(
                    "assignObj", [(d, td), (s, ts)], env3, ind, lambda env4: k("()", "unit", env4))))

            def after_rhs(t, ty, env2):
                return self.store(lhs, t, ty, env2, ind, lambda env3: k(t, ty, env3))
            return self.ev(rhs, env, ind, after_rhs)
        if kind == "placement":
            d, s = e[1], e[2]
            if s[0] == "id" and s[1] in env and env[s[1]][1] == "ref":
                s = ("un", "*", ("un", "&", s))          # T(value) with `const T& value` = T(*&value)
            if not (s[0] == "un" and s[1] == "*"):
                raise Refuse(f"{self.fn}: placement new whose constructor argument is not `*s` / a referenced object")
            return self.ev(d, env, ind, lambda dt, dty, env2: self.ev(s[2], env2, ind, lambda st, sty, env3: self.prim(
                "construct", [(dt, dty), (st, sty)], env3, ind, lambda env4: k(dt, "ptr", env4))))
        if kind == "dtorcall":
            return self.ev(e[1], env, ind, lambda t, ty, env2: self.prim("destroy", [(t, ty)], env2, ind, lambda env3: k("()", "unit", env3)))
        if kind == "call":
            return self.call(e, env, ind, k)
        raise Refuse(f"{self.fn}: expression `{kind}` with side effects is outside the translated subset")

    def arith(self, op, a, ta, b, tb, env, ind, k):
        v = self.fresh("t")
        if ta == "nat" and tb == "nat":
            if op == "-":
                return k(f"(usub {a} {b})", "nat", env)
            return k(f"({a} + {b})", "nat", env)
        if ta == "ptr" and tb == "nat":
            return [f"{ind}({'Ptr.add' if op == '+' else 'Ptr.subn'} {a} {b}).bind fun {v} =>"] + k(v, "ptr", env)
        if ta == "ptr" and tb == "ptr" and op == "-":
            return [f"{ind}(Ptr.diff {a} {b}).bind fun {v} =>"] + k(v, "nat", env)
        raise Refuse(f"{self.fn}: `{op}` between {ta} and {tb}")

    def prim(self, name, args, env, ind, k):
        for _, ty in args:
            if ty != "ptr":
                raise Refuse(f"{self.fn}: {name} applied to a value of type {ty}")
        return [f"{ind}(S.{name} {' '.join(a for a, _ in args)}).bind fun S =>"] + k(env)

    def call(self, e, env, ind, k):
        f, args = e[1], e[2]
        if f[0] == "id":
            target, name = "this", f[1]
        elif f[0] == "member":
            target, name = self.obj(f[1], env), f[2]
        else:
            raise Refuse(f"{self.fn}: call of `{f}`")

        def with_args(vals, env2):
            tys = tuple(ty for _, ty in vals)
            cands = [s for s in self.sigs if s["cxx"] == name and tuple(s["ptypes"]) == tys]
            if not cands and target == "this":
                hs = [h for h in self.helpers.get(name, []) if tuple(t for _, t in h["params"]) == tys]
                if len(hs) == 1:
                    return self.inline(hs[0], vals, env2, ind, k)
            if len(cands) != 1:
                raise Refuse(f"{self.fn}: call `{name}` with argument types {tys}: {len(cands)} translated overloads match")
            s = cands[0]
            r = self.fresh("r")
            lines = [f"{ind}({s['lean']} fuel S {target}{''.join(' ' + v for v, _ in vals)}).bind fun {r} =>", f"{ind}let S := {r}.1"]
            if s["ret"] == "unit":
                return lines + k("()", "unit", env2)
            v = self.fresh("t")
            return lines + [f"{ind}let {v} := {r}.2"] + k(v, s["ret"], env2)

        def go(i, vals, env2):
            if i == len(args):
                return with_args(vals, env2)
            return self.ev(args[i], env2, ind, lambda t, ty, env3: go(i + 1, vals + [(t, ty)], env3))
        # an Array& argument is passed as its index
        args = [a for a in args]
        return go(0, [], env)

    def inline(self, h, vals, env, ind, k):
        """the body of a helper member function in place of its call; k(term, type, env) continues the caller"""
        if self.depth >= 3:
            raise Refuse(f"{self.fn}: helper calls nested deeper than 3 (`{h['name']}`)")
        cenv, lines = {}, []
        for (pn, pty), (v, ty) in zip(h["params"], vals):
            nm = self.fresh("v_" + pn)
            lines.append(f"{ind}let {nm} := {v}")
            cenv[pn] = (nm, pty)
        caller_loop = self.in_loop

        def rk(t, ty, env2):
            frame = self.retstack.pop()
            cur, self.in_loop = self.in_loop, caller_loop
            self.depth -= 1
            try:
                return k(t, ty, env)
            finally:
                self.retstack.append(frame)
                self.in_loop = cur
                self.depth += 1

        def fall(env2, ind2):
            if h["ret"] != "unit":
                raise Refuse(f"{self.fn}: control reaches the end of `{h['name']}`, which returns a value")
            return rk("()", "unit", env2)
        self.retstack.append((h["ret"], rk))
        self.depth += 1
        self.in_loop = False
        try:
            return lines + self.run(list(h["stmts"]), cenv, ind, fall)
        finally:
            self.retstack.pop()
            self.depth -= 1
            self.in_loop = caller_loop

    def store(self, lhs, term, ty, env, ind, k):
        """k(env)"""
        if lhs[0] == "id" and lhs[1] in env:
            want = env[lhs[1]][1]
            if want not in VALTYS or want != ty:
                raise Refuse(f"{self.fn}: a value of type {ty} is stored into `{lhs[1]}` of type {want}")
            env2 = dict(env)
            name = self.fresh("v_" + lhs[1])
            env2[lhs[1]] = (name, ty)
            self.trace.append(lhs[1])
            return [f"{ind}let {name} := {term}"] + k(env2)
        m = self.member(lhs, env)
        if m is None:
            raise Refuse(f"{self.fn}: `{lhs}` is not an assignable variable or data member")
        o, field, want = m
        if want != ty:
            raise Refuse(f"{self.fn}: a value of type {ty} is stored into member {field} of type {want}")
        return [f"{ind}let S := S.setHd {o} {{ S.hd {o} with {field} := {term} }}"] + k(env)

    # --- statements; kend(env, ind) produces what follows the last statement
    def result(self, term, ind):
        return [f"{ind}some (S, {term})"]

    def run(self, stmts, env, ind, kend):
        if not stmts:
            return kend(env, ind)
        s, rest = stmts[0], stmts[1:]
        go = lambda env2: self.run(rest, env2, ind, kend)
        k = s[0]
        if k == "block":
            inner_names = set(env)
            # declarations of the block go out of scope at its end
            return self.run(list(s[1]), env, ind, lambda env2, ind2: self.run(rest, {n: v for n, v in env2.items() if n in inner_names}, ind2, kend))
        if k == "decl":
            def one(i, env2):
                if i == len(s[1]):
                    return go(env2)
                ty, name, init = s[1][i]
                if name in env2:
                    raise Refuse(f"{self.fn}: `{name}` is declared twice in one scope chain")
                if init is None:
                    env3 = dict(env2)
                    env3[name] = (None, ty)
                    return one(i + 1, env3)

                def after(t, ety, env3):
                    if ety != ty:
                        raise Refuse(f"{self.fn}: `{name}` of type {ty} initialised with a value of type {ety}")
                    env4 = dict(env3)
                    nm = self.fresh("v_" + name)
                    env4[name] = (nm, ty)
                    return [f"{ind}let {nm} := {t}"] + one(i + 1, env4)
                return self.ev(init, env2, ind, after)
            return one(0, env)
        if k == "if":
            c = self.truth(s[1], env)
            if has_return(s[2]) or has_return(s[3]):
                return ([f"{ind}if {c} then"] + self.run([s[2]] + rest, env, ind + "  ", kend) +
                        [f"{ind}else"] + self.run([s[3]] + rest, env, ind + "  ", kend))
            # no branch returns: both branches deliver the state and the locals they assign; what follows is translated once
            outer = [n for n, (t, ty) in env.items() if ty in VALTYS]
            changed = set()

            def probe(env2, ind2):
                for n in outer:
                    if env2[n] != env[n]:
                        changed.add(n)
                return []
            self.dry(lambda: (self.run([s[2]], env, ind, probe), self.run([s[3]], env, ind, probe)))
            vs = [n for n in outer if n in changed]

            def deliver(env2, ind2):
                return [f"{ind2}some ({', '.join(['S'] + [env2[n][0] if env2[n][0] is not None else 'Ptr.null' for n in vs])})"]
            r = self.fresh("r")
            lines = ([f"{ind}(if {c} then"] + self.run([s[2]], env, ind + "    ", deliver) +
                     [f"{ind}  else"] + self.run([s[3]], env, ind + "    ", deliver))
            lines[-1] += f").bind fun {r} =>"
            env3 = dict(env)
            lines += self.unpack(r, vs, env, env3, ind)
            return lines + go(env3)
        if k == "return":
            if self.in_loop:
                raise Refuse(f"{self.fn}: `return` inside a loop")
            if self.retstack:
                rty, rk = self.retstack[-1]
                if s[1] is None:
                    if rty != "unit":
                        raise Refuse(f"{self.fn}: `return;` in an inlined function that returns a value")
                    return rk("()", "unit", env)

                def after_inl(t, ty, env2):
                    if ty != rty:
                        raise Refuse(f"{self.fn}: an inlined function returns a value of type {ty}, expected {rty}")
                    return rk(t, ty, env2)
                return self.ev(s[1], env, ind, after_inl)
            if s[1] is None:
                if self.ret != "unit":
                    raise Refuse(f"{self.fn}: `return;` in a function that returns a value")
                return self.result("()", ind)
            if self.ret == "unit":
                if s[1][0] == "call":
                    return self.ev(s[1], env, ind, lambda t, ty, env2: self.result("()", ind))
                if has_effect(s[1]):
                    raise Refuse(f"{self.fn}: returned expression with side effects")
                return self.result("()", ind)            # value of type Iterator / T& / Array&: dropped

            def after(t, ty, env2):
                if ty != self.ret:
                    raise Refuse(f"{self.fn}: returns a value of type {ty}, expected {self.ret}")
                return self.result(t, ind)
            return self.ev(s[1], env, ind, after)
        if k == "delete":
            e = s[1]
            if not (e[0] == "cast" and e[1] == "char*"):
                raise Refuse(f"{self.fn}: `delete[]` of something that is not `(char*)p`")
            return self.ev(e[2], env, ind, lambda t, ty, env2: self.prim("deleteBlock", [(t, ty)], env2, ind, go))
        if k == "expr":
            e = s[1]
            if not has_effect(e):
                raise Refuse(f"{self.fn}: expression statement without effect")
            return self.ev(e, env, ind, lambda t, ty, env2: go(env2))
        if k == "for":
            return self.loop(s, rest, env, ind, kend)
        raise Refuse(f"{self.fn}: statement `{k}`")

    def loop(self, s, rest, env, ind, kend):
        _, init, cond, inc, body = s
        outer = set(env)

        def after_init(env1, ind1):
            names = [n for n, (t, ty) in env1.items() if ty in VALTYS]
            lenv = {}
            for n, (t, ty) in env1.items():
                lenv[n] = ((f"v_{n}" if t is not None else None), ty) if ty in VALTYS else (t, ty)
            binner = set(lenv)
            changed = set()

            def probe(env2, ind2):
                for n in names:
                    if env2[n] != lenv[n]:
                        changed.add(n)
                return []

            def incs(i, env2, ind2, last):
                if i == len(inc):
                    return last(env2, ind2)
                if not has_effect(inc[i]):
                    raise Refuse(f"{self.fn}: for-increment without effect")
                return self.ev(inc[i], env2, ind2, lambda t, ty, env3: incs(i + 1, env3, ind2, last))

            def body_lines(last):
                saved = self.in_loop
                self.in_loop = True
                try:
                    return self.run([body], lenv, "      ", lambda env2, ind2: incs(0, {n: v for n, v in env2.items() if n in binner}, ind2, last))
                finally:
                    self.in_loop = saved
            mark = len(self.trace)
            self.dry(lambda: body_lines(probe))
            # canonical order: the loop state in the order of first assignment, the read-only variables in the order of first use
            # (so that neither the order of the declarations nor the names matter)
            order = []
            for n in self.trace[mark:]:
                if n in changed and n not in order:
                    order.append(n)
            state = order + [n for n in names if n in changed and n not in order]
            for n in names:
                if n not in changed and lenv[n][0] is None:
                    raise Refuse(f"{self.fn}: `{n}` is never assigned")
            lname = f"{self.leanname}_loop{len(self.loops) + 1}"
            self.loops.append(None)
            slot = len(self.loops) - 1

            def recur(env2, ind2):
                return [f"{ind2}{lname} this{{FIXED}} fuel S{''.join(' ' + env2[n][0] for n in state)}"]
            blines = body_lines(recur)
            ctest = "true" if cond is None else self.truth(cond, lenv)
            text = "\n".join(blines) + "\n" + ctest
            text = ctest + "\n" + "\n".join(blines)
            ro = [n for n in names if n not in changed and re.search(r"\bv_" + re.escape(n) + r"\b", text)]
            ro.sort(key=lambda n: re.search(r"\bv_" + re.escape(n) + r"\b", text).start())
            objs = [p for p in self.objparams if re.search(r"\b" + p + r"\b", text)]
            refs = [env1[n][0] for n in env1 if env1[n][1] == "ref" and re.search(r"\b" + env1[n][0] + r"\b", text)]
            fixed = "".join(" " + p for p in objs + refs) + "".join(f" v_{n}" for n in ro)
            fixed_sig = ("".join(f" ({p} : Nat)" for p in objs) + "".join(f" ({p} : Ptr)" for p in refs) +
                         "".join(f" (v_{n} : {LEANTY[env1[n][1]]})" for n in ro))
            blines = [l.replace("{FIXED}", fixed) for l in blines]
            tys = [LEANTY[env1[n][1]] for n in state]
            rty = " × ".join(["PS"] + tys)
            pat = ", ".join(["S"] + [f"v_{n}" for n in state])
            d = [f"def {lname} (this : Nat){fixed_sig} : Nat → PS{''.join(' → ' + t for t in tys)} → Option ({rty})",
                 f"  | 0, _{', _' * len(state)} => none",
                 f"  | fuel + 1, {pat} =>",
                 f"    if {ctest} then"] + blines + ["    else", f"      some ({pat})"]
            self.loops[slot] = d
            # call site
            r = self.fresh("r")
            call_fixed = "".join(" " + p for p in objs + refs) + "".join(" " + env1[n][0] for n in ro)
            args = "".join(" " + (env1[n][0] if env1[n][0] is not None else "Ptr.null") for n in state)
            lines = [f"{ind1}({lname} this{call_fixed} fuel S{args}).bind fun {r} =>"]
            env2 = dict(env1)
            lines += self.unpack(r, state, env1, env2, ind1)
            env3 = {n: v for n, v in env2.items() if n in outer}
            return lines + self.run(rest, env3, ind1, kend)
        if init is None:
            return after_init(env, ind)
        return self.run([init], env, ind, after_init)


# ---- the functions of Array.hpp ------------------------------------------------------------------------------------------
W = r"\s*"
ID = r"(\w+)"
FUNCS = [
    # lean name, C++ name, signature regex (groups = parameter names), parameter types, return type, kind
    dict(lean="ctorDefault", cxx="Array", rx=r"(?<![~\w])Array\s*\(\s*\)\s*:\s*_capacity\s*\(\s*0\s*\)", ptypes=[], ret="unit", ctor="0"),
    dict(lean="ctorCap", cxx="Array", rx=r"explicit\s+Array\s*\(\s*usize\s+(\w+)\s*\)\s*:\s*_capacity\s*\(\s*(\w+)\s*\)", ptypes=["nat"], ret="unit", ctor="param"),
    dict(lean="size", cxx="size", rx=r"usize\s+size\s*\(\s*\)\s*const", ptypes=[], ret="nat"),
    dict(lean="capacity", cxx="capacity", rx=r"usize\s+capacity\s*\(\s*\)\s*const", ptypes=[], ret="nat"),
    dict(lean="reserve", cxx="reserve", rx=r"void\s+reserve\s*\(\s*usize\s+(\w+)\s*\)", ptypes=["nat"], ret="unit"),
    dict(lean="reserveRef", cxx="reserve", rx=r"const\s+T\s*\*\s*reserve\s*\(\s*usize\s+(\w+)\s*,\s*const\s+T\s*\*\s*(\w+)\s*\)", ptypes=["nat", "ptr"], ret="ptr"),
    dict(lean="clear", cxx="clear", rx=r"void\s+clear\s*\(\s*\)", ptypes=[], ret="unit"),
    dict(lean="copyCtor", cxx="Array", rx=r"(?<![~\w])Array\s*\(\s*const\s+Array\s*&\s*(\w+)\s*\)\s*:\s*_capacity\s*\(\s*0\s*\)", ptypes=["arr"], ret="unit", ctor="0"),
    dict(lean="dtor", cxx="~Array", rx=r"~Array\s*\(\s*\)", ptypes=[], ret="unit"),
    dict(lean="assign", cxx="operator=", rx=r"Array\s*&\s*operator\s*=\s*\(\s*const\s+Array\s*&\s*(\w+)\s*\)", ptypes=["arr"], ret="unit"),
    dict(lean="resize", cxx="resize", rx=r"void\s+resize\s*\(\s*usize\s+(\w+)\s*,\s*const\s+T\s*&\s*(\w+)\s*=\s*T\s*\(\s*\)\s*\)", ptypes=["nat", "ref"], ret="unit"),
    dict(lean="swap", cxx="swap", rx=r"void\s+swap\s*\(\s*Array\s*&\s*(\w+)\s*\)", ptypes=["arr"], ret="unit"),
    dict(lean="append", cxx="append", rx=r"T\s*&\s*append\s*\(\s*const\s+T\s*&\s*(\w+)\s*\)", ptypes=["ref"], ret="unit"),
    dict(lean="appendArr", cxx="append", rx=r"void\s+append\s*\(\s*const\s+Array\s*&\s*(\w+)\s*\)", ptypes=["arr"], ret="unit"),
    dict(lean="appendPtr", cxx="append", rx=r"void\s+append\s*\(\s*const\s+T\s*\*\s*(\w+)\s*,\s*usize\s+(\w+)\s*\)", ptypes=["ptr", "nat"], ret="unit"),
    dict(lean="remove", cxx="remove", rx=r"void\s+remove\s*\(\s*usize\s+(\w+)\s*\)", ptypes=["nat"], ret="unit"),
    dict(lean="removeIt", cxx="remove", rx=r"Iterator\s+remove\s*\(\s*const\s+Iterator\s*&\s*(\w+)\s*\)", ptypes=["ptr"], ret="unit"),
    dict(lean="removeFront", cxx="removeFront", rx=r"Iterator\s+removeFront\s*\(\s*\)", ptypes=[], ret="unit"),
    dict(lean="removeBack", cxx="removeBack", rx=r"Iterator\s+removeBack\s*\(\s*\)", ptypes=[], ret="unit"),
]


def class_body(src):
    m = re.search(r"template\s*<\s*typename\s+T\s*>\s*class\s+Array\s*\{", src)
    if not m:
        raise Refuse("Array.hpp: `template <typename T> class Array {` not found")
    end = balanced(src, m.end() - 1)
    body = src[m.end():end - 1]
    # the nested class Iterator: its default constructor must give the null pointer, its only data member must be `T* item`
    mi = re.search(r"class\s+Iterator\s*\{", body)
    if not mi:
        raise Refuse("Array.hpp: class Iterator not found")
    iend = balanced(body, mi.end() - 1)
    it = body[mi.end():iend - 1]
    if not re.search(r"Iterator\s*\(\s*\)\s*:\s*item\s*\(\s*0\s*\)\s*\{\s*\}", it):
        raise Refuse("Array::Iterator: the default constructor is not `Iterator() : item(0) {}`")
    if not re.search(r"Iterator\s*\(\s*T\s*\*\s*item\s*\)\s*:\s*item\s*\(\s*item\s*\)\s*\{\s*\}", it):
        raise Refuse("Array::Iterator: the converting constructor is not `Iterator(T* item) : item(item) {}`")
    members = re.findall(r"(?m)^\s*([\w\s\*]+?)\s+(\w+)\s*;\s*$", it)
    if [(re.sub(r"\s+", "", a), b) for a, b in members if "friend" not in a] != [("T*", "item")]:
        raise Refuse(f"Array::Iterator: data members {members} are not exactly `T* item`")
    rest = body[:mi.start()] + body[iend:]
    # data members of Array
    dm = re.findall(r"(?m)^\s*(Iterator|usize)\s+(\w+)\s*;\s*$", rest)
    if dm != [("Iterator", "_begin"), ("Iterator", "_end"), ("usize", "_capacity")]:
        raise Refuse(f"Array: data members {dm} are not `Iterator _begin; Iterator _end; usize _capacity;`")
    return rest


def find_helpers(cls):
    """member functions that are not translated on their own (private / static helpers): name -> [definition]; a call of one of
    them is translated by putting its body in place of the call.  Parameters: T*, const T*, usize, bool by value."""
    known = {f["cxx"] for f in FUNCS}
    out = {}
    for m in re.finditer(r"(?:static\s+|inline\s+)*(?:const\s+)?(T\s*\*|usize|bool|void)\s+(\w+)\s*\(([^()]*)\)\s*(?:const\s*)?\{", cls):
        rty, name, plist = m.group(1), m.group(2), m.group(3)
        if name in known or name in ("if", "for", "while", "switch", "return"):
            continue
        params, ok = [], True
        for prm in [x.strip() for x in plist.split(",") if x.strip()]:
            mm = re.fullmatch(r"(?:const\s+)?(T\s*\*|usize|bool)\s*(\w+)", prm)
            if not mm:
                ok = False
                break
            params.append((mm.group(2), {"usize": "nat", "bool": "bool"}.get(mm.group(1), "ptr")))
        if not ok:
            continue
        end = balanced(cls, m.end() - 1)
        fn = f"Array::{name} (helper)"
        body = resolve_verify(cls[m.end():end - 1], fn)
        p = P(tokenize(body, fn), fn)
        stmts = p.stmts()
        if p.peek() is not None:
            raise Refuse(f"{fn}: trailing tokens")
        out.setdefault(name, []).append(dict(name=name, params=params, stmts=stmts,
                                             ret={"usize": "nat", "bool": "bool", "void": "unit"}.get(rty, "ptr")))
    return out


def generate(repo, out_path):
    """writes out_path (only when the content changes); returns a one-line summary; raises Refuse"""
    repo = Path(repo)
    src = strip_comments((repo / "include/nstd/Array.hpp").read_text())
    cls = class_body(src)
    parts = ["/- generated by tools/gen_life.py from include/nstd/Array.hpp - do not edit -/",
             "import Nstd.Life.ArrPtr", "", "set_option linter.unusedVariables false", "",
             "namespace Nstd.Generated.LifeArray", "open Nstd.Life", "open Nstd.Life.AP", ""]
    summary = []
    helpers = find_helpers(cls)
    for f in FUNCS:
        fn = f"Array::{f['cxx']}({', '.join(f['ptypes'])})"
        ms = list(re.finditer(f["rx"] + r"\s*\{", cls))
        if len(ms) != 1:
            raise Refuse(f"{fn}: {len(ms)} definitions found, expected exactly one")
        m = ms[0]
        end = balanced(cls, m.end() - 1)
        body = resolve_verify(cls[m.end():end - 1], fn)
        pnames = list(m.groups())
        capinit = None
        if f.get("ctor") == "param":
            if pnames[1] != pnames[0]:
                raise Refuse(f"{fn}: `_capacity` is not initialised with the parameter")
            pnames = pnames[:1]
            capinit = "v_" + pnames[0]
        elif f.get("ctor") == "0":
            capinit = "0"
        p = P(tokenize(body, fn), fn)
        stmts = p.stmts()
        if p.peek() is not None:
            raise Refuse(f"{fn}: trailing tokens")
        env, sig, objparams = {}, "", []
        for nm, ty in zip(pnames, f["ptypes"]):
            if ty == "arr":
                env[nm] = ("o_" + nm, "arr"); sig += f" (o_{nm} : Nat)"; objparams.append("o_" + nm)
            elif ty == "ref":
                env[nm] = ("r_" + nm, "ref"); sig += f" (r_{nm} : Ptr)"
            else:
                env[nm] = ("v_" + nm, ty); sig += f" (v_{nm} : {LEANTY[ty]})"
        tr = Tr(fn, f["lean"], FUNCS, f["ret"], objparams)
        tr.helpers = helpers
        pre = []
        if capinit is not None:
            pre = [f"  let S := S.setHd this ⟨Ptr.null, Ptr.null, {capinit}⟩"]

        def kend(env2, ind2, tr=tr, fn=fn):
            if tr.ret != "unit":
                raise Refuse(f"{fn}: control reaches the end of a function that returns a value")
            return tr.result("()", ind2)
        lines = pre + tr.run(stmts, env, "  ", kend)
        for d in tr.loops:
            parts += d + [""]
        parts += [f"def {f['lean']} (fuel : Nat) (S : PS) (this : Nat){sig} : Option (PS × {LEANTY[f['ret']]}) :="] + lines + [""]
        summary.append(f"{f['lean']}:{len(stmts)}st/{len(tr.loops)}lp")
    parts += ["end Nstd.Generated.LifeArray", ""]
    text = "\n".join(parts)
    out_path = Path(out_path)
    out_path.parent.mkdir(parents=True, exist_ok=True)
    if not out_path.exists() or out_path.read_text() != text:
        out_path.write_text(text)
    return "Array.hpp translated: " + " ".join(summary)


if __name__ == "__main__":
    repo = sys.argv[1] if len(sys.argv) > 1 else "/repo"
    out = sys.argv[2] if len(sys.argv) > 2 else str(Path(__file__).resolve().parents[1] / "lean/Nstd/Generated/LifeArray.lean")
    try:
        print(generate(repo, out))
    except Refuse as e:
        print("REFUSED:", e)
        sys.exit(1)
