#!/usr/bin/env python3
"""Translator of the Variant area (property C07): tie by translation.

Reads include/nstd/Variant.hpp of the CURRENT sources (`NSTD_REPO`, default /repo), extracts the bodies of

    clear()                         Variant(const Variant&)            operator=(const Variant&)
    toMap() toList() toArray() toString()   (mutable)                  toMap() toList() toArray() const
    operator=(bool double int uint int64 uint64)                       operator=(const HashMap& List& Array& String&)
    getType() isNull() toBool() toInt() toUInt() toInt64() toUInt64() toDouble() toString() const       operator==(const Variant&)
    ~Variant()  Variant()  Variant(bool double int uint int64 uint64)  Variant(const HashMap& List& Array& String&)
    operator!=(const Variant&)  swap(Variant&)  NullData() + the definition of Variant::nullData in src/Variant.cpp

(tokenizer + recursive-descent parser of the C++ subset these bodies are written in) and writes them, statement by statement,
as Lean functions into lean/Nstd/Generated/VariantRep.lean (over the vocabulary of lean/Nstd/Variant/Raw.lean: the object is
the pointer `data` plus the member `_data`, the heap is the deep model's) and lean/Nstd/Generated/VariantCoerce.lean (the
read-only members, over `Val`).  lean/Nstd/Variant/PropsGen.lean proves every generated function equal to the step of the
deep model / the coercion of the value model.  Anything outside the understood subset is REFUSED (-> broken tie).

Rules of the translation (listed in the MANIFEST note):
  * control flow (`if/else`, `switch/case/break/default` incl. fall-through, early `return`, `&& || !` with short circuit) is
    translated generically in continuation-passing style; comments, formatting, names of locals do not matter;
    `NSTD_VERIF_RC_YIELD*` hook macros are dropped (they are empty without NSTD_VERIF_RC hooks).
  * `data->x` reads/writes go through the current target of `data` (static null descriptor / own `_data` / heap block);
    `other.data->x` reads the argument's descriptor; `&other != this` is the parameter `same`; `other` is only read where the
    text has established `&other != this`, and never after `clear()` ran (it may live in the released payload).
  * `((T*)(data + 1))->~T()` detaches the element Variants of the payload; they are destroyed (parameter `dtor` = the
    destructor one nesting level down) right after `delete[] (char*)data` — the deep model's order "unlink, then destroy".
  * `new char[sizeof(Data) + sizeof(T)]` + `new (p) T(src)` + `->type = K` + `->ref = N`: one allocation at the placement new
    with the two constants hoisted from the later statements (no handle to the block exists in between).
  * read-only members are evaluated per type tag: the tests on `data->type` are decided statically, the union member read under
    tag T must be the member that tag stores (anything else is a reinterpretation: refused); casts between integer types are
    value-preserving when the source range is inside the target range and reductions mod 2^32/2^64 otherwise; a double is
    opaque (`DblSem`); `String::to*`/`String::from*` are the area's definitions of them.
  * a constructor's member initialiser `: data(e)` is its first statement `data = e;`; `swap` is translated as calls of the translated
    copy constructor / operator= / destructor (locals destroyed at the end, last constructed first) on the objects `*this`, `other`
    and the locals, once with `other` aliasing `*this` (`same`) and once distinct; src/Variant.cpp must consist of the definition of
    `Variant::nullData` only.
  * `operator==`: per tag of `*this`; a test of `other.data->type` becomes a match on `other`; the containers' `operator==` on two
    payloads of the same type (`ceq`) and the recursive call `other == *this` (`flip`) are parameters; `#ifdef ASSERT` lines dropped.
"""
import hashlib
import re
import sys
from pathlib import Path

VERIF = Path(__file__).resolve().parents[1]
OUT_REP = VERIF / "lean" / "Nstd" / "Generated" / "VariantRep.lean"
OUT_COE = VERIF / "lean" / "Nstd" / "Generated" / "VariantCoerce.lean"


class Refuse(Exception):
    pass


# ---- lexing / extraction ---------------------------------------------------------------------------------------------
def clean(src):
    src = re.sub(r"/\*.*?\*/", " ", src, flags=re.S)
    src = re.sub(r"//[^\n]*", "", src)
    src = re.sub(r"(?m)^[ \t]*#[ \t]*(ifdef|ifndef|endif|else)\b[^\n]*$", "", src)      # `#ifdef ASSERT` around `default: ASSERT(false);`
    src = re.sub(r"NSTD_VERIF_RC_YIELD_EXPR\s*\(\s*\"\w+\"\s*,\s*&data->ref\s*\)", " ", src)
    src = re.sub(r"NSTD_VERIF_RC_YIELD\s*\(\s*\"\w+\"\s*,\s*&data->ref\s*\)\s*;", " ", src)
    return src


TOK = re.compile(r"\s*(->|==|!=|<=|>=|&&|\|\||\+\+|--|::|[A-Za-z_]\w*|\d+\.\d*|\d+|[{}()\[\];,<>=+\-*/!?:&.~|^%])")


def tokenize(text, what):
    toks, pos = [], 0
    text = text.strip()
    while pos < len(text):
        m = TOK.match(text, pos)
        if not m:
            raise Refuse(f"{what}: cannot tokenize at {text[pos:pos + 30]!r}")
        toks.append(m.group(1))
        pos = m.end()
    return toks


def balanced(src, start):
    depth = 0
    for i in range(start, len(src)):
        if src[i] == "{":
            depth += 1
        elif src[i] == "}":
            depth -= 1
            if depth == 0:
                return i + 1
    raise Refuse("unbalanced braces")


def extract(src, what, sig_rx):
    ms = list(re.finditer(sig_rx + r"\s*\{", src))
    if len(ms) != 1:
        raise Refuse(f"{what}: {len(ms)} definitions found, expected exactly one")
    end = balanced(src, ms[0].end() - 1)
    return src[ms[0].end():end - 1]


def extract_ctor(src, what, params_rx):
    """body of a constructor; the member initialiser `: data(e)` becomes the first statement `data = e;`"""
    ms = list(re.finditer(r"(?<![~\w])Variant\s*\(\s*" + params_rx + r"\s*\)\s*(?::\s*data\s*\(([^(){};]*)\)\s*)?\{", src))
    if len(ms) != 1:
        raise Refuse(f"{what}: {len(ms)} definitions found, expected exactly one")
    end = balanced(src, ms[0].end() - 1)
    init = f"data = {ms[0].group(1)};" if ms[0].group(1) is not None else ""
    return init + src[ms[0].end():end - 1]


BASE_TYPES = ["HashMap<String,Variant>", "List<Variant>", "Array<Variant>", "String", "Variant", "Data", "char", "double",
              "bool", "int64", "uint64", "int", "uint", "usize", "Value", "Type"]
TEMPLATES = set()      # names of the member templates of the class (filled by generate)
SRC = [""]             # the cleaned header (for the helper definitions inlined on demand)
KIND_OF = {"HashMap<String,Variant>": 7, "List<Variant>": 8, "Array<Variant>": 9, "String": 10}
FIELD = {"boolData": ("bool", 1), "doubleData": ("double", 2), "intData": ("int", 3), "uintData": ("uint", 4),
         "int64Data": ("int64", 5), "uint64Data": ("uint64", 6)}
CTOR_OF_TAG = {0: ".null", 1: ".bool x", 2: ".dbl x", 3: ".int x", 4: ".uint x", 5: ".int64 x", 6: ".uint64 x", 7: ".map x",
               8: ".list x", 9: ".array x", 10: ".str x"}
VAL_CTOR = {"bool": ".bool", "double": ".dbl", "int": ".int", "uint": ".uint", "int64": ".int64", "uint64": ".uint64"}
INT_RANGE = {"int": (-2**31, 2**31 - 1), "uint": (0, 2**32 - 1), "int64": (-2**63, 2**63 - 1), "uint64": (0, 2**64 - 1)}
WRAP = {"int": "wrapS 32", "uint": "wrapU 32", "int64": "wrapS 64", "uint64": "wrapU 64"}


# ---- parser ----------------------------------------------------------------------------------------------------------
class P:
    def __init__(self, toks, fn):
        self.t, self.i, self.fn = toks, 0, fn

    def peek(self, k=0):
        return self.t[self.i + k] if self.i + k < len(self.t) else None

    def eat(self, x=None):
        tok = self.peek()
        if tok is None or (x is not None and tok != x):
            raise Refuse(f"{self.fn}: expected {x!r}, found {tok!r}")
        self.i += 1
        return tok

    # types: (const, base, ptr, ref) or None (cursor restored)
    def try_type(self):
        save = self.i
        const = False
        if self.peek() == "const":
            self.eat(); const = True
        for b in BASE_TYPES:
            bt = tokenize(b, self.fn)
            if self.t[self.i:self.i + len(bt)] == bt:
                self.i += len(bt)
                ptr = 0
                while self.peek() == "*":
                    self.eat(); ptr += 1
                if ptr and self.peek() == "const":      # `Data* const p`
                    self.eat()
                ref = False
                if self.peek() == "&":
                    self.eat(); ref = True
                return (const, b, ptr, ref)
        self.i = save
        return None

    def stmts(self):
        out = []
        while self.peek() is not None and self.peek() not in ("}", "case", "default"):
            out.append(self.stmt())
        return out

    def stmt(self):
        tok = self.peek()
        if tok == "{":
            self.eat("{")
            b = self.stmts()
            self.eat("}")
            return ("block", b)
        if tok == "if":
            self.eat("if"); self.eat("(")
            c = self.expr()
            self.eat(")")
            a = self.stmt()
            b = ("block", [])
            if self.peek() == "else":
                self.eat("else")
                b = self.stmt()
            return ("if", c, a, b)
        if tok == "switch":
            self.eat("switch"); self.eat("(")
            c = self.expr()
            self.eat(")"); self.eat("{")
            cases = []          # (labels, stmts); label None = default
            while self.peek() != "}":
                labels = []
                while self.peek() in ("case", "default"):
                    if self.eat() == "case":
                        labels.append(self.expr_noternary())
                    else:
                        labels.append(None)
                    self.eat(":")
                if not labels:
                    raise Refuse(f"{self.fn}: statement before the first case label")
                cases.append((labels, self.stmts()))
            self.eat("}")
            return ("switch", c, cases)
        if tok == "break":
            self.eat(); self.eat(";")
            return ("break",)
        if tok == "return":
            self.eat("return")
            e = None if self.peek() == ";" else self.expr()
            self.eat(";")
            return ("return", e)
        if tok == "delete":
            self.eat("delete"); self.eat("["); self.eat("]")
            e = self.expr()
            self.eat(";")
            return ("delete", e)
        if tok in ("for", "while", "do", "goto", "continue", "try", "throw"):
            raise Refuse(f"{self.fn}: statement `{tok}` is outside the translated subset")
        if tok == "static":
            self.eat()
            ty = self.try_type()
            name = self.eat()
            self.eat(";")
            if ty is None or not ty[0] or ty[2] or ty[3]:
                raise Refuse(f"{self.fn}: static local other than `static const T x;`")
            return ("static", ty, name)
        save = self.i
        ty = self.try_type()
        if ty is not None and re.fullmatch(r"[A-Za-z_]\w*", self.peek() or "") and self.peek(1) == "=":
            name = self.eat()
            self.eat("=")
            e = self.expr()
            self.eat(";")
            return ("decl", ty, name, e)
        self.i = save
        e = self.expr()
        self.eat(";")
        return ("expr", e)

    def expr(self):
        c = self.expr_noternary()
        if self.peek() == "?":
            self.eat()
            a = self.expr()
            self.eat(":")
            b = self.expr()
            return ("cond", c, a, b)
        if self.peek() == "=":
            self.eat()
            return ("assign", c, self.expr())
        return c

    def expr_noternary(self):
        return self.binary(0)

    LEVELS = [["||"], ["&&"], ["==", "!="], ["<", "<=", ">", ">="], ["+", "-"]]

    def binary(self, lv):
        if lv == len(self.LEVELS):
            return self.unary()
        a = self.binary(lv + 1)
        while self.peek() in self.LEVELS[lv]:
            op = self.eat()
            a = ("bin", op, a, self.binary(lv + 1))
        return a

    def unary(self):
        tok = self.peek()
        if tok == "!":
            self.eat()
            return ("not", self.unary())
        if tok == "*":
            self.eat()
            return ("deref", self.unary())
        if tok == "&":
            self.eat()
            return ("addr", self.unary())
        if tok == "new":
            self.eat()
            if self.peek() == "(":
                self.eat("(")
                place = self.expr()
                self.eat(")")
                ty = self.try_type()
                if ty is None:
                    raise Refuse(f"{self.fn}: placement new of an unknown type")
                self.eat("(")
                args = self.args()
                return ("pnew", place, ty, args)
            ty = self.try_type()
            if ty is None or ty[1] != "char" or self.peek() != "[":
                raise Refuse(f"{self.fn}: `new` other than `new char[…]` / placement new")
            self.eat("[")
            n = self.expr()
            self.eat("]")
            return ("newarr", n)
        if tok == "sizeof":
            self.eat(); self.eat("(")
            ty = self.try_type()
            if ty is None:
                raise Refuse(f"{self.fn}: sizeof of an unknown type")
            self.eat(")")
            return ("sizeof", ty)
        if tok == "(":
            save = self.i
            self.eat("(")
            ty = self.try_type()
            if ty is not None and self.peek() == ")":
                self.eat(")")
                return ("cast", ty, self.unary())
            self.i = save
        if tok in ("~", "-", "+", "++", "--"):
            raise Refuse(f"{self.fn}: operator `{tok}` is outside the translated subset")
        return self.postfix()

    def args(self):
        out = []
        if self.peek() == ")":
            self.eat()
            return out
        while True:
            out.append(self.expr())
            if self.eat() == ")":
                return out
            if self.t[self.i - 1] != ",":
                raise Refuse(f"{self.fn}: argument list")

    def postfix(self):
        tok = self.eat()
        if tok == "(":
            a = self.expr()
            self.eat(")")
            a = ("paren", a)
        elif re.fullmatch(r"\d+\.\d*", tok):
            a = ("fnum", tok)
        elif re.fullmatch(r"\d+", tok):
            a = ("num", int(tok))
        elif tok in ("true", "false"):
            a = ("boollit", tok == "true")
        elif tok == "this":
            a = ("this",)
        elif re.fullmatch(r"[A-Za-z_]\w*", tok):
            name = tok
            while self.peek() == "::":
                self.eat()
                name += "::" + self.eat()
            a = ("id", name)
            if name in TEMPLATES and self.peek() == "<":
                self.eat("<")
                ty = self.try_type()
                if ty is None:
                    raise Refuse(f"{self.fn}: template argument of `{name}`")
                self.eat(">")
                a = ("tid", name, ty)
        else:
            raise Refuse(f"{self.fn}: unexpected token {tok!r}")
        while self.peek() in ("->", ".", "(", "[", "++", "--"):
            op = self.eat()
            if op == "(":
                a = ("call", a, self.args())
            elif op in ("->", "."):
                if self.peek() == "~":
                    self.eat()
                    ty = self.try_type()
                    if ty is None:
                        raise Refuse(f"{self.fn}: destructor call of an unknown type")
                    self.eat("("); self.eat(")")
                    a = ("dtor", a, ty)
                else:
                    f = self.eat()
                    if not re.fullmatch(r"[A-Za-z_]\w*", f):
                        raise Refuse(f"{self.fn}: member name {f!r}")
                    if f in TEMPLATES and self.peek() == "<":
                        self.eat("<")
                        ty = self.try_type()
                        if ty is None:
                            raise Refuse(f"{self.fn}: template argument of `{f}`")
                        self.eat(">")
                        a = ("tmem", a, f, ty, op == "->")
                    else:
                        a = ("mem", a, f, op == "->")
            else:
                raise Refuse(f"{self.fn}: operator `{op}` is outside the translated subset")
        return a


def strip(e):
    while e[0] == "paren":
        e = e[1]
    return e


def parse_body(body, fn):
    p = P(tokenize(body, fn), fn)
    st = p.stmts()
    if p.peek() is not None:
        raise Refuse(f"{fn}: trailing tokens at {p.peek()!r}")
    return st if "(helper " in fn else expand(st, fn)



# ---- private helpers of the class are inlined where they are called ---------------------------------------------------
KNOWN_CALLS = {"clear", "isNull", "toBool", "toInt", "toUInt", "toInt64", "toUInt64", "toDouble", "toString", "toMap", "toList", "toArray",
               "String", "ASSERT", "swap", "getType"}


def type_text(ty):
    return ("const " if ty[0] else "") + ty[1] + "*" * ty[2]


def find_helper(name):
    """(template parameter or None, parameter names, body text) of the member function `name`, defined exactly once"""
    ms = list(re.finditer(r"(?:template\s*<\s*typename\s+(\w+)\s*>\s*)?(?:static\s+)?(?:const\s+)?[\w:]+(?:\s*<[^;{}()]*>)?[\s*&]+" + name +
                          r"\s*\(([^()]*)\)\s*(?:const\s*)?\{", SRC[0]))
    if len(ms) != 1:
        return None
    m = ms[0]
    end = balanced(SRC[0], m.end() - 1)
    params = []
    for part in [x.strip() for x in m.group(2).split(",") if x.strip()]:
        pm = re.search(r"(\w+)$", part)
        params.append(pm.group(1))
    return m.group(1), params, SRC[0][m.end():end - 1]


def subst(e, mp):
    """replace identifiers by expressions, in expressions and statements"""
    if isinstance(e, list):
        return [subst(x, mp) for x in e]
    if isinstance(e, tuple) and e and isinstance(e[0], str):
        if e[0] == "id" and e[1] in mp:
            return ("paren", mp[e[1]])
        return tuple([e[0]] + [subst(x, mp) for x in e[1:]])
    if isinstance(e, tuple) and e and isinstance(e[0], list):
        return tuple(subst(x, mp) for x in e)          # (labels, stmts) of a switch case
    return e


def helper_call(e):
    """(name, template type or None, object or None, args) when `e` is a call of a member helper"""
    if e[0] != "call":
        return None
    f = strip(e[1])
    if f[0] == "id":
        return f[1], None, None, e[2]
    if f[0] == "tid":
        return f[1], f[2], None, e[2]
    if f[0] == "mem" and strip(f[1])[0] == "id" and not f[3]:
        return f[2], None, strip(f[1])[1], e[2]
    if f[0] == "tmem" and strip(f[1])[0] == "id" and not f[4]:
        return f[2], f[3], strip(f[1])[1], e[2]
    return None


def helper_body(call, fn):
    """the parsed, parameter-substituted body of the helper a call refers to, or None"""
    hc = helper_call(call)
    if hc is None:
        return None
    name, ty, obj, args = hc
    if name in KNOWN_CALLS or "::" in name:
        return None
    h = find_helper(name)
    if h is None:
        return None
    tparam, params, body = h
    if (tparam is None) != (ty is None) or len(params) != len(args):
        raise Refuse(f"{fn}: call of the helper `{name}` does not fit its definition")
    if tparam is not None:
        body = re.sub(r"\b" + tparam + r"\b", type_text(ty), body)
    sts = parse_body(body, f"{fn} (helper {name})")
    mp = {p: a for p, a in zip(params, args)}
    if obj is not None:       # the helper runs on another object: its `data` / `_data` are that object's
        mp["data"] = ("mem", ("id", obj), "data", False)
        mp["_data"] = ("mem", ("id", obj), "_data", False)
    return subst(sts, mp)


def expand_expr(e, fn, depth=0):
    if isinstance(e, list):
        return [expand_expr(x, fn, depth) for x in e]
    if not (isinstance(e, tuple) and e and isinstance(e[0], str)):
        return e
    e = tuple([e[0]] + [expand_expr(x, fn, depth) for x in e[1:]])
    if e[0] == "call" and depth < 8:
        b = helper_body(e, fn)
        if b is not None and len(b) == 1 and b[0][0] == "return" and b[0][1] is not None:
            return ("paren", expand_expr(b[0][1], fn, depth + 1))
    return e


def expand(sts, fn, depth=0):
    out = []
    for st in sts:
        tag = st[0]
        if tag in ("expr", "return") and st[1] is not None and strip(st[1])[0] == "call" and depth < 8:
            b = helper_body(strip(st[1]), fn)
            if b is not None and not (len(b) == 1 and b[0][0] == "return"):
                out.append(("block", expand(b, fn, depth + 1)))
                continue
        if tag == "block":
            out.append(("block", expand(st[1], fn, depth)))
        elif tag == "if":
            out.append(("if", expand_expr(st[1], fn), expand([st[2]], fn, depth)[0], expand([st[3]], fn, depth)[0]))
        elif tag == "switch":
            out.append(("switch", expand_expr(st[1], fn), [(labels, expand(body, fn, depth)) for labels, body in st[2]]))
        elif tag == "decl":
            out.append(("decl", st[1], st[2], expand_expr(st[3], fn)))
        elif tag in ("expr", "return", "delete"):
            out.append((tag, expand_expr(st[1], fn) if st[1] is not None else None))
        else:
            out.append(st)
    return out


# ---- representation functions (over Raw.Obj / Deep.Heap) --------------------------------------------------------------
class Rep:
    def __init__(self, fn, enum, kind=None, other=None, param=None):
        """other: None | 'variant' | 'pay' | ('scalar', ctype); kind: the accessor's / assignment's payload type"""
        self.fn, self.enum, self.kind, self.other, self.param = fn, enum, kind, other, param
        self.n = 0

    def fresh(self, b):
        self.n += 1
        return f"{b}{self.n}"

    def refuse(self, msg):
        raise Refuse(f"{self.fn}: {msg}")

    # -- classification of pointer / lvalue expressions ------------------------------------------------------------------
    def ptr(self, e, env):
        """which Data* is meant: 'this' (current value of `data`), 'other', ('new', local)"""
        e = strip(e)
        if e == ("id", "data"):
            return "this"
        if e == ("mem", ("id", self.param), "data", False) and self.other == "variant":
            self.need_other(env)
            return "other"
        if e[0] == "id" and e[1] in env["locals"]:
            k = env["locals"][e[1]]
            if k[0] == "ptr_other":
                self.need_other(env)
                return "other"
            if k[0] == "newblk":
                return ("new", e[1])
            if k[0] == "saved":
                return ("saved", k[1])
        if e[0] == "cast" and e[1][1] in ("Data", "char") and e[1][2] == 1:
            return self.ptr(e[2], env)
        self.refuse(f"pointer expression {e!r} is outside the translated subset")

    def objof(self, p):
        """the Lean object through which the pointer `p` ('this' or a saved value of `data`) is dereferenced"""
        return "this" if p == "this" else f"({{ this with data := {p[1]} }} : Raw.Obj)"

    def is_other_ptr(self, e, env):
        """`other.data` or a local initialised with it (no dereference, so no check)"""
        e = strip(e)
        if e == ("mem", ("id", self.param), "data", False) and self.other == "variant":
            return True
        return e[0] == "id" and e[1] in env["locals"] and env["locals"][e[1]][0] == "ptr_other"

    def need_other(self, env):
        if self.fn == "operator=(const Variant&)" and not env["distinct"]:
            self.refuse("reads `other` where `&other != this` is not established")
        if env["cleared"]:
            self.refuse("reads `other` after clear() (it may live in the payload clear() released)")

    def payptr(self, e, env):
        """`(T*)(p + 1)` or a local initialised with it: (pointer p, T)"""
        e = strip(e)
        if e[0] == "id" and e[1] in env["locals"] and env["locals"][e[1]][0] == "payof":
            return env["locals"][e[1]][1], env["locals"][e[1]][2]
        if e[0] == "cast" and e[1][1] in KIND_OF and e[1][2] == 1:
            inner = strip(e[2])
            if inner[0] == "bin" and inner[1] == "+" and strip(inner[3]) == ("num", 1):
                return self.ptr(inner[2], env), KIND_OF[e[1][1]]
        self.refuse(f"payload pointer expression {e!r} is outside the translated subset")

    def const_of(self, e):
        e = strip(e)
        if e[0] == "num":
            return e[1]
        if e[0] == "id" and e[1] in self.enum:
            return self.enum[e[1]]
        return None

    # -- values (natural numbers) in CPS: k(term, env) -> lean -----------------------------------------------------------
    def nat(self, e, env, k):
        e = strip(e)
        c = self.const_of(e)
        if c is not None:
            return k(str(c), env)
        if e[0] == "mem" and e[2] in ("ref", "type"):
            base = strip(e[1])
            if e[3]:                                   # p->ref / p->type
                p = self.ptr(base, env)
                r = self.fresh("r")
                if p == "this":
                    if env.get("pending"):
                        self.refuse("reads a field of the raw block before it is initialised")
                    return f"(match Raw.Obj.{e[2]} s this with\n | none => none\n | some {r} => {k(r, env)})"
                if p == "other":
                    return f"(match Raw.c{e[2]} s {self.param} with\n | none => none\n | some {r} => {k(r, env)})"
                if p[0] == "saved":
                    return f"(match Raw.Obj.{e[2]} s {self.objof(p)} with\n | none => none\n | some {r} => {k(r, env)})"
                self.refuse("reads a field of the new block")
            if base[0] == "id" and base[1] in env["locals"] and env["locals"][base[1]][0] == "desc":
                return k(f"{env['locals'][base[1]][1]}.{e[2]}", env)
        if e[0] == "call" and strip(e[1]) == ("id", "Atomic::decrement") and len(e[2]) == 1:
            a = strip(e[2][0])
            if a[0] == "mem" and a[2] == "ref" and a[3] and self.ptr(a[1], env) == "this":
                r = self.fresh("r")
                return f"(match Raw.Obj.decr s this with\n | none => none\n | some (s, this, {r}) => {k(r, env)})"
            if a[0] == "mem" and a[2] == "ref" and a[3] and self.ptr(a[1], env)[0] == "saved":
                r, q = self.fresh("r"), self.fresh("tq")
                return (f"(match Raw.Obj.decr s {self.objof(self.ptr(a[1], env))} with\n | none => none\n | some (s, {q}, {r}) => "
                        f"(let this : Raw.Obj := {{ this with own := {q}.own }};\n {k(r, env)}))")
        self.refuse(f"value expression {e!r} is outside the translated subset")

    # -- conditions in CPS -----------------------------------------------------------------------------------------------
    def cond(self, e, env, kt, kf):
        e = strip(e)
        if e[0] == "not":
            return self.cond(e[1], env, kf, kt)
        if e[0] == "bin" and e[1] == "&&":
            return self.cond(e[2], env, lambda en: self.cond(e[3], en, kt, kf), kf)
        if e[0] == "bin" and e[1] == "||":
            return self.cond(e[2], env, kt, lambda en: self.cond(e[3], en, kt, kf))
        if e[0] == "bin" and e[1] in ("==", "!="):
            sides = [strip(e[2]), strip(e[3])]
            if ("this",) in sides and ("addr", ("id", self.param)) in sides and self.other == "variant":
                eq = e[1] == "=="
                def yes(en):          # the objects are the same one
                    return kt(en) if eq else kf(en)
                def no(en):           # they are distinct: `other` may be read from here on
                    return kf(dict(en, distinct=True)) if eq else kt(dict(en, distinct=True))
                return f"(if same = true then {yes(env)} else {no(env)})"
        if e[0] == "bin" and e[1] in ("==", "!=") and self.other == "variant":
            a, b = strip(e[2]), strip(e[3])
            if (a == ("id", "data") and self.is_other_ptr(b, env)) or (b == ("id", "data") and self.is_other_ptr(a, env)):
                if env["cleared"]:
                    self.refuse("compares `data` with `other.data` after clear()")
                eq = e[1] == "=="
                same_k = kt if eq else kf
                diff_k = kf if eq else kt
                den = dict(env, distinct=True)
                return (f"(if same = true then {same_k(env)} else (if Raw.ptrEq this {self.param} = true then {same_k(den)} "
                        f"else {diff_k(den)}))")
        if e[0] == "bin" and e[1] in ("==", "!=", "<", "<=", ">", ">="):
            op = {"==": "=", "!=": "≠", "<": "<", "<=": "≤", ">": ">", ">=": "≥"}[e[1]]
            return self.nat(e[2], env, lambda a, en: self.nat(e[3], en, lambda b, en2:
                            f"(if {a} {op} {b} then {kt(en2)} else {kf(en2)})"))
        # a number used as a truth value
        return self.nat(e, env, lambda a, en: f"(if {a} ≠ 0 then {kt(en)} else {kf(en)})")

    # -- statements in CPS: k(env) = what follows; ret(env) = `return` ---------------------------------------------------
    def seq(self, sts, env, k, brk=None):
        if not sts:
            return k(env)
        st, rest = sts[0], sts[1:]
        kr = lambda en: self.seq(rest, en, k, brk)
        tag = st[0]
        if tag == "block":
            return self.seq(st[1] + rest, env, k, brk)
        if tag == "if":
            return self.cond(st[1], env, lambda en: self.seq([st[2]] + rest, en, k, brk),
                             lambda en: self.seq([st[3]] + rest, en, k, brk))
        if tag == "switch":
            return self.switch(st, env, kr)
        if tag == "break":
            if brk is None:
                self.refuse("`break` outside a switch")
            return brk(env)
        if tag == "return":
            return self.ret(st[1], env)
        if tag == "delete":
            dp = self.ptr(st[1], env)
            if dp != "this" and dp[0] != "saved":
                self.refuse("delete[] of something else than `data`")
            dead = env["dead"]
            h = f"(match Raw.Obj.free s {self.objof(dp)} with\n | none => none\n | some s => "
            en = dict(env, dead=[])
            for d in dead:
                h += f"(match Raw.destroyAll dtor s {d} with\n | none => none\n | some s => "
            return h + kr(en) + ")" * (1 + len(dead))
        if tag == "static":
            if st[1][1] not in KIND_OF:
                self.refuse("static local of an unknown type")
            return kr(dict(env, locals=dict(env["locals"], **{st[2]: ("static", KIND_OF[st[1][1]])})))
        if tag == "decl":
            return self.decl(st, rest, env, kr)
        if tag == "expr":
            return self.exprstmt(strip(st[1]), rest, env, kr)
        self.refuse(f"statement {tag}")

    def switch(self, st, env, kr):
        if not (strip(st[1])[0] == "mem" and strip(st[1])[2] == "type"):
            self.refuse("switch over something else than `data->type`")
        cases = st[2]
        bodies = []
        for i in range(len(cases)):
            body = []
            for j in range(i, len(cases)):
                body += cases[j][1]
                if cases[j][1] and cases[j][1][-1][0] in ("break", "return"):
                    break
            bodies.append(body)
        default = None
        arms = []
        for (labels, _), body in zip(cases, bodies):
            for l in labels:
                if l is None:
                    default = body
                else:
                    c = self.const_of(l)
                    if c is None:
                        self.refuse("case label is not a Type constant")
                    arms.append((c, body))
        if default is None:
            default = []

        def chain(t, en):
            out = ""
            for c, body in arms:
                out += f"(if {t} = {c} then {self.seq(body, en, kr, brk=kr)} else "
            return out + self.seq(default, en, kr, brk=kr) + ")" * len(arms)
        return self.nat(st[1], env, chain)

    def decl(self, st, rest, env, kr):
        ty, name, e = st[1], st[2], strip(st[3])
        loc = dict(env["locals"])
        if ty[1] == "Data" and ty[2] == 1:
            inner = e[2] if e[0] == "cast" else e
            if strip(inner)[0] == "newarr":
                loc[name] = ("newblk", self.sizeof_kind(strip(inner)[1]), None)
                return kr(dict(env, locals=loc))
            if self.is_other_ptr(e, env):
                loc[name] = ("ptr_other",)
                return kr(dict(env, locals=loc))
            if e == ("id", "data") and not env.get("pending"):
                pv = self.fresh("p")
                loc[name] = ("saved", pv)
                return f"(let {pv} : Raw.DPtr := this.data;\n {kr(dict(env, locals=loc))})"
            self.refuse(f"`Data* {name}` initialised with something else than `data` / `other.data` / new char[]")
        if ty[1] == "Data" and ty[2] == 0 and not ty[3]:
            if e[0] == "deref" and self.ptr(e[1], env) == "other":
                d = self.fresh("d")
                loc[name] = ("desc", d)
                return (f"(match Raw.descOf s {self.param} with\n | none => none\n | some {d} => "
                        f"{kr(dict(env, locals=loc))})")
            self.refuse(f"`Data {name}` initialised with something else than `*other.data`")
        if ty[1] in KIND_OF and ty[2] == 1:
            p, kind = self.payptr(e, env)
            if kind != KIND_OF[ty[1]]:
                self.refuse("payload pointer of another type")
            loc[name] = ("payof", p, kind)
            return kr(dict(env, locals=loc))
        self.refuse(f"declaration of `{name}`")

    def sizeof_kind(self, n):
        n = strip(n)
        if n[0] == "bin" and n[1] == "+" and strip(n[2]) == ("sizeof", (False, "Data", 0, False)) and strip(n[3])[0] == "sizeof" \
                and strip(n[3])[1][1] in KIND_OF:
            return KIND_OF[strip(n[3])[1][1]]
        self.refuse("allocation size is not sizeof(Data) + sizeof(T)")

    def hoisted(self, rest):
        """the constants `data->type = K; data->ref = N;` that initialise the new block later in the block"""
        found = {}
        names = ("data",) + tuple(n for n in (getattr(self, "_newname", None),) if n)
        def walk(sts):
            for s in sts:
                if s[0] == "block":
                    walk(s[1])
                elif s[0] == "expr":
                    e = strip(s[1])
                    if e[0] == "assign":
                        l = strip(e[1])
                        if l[0] == "mem" and l[3] and strip(l[1])[0] == "id" and strip(l[1])[1] in names and l[2] in ("type", "ref"):
                            c = self.const_of(e[2])
                            if c is None or l[2] in found:
                                self.refuse("initialisation of the new block is not a constant / is repeated")
                            found[l[2]] = c
        walk(rest)
        if set(found) != {"type", "ref"}:
            self.refuse("the new block's `type` and `ref` are not both initialised")
        return found

    def paysrc(self, args, env, k):
        """the argument of the placement new: the payload that is copy-constructed.  k(term of type Pay, env)"""
        if len(args) != 1:
            self.refuse("placement new with other than one argument")
        a = strip(args[0])
        if a == ("id", self.param) and self.other == "pay":
            return k(self.param, env)
        if a[0] == "call" and not a[2]:
            f = strip(a[1])
            if f[0] == "mem" and f[3] and strip(f[1]) == ("cast", (True, "Variant", 1, False), ("this",)) and \
                    f[2] in ("toMap", "toList", "toArray", "toString"):
                if env.get("pending") or env["cleared"]:
                    self.refuse("const accessor called on a released / raw object")
                p = self.fresh("p")
                if f[2] == "toString":
                    return (f"(match Raw.Obj.str ds s this with\n | none => none\n | some {p} => "
                            f"{k('(Pay.str ' + p + ')', env)})")
                return f"(match {f[2]}Const s this with\n | none => none\n | some {p} => {k(p, env)})"
        self.refuse(f"placement-new argument {a!r} is outside the translated subset")

    def exprstmt(self, e, rest, env, kr):
        if e[0] == "call":
            f = strip(e[1])
            if f == ("id", "clear") and not e[2]:
                if env.get("pending"):
                    self.refuse("clear() while `data` points to a raw block")
                return (f"(match clear dtor s this with\n | none => none\n | some (s, this) => "
                        f"{kr(dict(env, cleared=True, data_new=False))})")
            if f == ("id", "Atomic::increment") and len(e[2]) == 1:
                a = strip(e[2][0])
                if a[0] == "mem" and a[2] == "ref" and a[3]:
                    p = self.ptr(a[1], env)
                    if p == "this":
                        return f"(match Raw.Obj.incr s this with\n | none => none\n | some (s, this) => {kr(env)})"
                    if p == "other":
                        return f"(match Raw.cincr s {self.param} with\n | none => none\n | some s => {kr(env)})"
            self.refuse(f"call {f!r} is outside the translated subset")
        if e[0] == "dtor":
            p, kind = self.payptr(e[1], env)
            if (p != "this" and p[0] != "saved") or e[2][1] not in KIND_OF or KIND_OF[e[2][1]] != kind:
                self.refuse("destructor call on something else than the payload of `data`")
            d = self.fresh("dead")
            return (f"(match Raw.Obj.detach s {self.objof(p)} {kind} with\n | none => none\n | some {d} => "
                    f"{kr(dict(env, dead=env['dead'] + [d]))})")
        if e[0] == "pnew":
            p, kind = self.payptr(e[1], env)
            if e[2][1] not in KIND_OF or KIND_OF[e[2][1]] != kind:
                self.refuse("placement new of another type than the pointer's")
            if p == "this":
                if env.get("pending") != kind:
                    self.refuse("placement new into `data + 1` that is not a raw block of that type")
                name = None
            elif p[0] == "new" and env["locals"][p[1]] == ("newblk", kind, None):
                name = p[1]
            else:
                self.refuse("placement new into something else than the new block")
            self._newname = name
            init = self.hoisted(rest)
            pc, nb = self.fresh("pc"), self.fresh("nb")

            def after(src, en):
                loc = dict(en["locals"])
                if name is None:
                    en2 = dict(en, pending=None, data_new=True, init=init)
                    setd = f"(let this : Raw.Obj := {{ this with data := Raw.DPtr.blk {nb} }};\n {kr(en2)})"
                else:
                    loc[name] = ("newblk", kind, nb)
                    en2 = dict(en, locals=loc, init=init)
                    setd = kr(en2)
                return (f"(match copyPay s {src} with\n | (s, {pc}) => (match Raw.allocInit s {pc} {init['type']} {init['ref']} with\n"
                        f" | none => none\n | some (s, {nb}) => {setd}))")
            return self.paysrc(e[3], env, after)
        if e[0] == "assign":
            l, r = strip(e[1]), strip(e[2])
            upd = lambda fld, val: f"(let this : Raw.Obj := {{ this with {fld} := {val} }};\n "
            # data = …
            if l == ("id", "data"):
                if r == ("addr", ("id", "nullData")):
                    return upd("data", "Raw.DPtr.nullData") + kr(dict(env, data_new=False)) + ")"
                if r == ("addr", ("id", "_data")):
                    return upd("data", "Raw.DPtr.own") + kr(dict(env, data_new=False)) + ")"
                inner = strip(r[2]) if r[0] == "cast" else r
                if inner[0] == "newarr":
                    return kr(dict(env, pending=self.sizeof_kind(inner[1]), data_new=False))
                p = self.ptr(r, env) if not (r[0] == "id" and r[1] in env["locals"] and env["locals"][r[1]][0] == "ptr_other") else "other0"
                if p == "other0" or p == "other":
                    if p == "other0" and self.fn == "operator=(const Variant&)" and not env["distinct"]:
                        self.refuse("uses `other` where `&other != this` is not established")
                    q = self.fresh("q")
                    return (f"(match Raw.ptrOf {self.param} with\n | none => none\n | some {q} => " +
                            upd("data", q) + kr(dict(env, data_new=False)) + "))")
                if p[0] == "new":
                    nb = env["locals"][p[1]][2]
                    if nb is None:
                        self.refuse("`data = newData` before the payload is constructed")
                    return upd("data", f"Raw.DPtr.blk {nb}") + kr(dict(env, data_new=True)) + ")"
                self.refuse("assignment to `data`")
            # data->type = K / data->ref = N on the new block: hoisted to the allocation
            if l[0] == "mem" and l[3] and strip(l[1]) == ("id", "data") and l[2] in ("type", "ref"):
                if env.get("data_new") and env.get("init") and self.const_of(r) == env["init"][l[2]]:
                    return kr(env)
                self.refuse(f"`data->{l[2]} = …` outside the initialisation of a new block")
            if l[0] == "mem" and l[3] and strip(l[1])[0] == "id" and l[2] in ("type", "ref") and \
                    env["locals"].get(strip(l[1])[1], ("",))[0] == "newblk":
                if env["locals"][strip(l[1])[1]][2] is not None and env.get("init") and self.const_of(r) == env["init"][l[2]]:
                    return kr(env)         # initialisation of the new block through its own pointer: hoisted to the allocation
                self.refuse(f"`{strip(l[1])[1]}->{l[2]} = …` outside the initialisation of a new block")
            # _data = …
            if l == ("id", "_data"):
                if r[0] == "deref" and self.ptr(r[1], env) == "other":
                    d = self.fresh("d")
                    return (f"(match Raw.descOf s {self.param} with\n | none => none\n | some {d} => " +
                            upd("own", d) + kr(env) + "))")
                if r[0] == "id" and r[1] in env["locals"] and env["locals"][r[1]][0] == "desc":
                    return upd("own", env["locals"][r[1]][1]) + kr(env) + ")"
                self.refuse("assignment to `_data`")
            if l[0] == "mem" and not l[3] and strip(l[1]) == ("id", "_data") and l[2] in ("type", "ref"):
                c = self.const_of(r)
                if c is None:
                    self.refuse(f"`_data.{l[2]}` assigned a non-constant")
                return upd("own", f"{{ this.own with {l[2]} := {c} }}") + kr(env) + ")"
            if l[0] == "mem" and not l[3] and strip(l[1]) == ("mem", ("id", "_data"), "data", False) and l[2] in FIELD:
                if not (isinstance(self.other, tuple) and r == ("id", self.param)):
                    self.refuse("union member assigned something else than the parameter")
                if FIELD[l[2]][0] != self.other[1]:
                    self.refuse(f"union member `{l[2]}` assigned a value of type {self.other[1]} (implicit conversion)")
                return upd("own", f"{{ this.own with u := (Val{VAL_CTOR[self.other[1]]} {self.param}) }}") + kr(env) + ")"
            # *(T*)(data + 1) = other
            if l[0] == "deref" and self.other == "pay" and r == ("id", self.param):
                p, kind = self.payptr(l[1], env)
                if p != "this" or kind != self.kind:
                    self.refuse("payload assignment to something else than the payload of `data`")
                d = self.fresh("dead")
                return (f"(match Raw.Obj.assignPay s this {kind} {self.param} with\n | none => none\n | some (s, {d}) => "
                        f"(match Raw.destroyAll dtor s {d} with\n | none => none\n | some s => {kr(env)}))")
        self.refuse(f"statement {e!r} is outside the translated subset")

    def finish(self, env):
        if env.get("pending"):
            self.refuse("function ends with `data` pointing to a raw block")
        out = "some (s, this)"
        for d in reversed(env["dead"]):
            out = f"(match Raw.destroyAll dtor s {d} with\n | none => none\n | some s => {out})"
        return out

    def ret(self, e, env):
        if self.mode == "void":
            if e is not None:
                self.refuse("return with a value")
            return self.finish(env)
        e = strip(e)
        if self.mode == "self":
            if e != ("deref", ("this",)):
                self.refuse("returns something else than *this")
            return self.finish(env)
        if self.mode == "payref":          # mutable accessor: the payload of the block `data` points to
            if e[0] != "deref":
                self.refuse("returns something else than a payload reference")
            p, kind = self.payptr(e[1], env)
            ok = (p == "this") or (p[0] == "new" and env.get("data_new"))
            if not ok or kind != self.kind:
                self.refuse("returns a reference to something else than the payload of `data`")
            return self.finish(env)
        if self.mode == "constpay":
            if e[0] == "id" and env["locals"].get(e[1]) == ("static", self.kind):
                return f"some (Raw.emptyOf {self.kind})"
            if e[0] == "deref":
                p, kind = self.payptr(e[1], env)
                if p == "this" and kind == self.kind:
                    return f"Raw.Obj.pay s this {kind}"
            self.refuse("returns something else than the payload of `data` / the static empty container")
        self.refuse("return")

    def run(self, body, mode):
        self.mode = mode
        env = {"locals": {}, "dead": [], "distinct": False, "cleared": False, "pending": None, "data_new": False, "init": None}
        sts = parse_body(body, self.fn)
        if mode in ("payref", "constpay"):
            return self.seq(sts, env, lambda en: self.refuse("control reaches the end without a return"))
        return self.seq(sts, env, self.finish)


# ---- read-only members, per type tag (over Val) ------------------------------------------------------------------------
class Coe:
    def __init__(self, fn, enum, rtype):
        self.fn, self.enum, self.rtype = fn, enum, rtype

    def refuse(self, msg):
        raise Refuse(f"{self.fn}: {msg}")

    def const_of(self, e):
        e = strip(e)
        if e[0] == "num":
            return e[1]
        if e[0] == "id" and e[1] in self.enum:
            return self.enum[e[1]]
        return None

    def static(self, e, tag):
        """a condition / number over `data->type`, decided for the tag"""
        e = strip(e)
        c = self.const_of(e)
        if c is not None:
            return c
        if e[0] == "mem" and e[3] and strip(e[1]) == ("id", "data") and e[2] == "type":
            return tag
        if e[0] == "not":
            return not self.static(e[1], tag)
        if e[0] == "bin":
            a, b = self.static(e[2], tag), self.static(e[3], tag)
            return {"==": a == b, "!=": a != b, "&&": bool(a) and bool(b), "||": bool(a) or bool(b), "<": a < b, "<=": a <= b,
                    ">": a > b, ">=": a >= b}[e[1]]
        self.refuse(f"test {e!r} is not a test of `data->type`")

    def find_return(self, sts, tag):
        """run the statement list for the tag up to its `return`"""
        for i, st in enumerate(sts):
            if st[0] == "block":
                r = self.find_return(st[1], tag)
                if r is not None:
                    return r
            elif st[0] == "if":
                r = self.find_return([st[2] if self.static(st[1], tag) else st[3]], tag)
                if r is not None:
                    return r
            elif st[0] == "switch":
                if self.static(st[1], tag) != tag:
                    self.refuse("switch over something else than `data->type`")
                start = None
                for j, (labels, _) in enumerate(st[2]):
                    if any(l is not None and self.const_of(l) == tag for l in labels):
                        start = j
                if start is None:
                    for j, (labels, _) in enumerate(st[2]):
                        if None in labels:
                            start = j
                if start is not None:
                    body = []
                    for j in range(start, len(st[2])):
                        body += st[2][j][1]
                        if st[2][j][1] and st[2][j][1][-1][0] in ("break", "return"):
                            break
                    r = self.find_return([s for s in body if s[0] != "break"], tag)
                    if r is not None:
                        return r
            elif st[0] == "return":
                return st[1]
            elif st[0] == "decl" and (st[1][0] or st[1][3]) and st[1][2] == 0:
                # a const local / reference of a const member: an alias of its initialiser
                return self.find_return(subst(sts[i + 1:], {st[2]: st[3]}), tag)
            else:
                self.refuse(f"statement {st[0]} in a read-only member")
        return None

    # typed expressions: (lean term, ctype, partial) — partial: the term is an `Option`
    def ex(self, e, tag):
        e = strip(e)
        if e[0] == "num":
            return (f"({e[1]} : Int)", "int", False)
        if e[0] == "fnum":
            if not re.fullmatch(r"\d+\.0*", e[1]):
                self.refuse("floating literal with a fraction")
            return (f"(ds.ofInt {int(e[1].split('.')[0])})", "double", False)
        if e[0] == "boollit":
            return ("true" if e[1] else "false", "bool", False)
        if e[0] == "mem" and not e[3] and e[2] in FIELD and strip(e[1]) == ("mem", ("id", "data"), "data", True):
            ct, t = FIELD[e[2]]
            if t != tag:
                self.refuse(f"reads union member `{e[2]}` while the tag is {tag} (reinterpretation)")
            return ("x", ct, False)
        if e[0] == "mem" and e[3] and strip(e[1]) == ("id", "data") and e[2] == "type":
            return (f"({tag} : Nat)", "type", False)
        if e[0] == "cast" and e[1][2] == 0 and e[1][1] in ("int", "uint", "int64", "uint64", "double", "bool"):
            t, ct, part = self.ex(e[2], tag)
            if part:
                self.refuse("cast of a partial value")
            return self.conv(t, ct, e[1][1])
        if e[0] == "bin" and e[1] in ("!=", "=="):
            t, ct, part = self.ex(e[2], tag)
            z = strip(e[3])
            if part or z not in (("num", 0), ("fnum", "0.")) and not (z[0] == "fnum" and float(z[1]) == 0):
                self.refuse("comparison other than with zero")
            if ct == "double":
                b = f"(!ds.isZero {t})"
            elif ct in INT_RANGE:
                b = f"({t} != 0)"
            else:
                self.refuse("comparison of a non-number with zero")
            return (b if e[1] == "!=" else f"(!{b})", "bool", False)
        if e[0] == "cond":
            c, cct, cp = self.ex(e[1], tag)
            a, act, ap = self.ex(e[2], tag)
            b, bct, bp = self.ex(e[3], tag)
            if cct != "bool" or act != bct or cp or ap or bp:
                self.refuse("conditional expression outside the subset")
            return (f"(if {c} then {a} else {b})", act, False)
        if e[0] == "deref" and tag == 10:
            c = strip(e[1])
            if c[0] == "cast" and c[1][1] == "String" and c[1][2] == 1 and self.is_payload(c[2]):
                return ("x", "str", False)
        if e[0] == "call":
            f = strip(e[1])
            if f[0] == "mem" and not e[2] and tag == 10:
                c = strip(f[1])
                if not f[3] and c[0] == "deref":      # `(*p).m()` for `p->m()`
                    c = strip(c[1])
                elif not f[3]:
                    c = ("none",)
                if c[0] == "cast" and c[1][1] == "String" and c[1][2] == 1 and self.is_payload(c[2]):
                    m = {"toBool": ("(strToBool x)", "bool"), "toInt": ("(wrapS 32 (strtol x))", "int"),
                         "toUInt": ("(wrapU 32 (strtoul x))", "uint"), "toInt64": ("(strtol x)", "int64"),
                         "toUInt64": ("(strtoul x)", "uint64"), "toDouble": ("(ds.ofStr (cstr x))", "double")}
                    if f[2] in m:
                        return m[f[2]] + (False,)
            if f == ("id", "String") and not e[2]:
                return ("([] : Str)", "str", False)
            frm = {"String::fromBool": "bool", "String::fromDouble": "double", "String::fromInt": "int", "String::fromUInt": "uint",
                   "String::fromInt64": "int64", "String::fromUInt64": "uint64"}
            if f[0] == "id" and f[1] in frm and len(e[2]) == 1:
                t, ct, part = self.ex(e[2][0], tag)
                if part:
                    self.refuse("partial argument")
                t, ct, part = self.conv(t, ct, frm[f[1]])
                if part:
                    self.refuse("partial argument")
                if frm[f[1]] == "bool":
                    return (f"(if {t} then strTrue else strFalse)", "str", False)
                if frm[f[1]] == "double":
                    return (f"(ds.toStr {t})", "str", False)
                return (f"(intDec {t})", "str", False)
        self.refuse(f"expression {e!r} is outside the translated subset")

    def is_payload(self, e):
        e = strip(e)
        return e[0] == "bin" and e[1] == "+" and strip(e[2]) == ("id", "data") and strip(e[3]) == ("num", 1)

    def conv(self, t, a, b):
        if a == b:
            return (t, b, False)
        if a == "bool":
            if b in INT_RANGE:
                return (f"(b2i {t})", b, False)
            if b == "double":
                return (f"(ds.ofInt (b2i {t}))", b, False)
        if a in INT_RANGE:
            if b in INT_RANGE:
                (alo, ahi), (blo, bhi) = INT_RANGE[a], INT_RANGE[b]
                return (t if blo <= alo and ahi <= bhi else f"({WRAP[b]} {t})", b, False)
            if b == "double":
                return (f"(ds.ofInt {t})", b, False)
            if b == "bool":
                return (f"({t} != 0)", b, False)
        if a == "double":
            if b in INT_RANGE:
                return (f"(ds.{ {'int': 'toI32', 'uint': 'toU32', 'int64': 'toI64', 'uint64': 'toU64'}[b]} {t})", b, True)
            if b == "bool":
                return (f"(!ds.isZero {t})", b, False)
        self.refuse(f"conversion {a} -> {b}")

    def run(self, body):
        sts = parse_body(body, self.fn)
        arms = []
        partial = self.rtype in INT_RANGE
        for tag in range(11):
            e = self.find_return(sts, tag)
            if e is None:
                self.refuse(f"no return for tag {tag}")
            if self.rtype == "type":
                t, ct, part = self.ex(e, tag)
                if ct != "type":
                    self.refuse("getType returns something else than `data->type`")
            elif self.rtype == "typetest":
                t = "true" if self.static(e, tag) else "false"
                part = False
            else:
                t, ct, part = self.ex(e, tag)
                if ct == "int" and self.rtype != "int" and strip(e)[0] == "num":
                    # an integer literal takes the return type
                    if self.rtype == "double":
                        t, ct = f"(ds.ofInt {strip(e)[1]})", "double"
                    elif self.rtype == "bool":
                        t, ct = ("true" if strip(e)[1] else "false"), "bool"
                    else:
                        ct = self.rtype
                se = strip(e)
                if se[0] == "cond" and strip(se[2])[0] == "num" and strip(se[3])[0] == "num" and self.rtype in INT_RANGE:
                    ct = self.rtype          # 0/1 literals take the return type
                if not part:
                    t, ct, part = self.conv(t, ct, self.rtype)
            if partial and not part:
                t = f"some {t}"
            if part and not partial:
                self.refuse("partial value in a total member")
            pat = CTOR_OF_TAG[tag] if re.search(r"\bx\b", t) else CTOR_OF_TAG[tag].replace(" x", " _")
            arms.append(f"  | {pat} => {t}")
        return "\n".join(arms)




class Eq(Coe):
    """operator==(const Variant& other) per type tag of *this; the containers' operator== and the recursive call are parameters"""

    def dyn(self, e):
        """a test of `other.data->type` against a constant: the tag number, or None"""
        e = strip(e)
        if e[0] == "not":
            r = self.dyn(e[1])
            return None if r is None else (r[0], not r[1])
        if e[0] == "bin" and e[1] in ("==", "!="):
            for a, b in ((strip(e[2]), strip(e[3])), (strip(e[3]), strip(e[2]))):
                if a == ("mem", ("mem", ("id", "other"), "data", False), "type", True) and self.const_of(b) is not None:
                    return (self.const_of(b), e[1] == "==")
        return None

    def payload(self, e, who):
        """`*(const T*)(data + 1)` / `*(const T*)(other.data + 1)`: T's kind"""
        e = strip(e)
        if e[0] == "deref":
            c = strip(e[1])
            if c[0] == "cast" and c[1][1] in KIND_OF and c[1][2] == 1:
                inner = strip(c[2])
                base = ("id", "data") if who == "this" else ("mem", ("id", "other"), "data", False)
                if inner[0] == "bin" and inner[1] == "+" and strip(inner[2]) == base and strip(inner[3]) == ("num", 1):
                    return KIND_OF[c[1][1]]
        return None

    def pay_eq(self, e, tag, k):
        """`payload(this) == payload(other)` under the established `other.data->type == k`"""
        e = strip(e)
        if e[0] == "bin" and e[1] == "==" and self.payload(e[2], "this") == tag and self.payload(e[3], "other") == k and tag == k:
            return "(x == t)" if tag == 10 else "(ceq v other)"
        self.refuse(f"comparison {e!r} is not payload == payload of the tested type")

    def value(self, e, tag):
        e = strip(e)
        if e[0] == "boollit":
            return "some " + ("true" if e[1] else "false")
        if self.dyn(e) is not None:
            k, pos = self.dyn(e)
            return f"some ({'' if pos else '!'}(getType ds other == {k}))"
        if e[0] == "call" and not e[2]:
            f = strip(e[1])
            if f == ("mem", ("id", "other"), "isNull", False):
                return "some (isNull ds other)"
        if e[0] == "bin" and e[1] == "==":
            a, b = strip(e[2]), strip(e[3])
            if a == ("id", "other") and b == ("deref", ("this",)):
                return "(flip other v)"
            if b[0] == "call" and not b[2] and strip(b[1])[0] == "mem" and strip(strip(b[1])[1]) == ("id", "other") and not strip(b[1])[3]:
                t, ct, part = self.ex(a, tag)
                want = {"toBool": "bool", "toDouble": "double", "toInt": "int", "toUInt": "uint", "toInt64": "int64", "toUInt64": "uint64"}
                m = strip(b[1])[2]
                if t != "x" or m not in want or want[m] != ct:
                    self.refuse(f"`{m}()` compared with a member of another type (implicit conversion)")
                if ct == "bool":
                    return f"some (x == {m} ds other)"
                if ct == "double":
                    return f"some (ds.eq x ({m} ds other))"
                return f"(optEq x ({m} ds other))"
        if e[0] == "bin" and e[1] == "&&":
            k = self.dyn(e[2])
            if k is not None and k[1]:
                k = k[0]
                pat = CTOR_OF_TAG[k].replace(" x", " t")
                return f"(match other with | {pat} => {'some ' if k == 10 else ''}{self.pay_eq(e[3], tag, k)} | _ => some false)"
        self.refuse(f"expression {e!r} is outside the translated subset")

    def walk(self, sts, tag):
        for i, st in enumerate(sts):
            rest = sts[i + 1:]
            if st[0] == "block":
                return self.walk(st[1] + rest, tag)
            if st[0] == "if":
                k = self.dyn(st[1])
                if k is not None:
                    k, pos = k
                    yes, no = (st[2], st[3]) if pos else (st[3], st[2])
                    pat = CTOR_OF_TAG[k].replace(" x", " t")
                    a = self.walk_then([yes] + rest, tag, k)
                    return f"(match other with | {pat} => {a} | _ => {self.walk([no] + rest, tag)})"
                return self.walk([st[2] if self.static(st[1], tag) else st[3]] + rest, tag)
            if st[0] == "switch":
                start = None
                for j, (labels, _) in enumerate(st[2]):
                    if any(l is not None and self.const_of(l) == tag for l in labels):
                        start = j
                if start is None:
                    for j, (labels, _) in enumerate(st[2]):
                        if None in labels:
                            start = j
                body = []
                if start is not None:
                    for j in range(start, len(st[2])):
                        body += st[2][j][1]
                        if st[2][j][1] and st[2][j][1][-1][0] in ("break", "return"):
                            break
                return self.walk([s for s in body if s[0] != "break"] + rest, tag)
            if st[0] == "return":
                return self.value(st[1], tag)
            if st[0] == "decl" and (st[1][0] or st[1][3]) and st[1][2] == 0:
                return self.walk(subst(rest, {st[2]: st[3]}), tag)
            self.refuse(f"statement {st[0]} in operator==")
        self.refuse(f"no return for tag {tag}")

    def walk_then(self, sts, tag, k):
        """the branch where `other.data->type == k` holds: `return payload == payload;`"""
        flat = []
        def fl(xs):
            for x in xs:
                if x[0] == "block":
                    fl(x[1])
                else:
                    flat.append(x)
        fl(sts)
        st = flat[0] if flat else ("none",)
        if st[0] == "return":
            return ("some " if k == 10 else "") + self.pay_eq(st[1], tag, k)
        self.refuse("branch under a test of other's type is not a single return")

    def run(self, body):
        sts = parse_body(body, self.fn)
        arms = []
        for tag in range(11):
            t = self.walk(sts, tag)
            pat = CTOR_OF_TAG[tag] if re.search(r"\bx\b", t) else CTOR_OF_TAG[tag].replace(" x", " _")
            arms.append(f"  | {pat} => {t}")
        return "\n".join(arms)




class Swp:
    """`swap(Variant& other)`: a body of copy-initialised local Variants and assignments between `*this`, `other` and the locals,
    as calls of the translated copy constructor / operator= / (for the locals, at the end, in reverse order) destructor"""

    def __init__(self, fn, param):
        self.fn, self.param = fn, param

    def refuse(self, msg):
        raise Refuse(f"{self.fn}: {msg}")

    def obj(self, e, regs):
        e = strip(e)
        if e == ("deref", ("this",)):
            return regs["this"]
        if e[0] == "id" and e[1] in regs:
            return regs[e[1]]
        self.refuse(f"object expression {e!r} is outside the translated subset")

    def body(self, sts, regs, locs, n, result):
        if not sts:
            out = result
            for l in locs:                  # destructors, last constructed first (locs is kept in that order)
                out = f"(match destruct dtor s {l} with\n | none => none\n | some (s, {l}) => {out})"
            return out
        st, rest = sts[0], sts[1:]
        if st[0] == "decl" and st[1] == (False, "Variant", 0, False):
            src = self.obj(st[3], regs)
            reg = f"loc_{st[2]}"
            c = f"c{n}"
            k = self.body(rest, dict(regs, **{st[2]: reg}), [reg] + locs, n + 1, result)
            return (f"(match Raw.Obj.cell {src} with\n | none => none\n | some {c} => (match copyCtor s raw {c} with\n"
                    f" | none => none\n | some (s, {reg}) => {k}))")
        if st[0] == "expr" and strip(st[1])[0] == "assign":
            e = strip(st[1])
            l, r = self.obj(e[1], regs), self.obj(e[2], regs)
            c = f"c{n}"
            k = self.body(rest, regs, locs, n + 1, result)
            return (f"(match Raw.Obj.cell {r} with\n | none => none\n | some {c} => (match assign dtor s {l} {'true' if l == r else 'false'} {c} with\n"
                    f" | none => none\n | some (s, {l}) => {k}))")
        self.refuse(f"statement {st!r} is outside the translated subset")

    def run(self, body):
        sts = parse_body(body, self.fn)
        alias = self.body(sts, {"this": "this", self.param: "this"}, [], 1, "some (s, this, this)")
        dist = self.body(sts, {"this": "this", self.param: "other"}, [], 1, "some (s, this, other)")
        return f"(if same = true then {alias} else {dist})"




class Swp2:
    """`swap(Variant& other)` written on the representations: loads / stores of `data` and `_data` of the two objects, tests
    `data == &_data`, bool / Data / Data* locals, if/else.  A `data` pointer that moves to the other object must be the
    sentinel or a heap block (`Raw.xptr`: a pointer to the source's own `_data` would dangle: fault)."""

    def __init__(self, fn, param):
        self.fn, self.param, self.n = fn, param, 0

    def refuse(self, msg):
        raise Refuse(f"{self.fn}: {msg}")

    def fresh(self, b):
        self.n += 1
        return f"{b}{self.n}"

    def objreg(self, e, regs):
        """('this'|'other' register, field) of `data`, `_data`, `other.data`, `other._data`"""
        e = strip(e)
        if e[0] == "id" and e[1] in ("data", "_data"):
            return regs["this"], e[1]
        if e[0] == "mem" and not e[3] and strip(e[1]) == ("id", self.param) and e[2] in ("data", "_data"):
            return regs["other"], e[2]
        return None

    def boolex(self, e, regs, loc):
        e = strip(e)
        if e[0] == "id" and loc.get(e[1], ("",))[0] == "bool":
            return loc[e[1]][1]
        if e[0] == "not":
            return f"(!{self.boolex(e[1], regs, loc)})"
        if e[0] == "bin" and e[1] in ("&&", "||"):
            return f"({self.boolex(e[2], regs, loc)} {e[1]} {self.boolex(e[3], regs, loc)})"
        if e[0] == "bin" and e[1] in ("==", "!="):
            for a, b in ((strip(e[2]), strip(e[3])), (strip(e[3]), strip(e[2]))):
                oa = self.objreg(a, regs)
                if oa and oa[1] == "data" and b[0] == "addr":
                    ob = self.objreg(b[1], regs)
                    if ob and ob[1] == "_data" and ob[0] == oa[0]:
                        t = f"(Raw.isOwn {oa[0]})"
                        return t if e[1] == "==" else f"(!{t})"
        self.refuse(f"condition {e!r} is outside the translated subset")

    def body(self, sts, regs, loc, result):
        if not sts:
            return result
        st, rest = sts[0], sts[1:]
        k = lambda l=loc: self.body(rest, regs, l, result)
        if st[0] == "block":
            return self.body(st[1] + rest, regs, loc, result)
        if st[0] == "if":
            c = self.boolex(st[1], regs, loc)
            return (f"(if {c} = true then {self.body([st[2]] + rest, regs, loc, result)} "
                    f"else {self.body([st[3]] + rest, regs, loc, result)})")
        if st[0] == "decl":
            ty, name, e = st[1], st[2], strip(st[3])
            if ty[1] == "bool" and ty[2] == 0:
                v = self.fresh("b")
                return f"(let {v} : Bool := {self.boolex(e, regs, loc)};\n {k(dict(loc, **{name: ('bool', v)}))})"
            o = self.objreg(e, regs)
            if ty[1] == "Data" and ty[2] == 0 and not ty[3] and o and o[1] == "_data":
                v = self.fresh("d")
                return f"(let {v} : Raw.Desc := {o[0]}.own;\n {k(dict(loc, **{name: ('desc', v)}))})"
            if ty[1] == "Data" and ty[2] == 1 and o and o[1] == "data":
                v = self.fresh("p")
                return (f"(match Raw.xptr {o[0]}.data with\n | none => none\n | some {v} => "
                        f"{k(dict(loc, **{name: ('ptr', v)}))})")
            self.refuse(f"declaration of `{name}`")
        if st[0] == "expr" and strip(st[1])[0] == "assign":
            e = strip(st[1])
            l, r = self.objreg(e[1], regs), strip(e[2])
            if l is None:
                self.refuse("assignment to something else than `data` / `_data` of the two objects")
            reg, fld = l
            if fld == "_data":
                ro = self.objreg(r, regs)
                if ro and ro[1] == "_data":
                    val = f"{ro[0]}.own"
                elif r[0] == "id" and loc.get(r[1], ("",))[0] == "desc":
                    val = loc[r[1]][1]
                else:
                    self.refuse("`_data` assigned something else than a descriptor")
                return f"(let {reg} : Raw.Obj := {{ {reg} with own := {val} }};\n {k()})"
            # data = …
            if r[0] == "addr":
                ro = self.objreg(r[1], regs)
                if ro and ro[1] == "_data" and ro[0] == reg:
                    return f"(let {reg} : Raw.Obj := {{ {reg} with data := Raw.DPtr.own }};\n {k()})"
                self.refuse("`data` set to the address of the other object's `_data`")
            ro = self.objreg(r, regs)
            if ro and ro[1] == "data":
                v = self.fresh("p")
                return (f"(match Raw.xptr {ro[0]}.data with\n | none => none\n | some {v} => "
                        f"(let {reg} : Raw.Obj := {{ {reg} with data := {v} }};\n {k()}))")
            if r[0] == "id" and loc.get(r[1], ("",))[0] == "ptr":
                return f"(let {reg} : Raw.Obj := {{ {reg} with data := {loc[r[1]][1]} }};\n {k()})"
            self.refuse("assignment to `data`")
        self.refuse(f"statement {st!r} is outside the translated subset")

    def run(self, body):
        sts = parse_body(body, self.fn)
        alias = self.body(sts, {"this": "this", "other": "this"}, {}, "some (s, this, this)")
        dist = self.body(sts, {"this": "this", "other": "other"}, {}, "some (s, this, other)")
        return f"(if same = true then {alias} else {dist})"


# ---- driver ------------------------------------------------------------------------------------------------------------
def enum_of(src):
    m = re.search(r"enum\s+Type\s*\{([^}]*)\}", src)
    if not m:
        raise Refuse("enum Type not found")
    names = [x.strip() for x in m.group(1).split(",") if x.strip()]
    if any("=" in x for x in names):
        raise Refuse("enum Type with explicit values")
    want = ["nullType", "boolType", "doubleType", "intType", "uintType", "int64Type", "uint64Type", "mapType", "listType",
            "arrayType", "stringType"]
    if names != want:
        raise Refuse(f"enum Type is {names}; the models number the alternatives {want}")
    return {n: i for i, n in enumerate(names)}


T_MAP, T_LIST, T_ARR = r"HashMap\s*<\s*String\s*,\s*Variant\s*>", r"List\s*<\s*Variant\s*>", r"Array\s*<\s*Variant\s*>"
BOXED = [("Map", T_MAP, 7), ("List", T_LIST, 8), ("Array", T_ARR, 9), ("String", r"String", 10)]
SCALARS = [("Bool", "bool", "Bool"), ("Double", "double", "Nat"), ("Int", "int", "Int"), ("UInt", "uint", "Int"),
           ("Int64", "int64", "Int"), ("UInt64", "uint64", "Int")]


def generate(repo):
    src = clean((Path(repo) / "include/nstd/Variant.hpp").read_text())
    SRC[0] = src
    TEMPLATES.clear()
    TEMPLATES.update(re.findall(r"template\s*<\s*typename\s+\w+\s*>\s*(?:static\s+)?[^;{}()]*?(\w+)\s*\(", src))
    enum = enum_of(src)
    rep = []
    rep.append(("clear", "(dtor : Heap → Cell → Option Heap) (s : Heap) (this : Raw.Obj) : Option (Heap × Raw.Obj)",
                Rep("clear()", enum).run(extract(src, "clear()", r"void\s+clear\s*\(\s*\)"), "void")))
    rep.append(("copyCtor", "(s : Heap) (this : Raw.Obj) (other : Cell) : Option (Heap × Raw.Obj)",
                Rep("Variant(const Variant&)", enum, other="variant", param="other").run(
                    extract(src, "Variant(const Variant&)", r"\n\s*Variant\s*\(\s*const\s+Variant\s*&\s*other\s*\)"), "void")))
    rep.append(("assign", "(dtor : Heap → Cell → Option Heap) (s : Heap) (this : Raw.Obj) (same : Bool) (other : Cell) : Option (Heap × Raw.Obj)",
                Rep("operator=(const Variant&)", enum, other="variant", param="other").run(
                    extract(src, "operator=(const Variant&)", r"Variant\s*&\s*operator\s*=\s*\(\s*const\s+Variant\s*&\s*other\s*\)"), "self")))
    for name, trx, kind in BOXED[:3]:
        rep.append((f"to{name}Const", "(s : Heap) (this : Raw.Obj) : Option Pay",
                    Rep(f"to{name}() const", enum, kind=kind).run(
                        extract(src, f"to{name}() const", r"const\s+" + trx + r"\s*&\s*to" + name + r"\s*\(\s*\)\s*const"), "constpay")))
    for name, trx, kind in BOXED:
        rep.append((f"to{name}Mut", "(dtor : Heap → Cell → Option Heap) (ds : DblSem) (s : Heap) (this : Raw.Obj) : Option (Heap × Raw.Obj)",
                    Rep(f"to{name}()", enum, kind=kind).run(
                        extract(src, f"to{name}()", r"\n\s*" + trx + r"\s*&\s*to" + name + r"\s*\(\s*\)(?!\s*const)"), "payref")))
    for name, ct, lt in SCALARS:
        m = re.search(r"Variant\s*&\s*operator\s*=\s*\(\s*" + ct + r"\s+(\w+)\s*\)", src)
        if not m:
            raise Refuse(f"operator=({ct}) not found")
        rep.append((f"set{name}", f"(dtor : Heap → Cell → Option Heap) (s : Heap) (this : Raw.Obj) ({m.group(1)} : {lt}) : Option (Heap × Raw.Obj)",
                    Rep(f"operator=({ct})", enum, other=("scalar", ct), param=m.group(1)).run(
                        extract(src, f"operator=({ct})", r"Variant\s*&\s*operator\s*=\s*\(\s*" + ct + r"\s+\w+\s*\)"), "self")))
    for name, trx, kind in BOXED:
        m = re.search(r"Variant\s*&\s*operator\s*=\s*\(\s*const\s+" + trx + r"\s*&\s*(\w+)\s*\)", src)
        if not m:
            raise Refuse(f"operator=(const {name}&) not found")
        rep.append((f"set{name}", f"(dtor : Heap → Cell → Option Heap) (s : Heap) (this : Raw.Obj) ({m.group(1)} : Pay) : Option (Heap × Raw.Obj)",
                    Rep(f"operator=(const {name}&)", enum, kind=kind, other="pay", param=m.group(1)).run(
                        extract(src, f"operator=(const {name}&)", r"Variant\s*&\s*operator\s*=\s*\(\s*const\s+" + trx + r"\s*&\s*\w+\s*\)"), "self")))
    rep.append(("destruct", "(dtor : Heap → Cell → Option Heap) (s : Heap) (this : Raw.Obj) : Option (Heap × Raw.Obj)",
                Rep("~Variant()", enum).run(extract(src, "~Variant()", r"~Variant\s*\(\s*\)"), "void")))
    rep.append(("ctorNull", "(s : Heap) (this : Raw.Obj) : Option (Heap × Raw.Obj)",
                Rep("Variant()", enum).run(extract_ctor(src, "Variant()", r""), "void")))
    for name, ct, lt in SCALARS:
        m = re.search(r"(?<![~\w])Variant\s*\(\s*" + ct + r"\s+(\w+)\s*\)", src)
        if not m:
            raise Refuse(f"Variant({ct}) not found")
        rep.append((f"ctor{name}", f"(s : Heap) (this : Raw.Obj) ({m.group(1)} : {lt}) : Option (Heap × Raw.Obj)",
                    Rep(f"Variant({ct})", enum, other=("scalar", ct), param=m.group(1)).run(
                        extract_ctor(src, f"Variant({ct})", ct + r"\s+\w+"), "void")))
    for name, trx, kind in BOXED:
        m = re.search(r"(?<![~\w])Variant\s*\(\s*const\s+" + trx + r"\s*&\s*(\w+)\s*\)", src)
        if not m:
            raise Refuse(f"Variant(const {name}&) not found")
        rep.append((f"ctor{name}", f"(s : Heap) (this : Raw.Obj) ({m.group(1)} : Pay) : Option (Heap × Raw.Obj)",
                    Rep(f"Variant(const {name}&)", enum, kind=kind, other="pay", param=m.group(1)).run(
                        extract_ctor(src, f"Variant(const {name}&)", r"const\s+" + trx + r"\s*&\s*\w+"), "void")))
    m = re.search(r"void\s+swap\s*\(\s*Variant\s*&\s*(\w+)\s*\)", src)
    if not m:
        raise Refuse("swap(Variant&) not found")
    swap_body = extract(src, "swap(Variant&)", r"void\s+swap\s*\(\s*Variant\s*&\s*\w+\s*\)")
    try:
        swap_lean = Swp("swap(Variant&)", m.group(1)).run(swap_body)
    except Refuse as r1:
        try:
            swap_lean = Swp2("swap(Variant&)", m.group(1)).run(swap_body)
        except Refuse as r2:
            raise Refuse(f"{r1}; as an exchange of representations: {r2}")
    rep.append(("swap", "(dtor : Heap → Cell → Option Heap) (s : Heap) (raw this other : Raw.Obj) (same : Bool) : Option (Heap × Raw.Obj × Raw.Obj)",
                swap_lean))
    # the static null descriptor: `NullData() { type = nullType; ref = 0; }` and its definition in src/Variant.cpp
    nd = parse_body(extract(src, "NullData()", r"NullData\s*\(\s*\)"), "NullData()")
    consts = {}
    for st in nd:
        e = strip(st[1]) if st[0] == "expr" else None
        if e is None or e[0] != "assign" or strip(e[1])[0] != "id" or strip(e[1])[1] not in ("type", "ref") or strip(e[1])[1] in consts:
            raise Refuse("NullData(): statement other than `type = …; ref = …;`")
        v = strip(e[2])
        consts[strip(e[1])[1]] = v[1] if v[0] == "num" else enum.get(v[1]) if v[0] == "id" else None
    if set(consts) != {"type", "ref"} or None in consts.values():
        raise Refuse("NullData(): `type` and `ref` are not both set to constants")
    cpp = clean((Path(repo) / "src/Variant.cpp").read_text())
    cpp = re.sub(r"(?m)^\s*#\s*include[^\n]*$", "", cpp)
    if tokenize(cpp, "Variant.cpp") != ["Variant", "::", "NullData", "Variant", "::", "nullData", ";"]:
        raise Refuse("src/Variant.cpp contains more than the definition of Variant::nullData")
    text_rep = ("/- generated by tools/gen_variant.py from include/nstd/Variant.hpp - do not edit -/\n"
                "import Nstd.Variant.Raw\n\nset_option linter.unusedVariables false\n\n"
                "namespace Nstd.Generated.VariantRep\nopen Nstd.Variant Nstd.Variant.Deep\n\n")
    for name, sig, body in rep:
        text_rep += f"def {name} {sig} :=\n{indent(body)}\n\n"
    text_rep += ("/-- `Variant::nullData` (src/Variant.cpp: default-constructed `NullData`): the fields its constructor sets -/\n"
                 f"def nullDataType : Nat := {consts['type']}\ndef nullDataRef : Nat := {consts['ref']}\n\n")
    text_rep += "end Nstd.Generated.VariantRep\n"

    coe = []
    for name, rx, rtype, lt in [
            ("getType", r"Type\s+getType\s*\(\s*\)\s*const", "type", "Nat"),
            ("isNull", r"bool\s+isNull\s*\(\s*\)\s*const", "typetest", "Bool"),
            ("toBool", r"bool\s+toBool\s*\(\s*\)\s*const", "bool", "Bool"),
            ("toInt", r"\bint\s+toInt\s*\(\s*\)\s*const", "int", "Option Int"),
            ("toUInt", r"\buint\s+toUInt\s*\(\s*\)\s*const", "uint", "Option Int"),
            ("toInt64", r"\bint64\s+toInt64\s*\(\s*\)\s*const", "int64", "Option Int"),
            ("toUInt64", r"\buint64\s+toUInt64\s*\(\s*\)\s*const", "uint64", "Option Int"),
            ("toDouble", r"double\s+toDouble\s*\(\s*\)\s*const", "double", "Nat"),
            ("toStr", r"String\s+toString\s*\(\s*\)\s*const", "str", "Str")]:
        arms = Coe(name + "() const", enum, rtype).run(extract(src, name + "() const", rx))
        coe.append(f"def {name} (ds : DblSem) (v : Val) : {lt} :=\n  match v with\n{arms}\n")
    eq_arms = Eq("operator==", enum, "bool").run(extract(src, "operator==", r"bool\s+operator\s*==\s*\(\s*const\s+Variant\s*&\s*other\s*\)\s*const"))
    coe.append("/-- `operator==`: `ceq` = the containers' `operator==` on two payloads of the same type, `flip` = the call `other == *this` -/\n"
               "def eq (ds : DblSem) (ceq flip : Val → Val → Option Bool) (v other : Val) : Option Bool :=\n  match v with\n" + eq_arms + "\n")
    ne = parse_body(extract(src, "operator!=", r"bool\s+operator\s*!=\s*\(\s*const\s+Variant\s*&\s*other\s*\)\s*const"), "operator!=")
    ok = len(ne) == 1 and ne[0][0] == "return" and strip(ne[0][1])[0] == "not"
    if ok:
        inner = strip(strip(ne[0][1])[1])
        ok = inner[0] == "bin" and inner[1] == "==" and strip(inner[2]) == ("deref", ("this",)) and strip(inner[3]) == ("id", "other")
    if not ok:
        raise Refuse("operator!=: body is not `return !(*this == other);`")
    coe.append("/-- `operator!=` -/\ndef ne (ds : DblSem) (ceq flip : Val → Val → Option Bool) (v other : Val) : Option Bool :=\n"
               "  (eq ds ceq flip v other).map (fun b => !b)\n")
    text_coe = ("/- generated by tools/gen_variant.py from include/nstd/Variant.hpp - do not edit -/\n"
                "import Nstd.Variant.Val\n\nset_option linter.unusedVariables false\n\n"
                "namespace Nstd.Generated.VariantCoerce\nopen Nstd.Variant\n\n" + "\n".join(coe) +
                "\nend Nstd.Generated.VariantCoerce\n")
    return text_rep, text_coe


def indent(body):
    """re-indent the parenthesised term by nesting depth"""
    out, depth = [], 1
    for line in body.split("\n"):
        line = line.strip()
        out.append("  " * min(depth, 40) + line)
        depth += line.count("(") - line.count(")")
    return "\n".join(out)


def run(repo=None):
    """returns (ok, message); writes the generated files only when their content changed"""
    if repo is None:
        import common
        repo = common.REPO
    try:
        rep, coe = generate(repo)
    except (Refuse, OSError) as ex:
        # do not leave the generated text of some EARLIER tree in place: the Lean build must fail with this refusal, not with an
        # unrelated proof error (or, worse, pass on stale definitions)
        msg = re.sub(r'[^ -~]', '?', str(ex)).replace("\\", "/").replace('"', "'")[:600]
        stub = ("/- written by tools/gen_variant.py: the translator REFUSED the current include/nstd/Variant.hpp / src/Variant.cpp -/\n"
                f'example : "gen_variant refused: {msg}" = "" := by decide\n')
        OUT_REP.parent.mkdir(parents=True, exist_ok=True)
        for path in (OUT_REP, OUT_COE):
            if not path.exists() or path.read_text() != stub:
                path.write_text(stub)
        return False, f"gen_variant: {ex}"
    OUT_REP.parent.mkdir(parents=True, exist_ok=True)
    for path, text in ((OUT_REP, rep), (OUT_COE, coe)):
        if not path.exists() or path.read_text() != text:
            path.write_text(text)
    return True, hashlib.sha1((rep + coe).encode()).hexdigest()[:12]


def gen(ctx):
    ok, msg = run()
    if ok:
        ctx.notes.append("translator: Nstd/Generated/VariantRep.lean + VariantCoerce.lean regenerated from the current "
                         f"Variant.hpp (sha1 {msg})")
    return ok, msg


if __name__ == "__main__":
    sys.path.insert(0, str(VERIF / "tools"))
    ok, msg = run(sys.argv[1] if len(sys.argv) > 1 else None)
    print(("ok " if ok else "FAILED ") + msg)
    sys.exit(0 if ok else 1)
