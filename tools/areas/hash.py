"""C02  HashMap / HashSet / PoolMap behave as insertion-ordered unique-key tables."""
import hashlib
import itertools
import multiprocessing as mp
import re
from pathlib import Path
import common as C
import gen_hash

PROPERTIES = ["C02"]
MANIFEST = {
    "C02": {
        "technique": "Lean 4 proof: pointer-level model of HashMap/HashSet/PoolMap (cell back-pointers, nextCell chains, prev/next list with owned end sentinel, free list, item blocks) simulated by a chain-list model, which refines an insertion-ordered association list, for every capacity, hash function and op list (induction over op lists), incl. the members called with the object itself as argument; TIE BY TRANSLATION: the bodies of find/insert/remove/clear/swap/operator=/operator==/bulk append and remove/size/isEmpty/contains/front/back/append/prepend of the three headers are regenerated as Lean functions from the current sources on every run (tools/gen_hash.py) and proved equal to the model steps, and the refinement theorem is proved for the machine that executes the translated bodies; hash functions translated from Base.hpp / String.hpp with in-bounds and equal-keys-equal-codes theorems over the translation + differential correspondence of the chain-list model and the translated-bodies machine vs the real headers",
        "text": "Theorems over all operation histories (32 operations: constructors of any capacity, copy, assignment, append/prepend/positional insert, remove by key/iterator/value address, removeFront/Back, clear, swap, bulk append/remove with any overlap, a = a, a.swap(a), a.append(a), a.remove(a), value update, all queries incl. forward and BACKWARD iteration, dereferencing at a position, == and != also of a table with itself), all capacities >= 1 and all hash functions (hence every collision pattern) of the Lean models: results, iteration, equality and returned iterators equal those of the association-list specification; chains partition the live items by hash % capacity; cell back-pointers designate the referring cell; an existing key keeps its position (HashMap updates the value, HashSet/PoolMap untouched); self-append changes nothing, self-remove empties; backward iteration over the pointer structure is the reverse of the insertion order. The code as written: for HashMap, HashSet and PoolMap each, the bodies of find, insert(position, key[, value]), remove(iterator), remove(key), PoolMap remove(const V&), removeFront, removeBack, clear, swap(other), operator=, operator==, HashSet append(other)/remove(other), size, isEmpty, contains, front/back (all overloads), append, prepend, and the same bodies with other = the object itself are translated statement by statement from the current headers and proved equal to the steps of the pointer-level model (find, clear, swap, operator=, operator==, bulk append, the one-liners: on EVERY table; insert and remove, which re-read item->nextCell / item->cell / insertPos->prev after a store: on every table that represents a model state); gen_refines: the machine that executes the translated bodies returns, for every container kind, hash function, block size, capacities and operation history, exactly the results of the association-list specification. Client corollary: a HashSet keyed by addresses through the translated hash(const void*) with any bucket count, under the members Server calls on _closingClients, is exactly the plain list the C14 model keeps. The hash functions the library provides (nine integral/pointer overloads left active by the preprocessor, hash(const String&)) are translated from the current sources: String hash reads stay within text + terminator for every length, equal strings have equal codes whatever memory they point into (owned, literal, shared, attached unterminated view), integral overloads are functions of the bit pattern. On every run identical op lines are executed on the real code and, in lock-step, on the chain-list model and on the machine with the translated bodies (exhaustive small scope + random histories, capacities 0,1,2,3,8,500, five hash functions incl. constant, ASan/UBSan, forward/backward traversal, white-box comparison of every bucket chain, the free list and the order list as canonical item ids; a second build with nstd String keys materialised in twelve forms and the library's hash(const String&) whose key texts collide; a third build with -O2 and no sanitizers) and compared with an independent Python association-list reference.",
        "note": "Trusted: Lean kernel + the three standard axioms; the translators: tools/gen_hash.py (container bodies: tokenizer + parser of a small C++ subset, refuses everything else; conventions: nullable Item* = Option, dereferencing null / a field other than prev of a sentinel = fault, Item** = cell reference, (a = b)->f = c evaluates c, b, then stores, a read is repeated after every store, loops carry a fuel argument that starts as the size of the walked table, pointers into other's list read other's heap, swap symbolically over two heaps; its output is executed against the real code on every op line) and the two of tools/areas/hash.py (class constants; hash function bodies; type widths probed with the compiler; output run against the real functions by hashstr/hashnum/hashptr lines); the heap primitives the generated code is written in (setCell/setPrev/setNext/writeCell/readCell/prevOf/setPrevOf/constructAt of PtrModel.lean and GenSupport.lean). HAND-translated and only tied by the correspondence run: the constructors incl. the copy constructor (initial member values), the bucket array allocation and the item block allocation inside insert (recognised as a whole by their shape and replaced by allocBuckets / newBlockFirst / newBlockAll; N tied by the constants translator), the one-line members of Iterator (++, --, key, *, ->, ==, != : `it != _end` inside the translated bodies is read as comparison of the item pointers), the destructor. Abstractions of the model: one node heap per table (swap exchanges heaps as the code exchanges `blocks`), item addresses are block*ipb+slot numbers, fuel for loops (proved sufficient: no reachable fault), container keys/values are naturals with = and the container theorems take the hash function as an arbitrary parameter (consistency of hash and == of the key type is the assumption; proved for the library's own String and integral overloads), allocation never fails, destructors/constructors of elements are no-ops (element life-cycle: property C04). usize is 64 bit and char signed on this target (probed; the theorems are re-proved for what the probe says). The value of a hash code is compared between implementation and translated model only (no independent formula). The const overloads of ++/-- are run as op lines against the model op of the non-const member (same fields read). The proofs of insert / remove(iterator) / PoolMap remove(const V&) evaluate every read through the stores before it and compare heaps pointwise, so they hold for any statement order of the body that computes the same heap (harmless change C02-h1 re-proves); the loop lemmas and the name / parameter list of the function holding the link half of insert (insert_k1) follow the current code: a restructuring there can break an obligation although the property holds (reported without failing input). Proofs that depend on the shape of a body are alternatives (`first | shape of the header | other shape`): besides the header's shape, the helper shape of find / insert (findInChain, allocateItem, linkIntoChain, linkBefore), loops of operator= / the copy constructor in a helper or member, operator== with its cursors as locals, swap with a this == &other guard and an anchor() helper, remove with hoisted reads and commuted stores are covered (harmless C02-h4, C02-h6); other shapes can break an obligation although the property holds. The constructors are steps of gstep under the class-constant invariant (default capacity of every table = the header's; kept by every step). clear() and operator= of the translated code are tied as SIMULATIONS of the chain-list model (the table they leave represents t.clear / t.assignFrom; the coupling says nothing about cell / nextCell / next of released items), all other members as equations with the pointer-level model; gen_refines goes through the run-level simulation grun_sim. Open: the simulation proof of clear() exists for the per-item loop of the current header only; a clear() that zeroes the whole bucket array and splices the list onto the free list (harmless C02-h5) is still a broken obligation without failing input.",
        "design_ref": "DESIGN.md 3/C02",
    }
}
PROPS = ["Nstd.Hash.Props", "Nstd.Hash.PropsLink", "Nstd.Hash.PropsGen"]
LEAN_TARGETS = PROPS + ["drv_hash"]
DRIVER = "drv_hash"
SOURCES = ["hash.cpp", C.REPO / "src/Memory.cpp", C.REPO / "src/String.cpp"]

# ---- translator: class constants of the current sources -> lean/Nstd/Generated/HashConst.lean -----------------
GEN_OUT = C.LEAN / "Nstd" / "Generated" / "HashConst.lean"
HEADERS = {"Map": ("HashMap", "include/nstd/HashMap.hpp"), "Set": ("HashSet", "include/nstd/HashSet.hpp"),
           "Pool": ("PoolMap", "include/nstd/PoolMap.hpp")}


def _strip(src):
    src = re.sub(r"/\*.*?\*/", " ", src, flags=re.S)
    return re.sub(r"//[^\n]*", "", src)


def _resolve(tok, src):
    """integer value of a literal or of a constant named in the header (enum member / static const / #define)"""
    if re.fullmatch(r"\d+", tok):
        return int(tok)
    for rx in (r"enum\s*\w*\s*\{[^}]*\b" + tok + r"\s*=\s*(\d+)", r"static\s+const\s+\w+\s+" + tok + r"\s*=\s*(\d+)\s*;",
               r"#\s*define\s+" + tok + r"\s+(\d+)"):
        m = re.search(rx, src)
        if m:
            return int(m.group(1))
    return None


def read_constants(repo=None):
    """{'Map': (items per block, default capacity), ...} or raises ValueError.  The block size is the `N` of
    `new char[sizeof(ItemBlock) + sizeof(Item) * N]`; the fill loop `* end = <first> + N` must use the same value
    (otherwise the loop would run past the block or leave items unused: not a tie the model can follow).  The default
    capacity is the `capacity(N)` initialiser of the default constructor; the copy constructor must use the same."""
    repo = Path(repo or C.REPO)
    res = {}
    for tag, (cls, rel) in HEADERS.items():
        src = _strip((repo / rel).read_text())
        al = re.findall(r"new\s+char\s*\[\s*sizeof\s*\(\s*ItemBlock\s*\)\s*\+\s*sizeof\s*\(\s*Item\s*\)\s*\*\s*(\w+)\s*\]", src)
        lp = re.findall(r"\*\s*end\s*=\s*\w+\s*\+\s*(\w+)\s*;", src)
        if len(al) != 1 or len(lp) != 1:
            raise ValueError(f"{cls}: block allocation {al} / fill loop bound {lp}: expected exactly one of each")
        a, l = _resolve(al[0], src), _resolve(lp[0], src)
        if a is None or l is None:
            raise ValueError(f"{cls}: cannot evaluate items per block ({al[0]} / {lp[0]})")
        if a != l:
            raise ValueError(f"{cls}: the block is allocated for {a} items but the free-list fill loop covers {l}")
        if a < 1:
            raise ValueError(f"{cls}: {a} items per block")
        dc = re.findall(cls + r"\s*\(\s*\)\s*:[^{;]*?\bcapacity\s*\(\s*(\w+)\s*\)", src)
        cc = re.findall(cls + r"\s*\(\s*const\s+" + cls + r"\s*&\s*\w*\s*\)\s*:[^{;]*?\bcapacity\s*\(\s*(\w+)\s*\)", src)
        if len(dc) != 1 or len(cc) > 1:
            raise ValueError(f"{cls}: capacity initialiser of the default constructor {dc} / copy constructor {cc} not found")
        d = _resolve(dc[0], src)
        c = _resolve(cc[0], src) if cc else d
        if d is None or c is None or d < 1:
            raise ValueError(f"{cls}: cannot evaluate the default capacity ({dc} / {cc})")
        if c != d:
            raise ValueError(f"{cls}: default constructor capacity {d} but copy constructor capacity {c} (the model has one constant)")
        res[tag] = (a, d)
    return res


def translate(repo=None):
    try:
        k = read_constants(repo)
    except (OSError, ValueError) as e:
        return False, str(e)
    text = ("/- generated by tools/areas/hash.py (translate) from include/nstd/{HashMap,HashSet,PoolMap}.hpp - do not edit -/\n"
            "namespace Nstd.Generated.Hash\n\n")
    for tag, (cls, _) in HEADERS.items():
        text += (f"/-- `new char[sizeof(ItemBlock) + sizeof(Item) * N]` and `end = … + N` in `{cls}::insert` -/\n"
                 f"def itemsPerBlock{tag} : Nat := {k[tag][0]}\n"
                 f"/-- `capacity(N)` of `{cls}()` (and of the copy constructor) -/\n"
                 f"def defaultCapacity{tag} : Nat := {k[tag][1]}\n\n")
    text += "end Nstd.Generated.Hash\n"
    GEN_OUT.parent.mkdir(parents=True, exist_ok=True)
    if not GEN_OUT.exists() or GEN_OUT.read_text() != text:
        GEN_OUT.write_text(text)
    return True, " ".join(f"{t}:{v[0]}/{v[1]}" for t, v in k.items())


# ---- translator: the hash functions of the current sources -> lean/Nstd/Generated/HashFn.lean ------------------
GEN_FN = C.LEAN / "Nstd" / "Generated" / "HashFn.lean"


class TErr(Exception):
    pass


def _tokens(src):
    toks = re.findall(r"\s*(>>=|<<=|\*=|\^=|\+=|-=|\|=|&=|!=|==|>>|<<|[A-Za-z_]\w*|\d+[uUlL]*|[-+*/%^&|()\[\];=.,{}<>!~])", src)
    if "".join(toks) != re.sub(r"\s+", "", src):
        raise TErr("cannot tokenise: " + src.strip())
    return toks


# spellings of integer types whose width and signedness are probed with the compiler through Base.hpp
INT_TYPES = ["int8", "uint8", "int16", "uint16", "int32", "uint32", "int64", "uint64", "usize", "ssize", "byte", "uchar", "uint",
             "char", "signed char", "unsigned char", "short", "unsigned short", "short int", "unsigned short int", "int",
             "unsigned", "unsigned int", "long", "unsigned long", "long int", "unsigned long int", "long long",
             "unsigned long long", "long long int", "unsigned long long int"]
TYPE_WORDS = {w for t in INT_TYPES for w in t.split()}


class _Expr:
    """C expression -> Lean term, with the C type of every sub-expression.  A value is (term, type): type = (bits, signed)
    of an integer type (the term is its bit pattern), "lit" for a literal / comparison result, "ptr" for the pointer
    parameter.  Understood: casts between integer types in all three spellings (`(T)e`, `static_cast<T>(e)`, `T(e)`;
    `reinterpret_cast` / C cast of the pointer to an integer of pointer width), parentheses, `sizeof(T)`, literals, and
    the binary operators when the usual arithmetic conversions make the operation one in usize (an operand of type
    usize or of an unsigned type of the same width; the other operand is converted to it: sign / zero extension).
    Refused: arithmetic in narrower types (int promotion, signed overflow), anything `leaf` does not know.
    Precedence as in C (| ^ & == != << >> + - * / %)."""
    LEVELS = [["|"], ["^"], ["&"], ["==", "!="], ["<<", ">>"], ["+", "-"], ["*", "/", "%"]]
    FN = {"|": "uor", "^": "uxor", "&": "uand", "<<": "ushl", ">>": "ushr", "+": "uadd", "-": "usub", "*": "umul",
          "/": "udiv", "%": "umod"}

    def __init__(self, toks, leaf, types, ub, pb):
        self.t, self.i, self.leaf, self.types, self.ub, self.pb = toks, 0, leaf, types, ub, pb

    def peek(self, k=0):
        return self.t[self.i + k] if self.i + k < len(self.t) else None

    def take(self, x=None):
        v = self.peek()
        if v is None or (x is not None and v != x):
            raise TErr(f"expected {x!r}, found {v!r} in {' '.join(self.t)}")
        self.i += 1
        return v

    # ---- types
    def is_usize(self, ty):
        return ty == (self.ub, False)

    def usz(self, val):
        """the value converted to usize (implicit conversion of an operand / of the returned expression)"""
        term, ty = val
        if ty == "lit" or self.is_usize(ty):
            return term
        if ty == "ptr":
            raise TErr("the pointer parameter is used without a cast to an integer")
        return f"(castInt {ty[0]} {'true' if ty[1] else 'false'} {self.ub} {term})"

    def cast(self, val, to):
        term, ty = val
        if ty == "ptr":
            if to[0] != self.pb:
                raise TErr(f"cast of the pointer to an integer of {to[0]} bits")
            return (term, to)
        if ty == "lit":
            ty = (32, True)           # an int literal
        if ty == to:
            return (term, to)
        return (f"(castInt {ty[0]} {'true' if ty[1] else 'false'} {to[0]} {term})", to)

    def type_at(self, k):
        """an integer type spelled by the tokens from offset k on: (type, number of tokens) or None"""
        ws = []
        while self.peek(k + len(ws)) in TYPE_WORDS:
            ws.append(self.peek(k + len(ws)))
        name = " ".join(ws)
        return (self.types[name], len(ws)) if name in self.types else None

    # ---- grammar
    def parse(self, lvl=0):
        if lvl == len(self.LEVELS):
            return self.unary()
        a = self.parse(lvl + 1)
        while self.peek() in self.LEVELS[lvl]:
            op = self.take()
            b = self.parse(lvl + 1)
            both_lit = a[1] == "lit" and b[1] == "lit"
            if op in ("<<", ">>"):
                ok = both_lit or self.is_usize(a[1])        # the result has the (promoted) type of the LEFT operand
            else:
                ok = both_lit or self.is_usize(a[1]) or self.is_usize(b[1])
            if not ok or "ptr" in (a[1], b[1]):
                raise TErr(f"`{op}` on operands of types {a[1]} and {b[1]}: not an operation in usize")
            ty = "lit" if both_lit else (self.ub, False)
            x, y = self.usz(a), self.usz(b)
            if op == "!=":
                a = (f"(if {x} ≠ {y} then 1 else 0)", "lit")
            elif op == "==":
                a = (f"(if {x} = {y} then 1 else 0)", "lit")
            else:
                a = (f"({self.FN[op]} {x} {y})", ty)
        return a

    def unary(self):
        v = self.peek()
        if v == "(":
            t = self.type_at(1)
            if t is not None and self.peek(1 + t[1]) == ")":
                self.i += 2 + t[1]
                return self.cast(self.unary(), t[0])             # (T)e
            self.take("(")
            e = self.parse()
            self.take(")")
            return e
        if v in ("static_cast", "reinterpret_cast"):
            self.take()
            self.take("<")
            t = self.type_at(0)
            if t is None:
                raise TErr(v + " to a type that is not a known integer type")
            self.i += t[1]
            self.take(">")
            self.take("(")
            e = self.parse()
            self.take(")")
            if v == "reinterpret_cast" and e[1] != "ptr":
                raise TErr("reinterpret_cast of an integer")
            return self.cast(e, t[0])
        if v is not None and re.fullmatch(r"\d+[uUlL]*", v):
            self.take()
            n = int(re.sub(r"[uUlL]+$", "", v))
            if n >= 1 << 31:
                raise TErr("literal " + v)
            return (str(n), "lit")
        if v == "sizeof":
            self.take()
            self.take("(")
            ty = []
            while self.peek() != ")":
                ty.append(self.take())
            self.take(")")
            name = " ".join(ty)
            if name.replace(" ", "") == "void*":
                return (str(self.pb // 8), (self.ub, False))
            if name in self.types:
                return (str(self.types[name][0] // 8), (self.ub, False))
            raise TErr("sizeof(" + name + ")")
        t = self.type_at(0)
        if t is not None and self.peek(t[1]) == "(" and t[1] == 1:
            self.i += 1                                           # T(e)
            self.take("(")
            e = self.parse()
            self.take(")")
            return self.cast(e, t[0])
        return self.leaf(self)


def _probe_types(repo, names):
    """width in bits and signedness of the named types as the compiler sees them through Base.hpp"""
    import subprocess
    import tempfile
    body = "".join(f'  p<{n}>("{n}");\n' for n in names)
    prog = ('#include <stdio.h>\n#include <nstd/Base.hpp>\n'
            'template<class T> static void p(const char* n) { printf("%s|%d|%d\\n", n, (int)sizeof(T) * 8, (int)(T(-1) < T(0))); }\n'
            'int main() {\n' + body + '  printf("void*|%d|0\\n", (int)sizeof(void*) * 8);\n  return 0;\n}\n')
    with tempfile.TemporaryDirectory(prefix="hashfn-") as d:
        src, exe = Path(d) / "p.cpp", Path(d) / "p"
        src.write_text(prog)
        r = subprocess.run([C.CXX, "-std=gnu++11", "-DNSTD_VERIF", f"-I{repo}/include", str(src), "-o", str(exe)],
                           stdout=subprocess.PIPE, stderr=subprocess.STDOUT, text=True)
        if r.returncode != 0:
            raise TErr("type probe does not compile: " + r.stdout[-300:])
        out = subprocess.run([str(exe)], stdout=subprocess.PIPE, text=True).stdout
    res = {}
    for line in out.splitlines():
        n, w, sg = line.split("|")
        res[n] = (int(w), bool(int(sg)))
    return res


def read_hash_functions(repo=None):
    """the `hash` overloads of Base.hpp (after the real preprocessor has resolved the conditionals) and
    `hash(const String&)` of String.hpp, translated.  Returns a dict or raises TErr."""
    import subprocess
    repo = Path(repo or C.REPO)
    r = subprocess.run([C.CXX, "-E", "-P", "-std=gnu++11", "-DNSTD_VERIF", f"-I{repo}/include", "-x", "c++",
                        str(repo / "include/nstd/Base.hpp")], stdout=subprocess.PIPE, stderr=subprocess.DEVNULL, text=True)
    if r.returncode != 0:
        raise TErr("Base.hpp does not preprocess")
    base = r.stdout
    ovl = re.findall(r"inline\s+usize\s+hash\s*\(\s*([^()]*?)\s*(\w+)\s*\)\s*\{\s*return\s+([^;{}]*);\s*\}", base)
    if len(re.findall(r"\busize\s+hash\s*\(", base)) != len(ovl) or not ovl:
        raise TErr(f"Base.hpp: {len(ovl)} of the hash overloads have the form `inline usize hash(T v) {{return E;}}`")
    types = [t.strip() for t, _, _ in ovl if "*" not in t]
    info = _probe_types(repo, sorted(set(types + INT_TYPES)))
    ub = info["usize"][0]
    if info["usize"][1] or ub not in (32, 64):
        raise TErr(f"usize is {info['usize']}")
    pb = info["void*"][0]
    res = {"usize_bits": ub, "char_signed": info["char"][1], "ptr_bits": pb, "overloads": []}
    seen = set()
    for ty, par, body in ovl:
        ty = ty.strip()
        if "*" in ty:
            name, w, sg, pty = "ptr", pb, False, "ptr"
            if not re.fullmatch(r"const\s+void\s*\*", ty):
                raise TErr("pointer overload of hash with parameter type " + ty)
        else:
            if ty not in info:
                raise TErr("parameter type " + ty)
            name, (w, sg) = re.sub(r"\W+", "_", ty), info[ty]
            pty = (w, sg)
        if name in seen:
            raise TErr("two overloads for " + ty)
        seen.add(name)
        used = []

        def leaf(px, par=par, pty=pty, used=used, ty=ty, w=w):
            v = px.take()
            if v != par:
                raise TErr(f"hash({ty}) uses {v!r}")          # globals, calls
            used.append(v)
            if pty == "ptr" or pty == (ub, False):
                return (f"(castInt {w} false {w} {par})", pty)       # already of usize width: the bit pattern itself
            return (par, pty)
        px = _Expr(_tokens(body), leaf, info, ub, pb)
        term = px.usz(px.parse())                             # `return E;` converts E to usize
        if px.peek() is not None or not used:
            raise TErr(f"hash({ty}): cannot translate `{body.strip()}`")
        res["overloads"].append({"name": name, "ctype": ty, "bits": w, "signed": sg, "src": f"inline usize hash({ty} {par}) {{return {body.strip()};}}",
                                 "lean": term, "param": par})
    # ---- hash(const String&)
    ssrc = _strip((repo / "include/nstd/String.hpp").read_text())
    m = re.search(r"inline\s+usize\s+hash\s*\(\s*const\s+String\s*&\s*(\w+)\s*\)\s*\{([^{}]*)\}", ssrc)
    if not m:
        raise TErr("String.hpp: hash(const String&) not found")
    sp, body = m.group(1), m.group(2)
    stmts = [x.strip() for x in body.split(";") if x.strip()]
    lenv = accv = ptrv = None
    reads, lines, ret = [], [], None
    declared = set()

    def sleaf(px):
        v = px.take()
        if v == lenv:
            return ("len", (ub, False))
        if v == accv and getattr(px, "allow_acc", False):
            return (accv, (ub, False))
        if v == ptrv:
            # s[E]: E may depend on the length only
            px.take("[")
            sub = _Expr(px.t, sleaf, info, ub, pb)
            sub.i = px.i
            e = sub.usz(sub.parse())
            px.i = sub.i
            px.take("]")
            reads.append(e)
            return (f"(cs.getD {len(reads) - 1} 0)", (8, info["char"][1]))
        raise TErr(f"hash(const String&) uses {v!r}")
    for st in stmts:
        if ret is not None:
            raise TErr("statement after return in hash(const String&)")
        m1 = re.fullmatch(r"usize\s+(\w+)", st)
        if m1:
            declared.add(m1.group(1))
            continue
        m1 = re.fullmatch(r"usize\s+(\w+)\s*=\s*\(\s*(\w+)\s*=\s*" + sp + r"\s*\.\s*length\s*\(\s*\)\s*\)", st)
        if m1 and m1.group(2) in declared and accv is None:
            accv, lenv = m1.group(1), m1.group(2)
            lines.append(f"  let {accv} := len")
            continue
        m1 = re.fullmatch(r"const\s+char\s*\*\s*(\w+)\s*=\s*" + sp, st)
        if m1 and ptrv is None:
            ptrv = m1.group(1)       # `operator const char*() const`: the conversion modelled by StrView.conv
            continue
        m1 = re.fullmatch(r"(\w+)\s*(\*=|\^=|\+=|-=|\|=|&=|>>=|<<=)\s*(.+)", st)
        if m1 and m1.group(1) == accv and accv is not None:
            px = _Expr(_tokens(m1.group(3)), sleaf, info, ub, pb)
            px.allow_acc = True
            rhs = px.usz(px.parse())                          # the right operand is converted to usize
            if px.peek() is not None:
                raise TErr("cannot translate `" + st + "`")
            lines.append(f"  let {accv} := {_Expr.FN[m1.group(2)[:-1]]} {accv} {rhs}")
            continue
        m1 = re.fullmatch(r"return\s+(\w+)", st)
        if m1 and m1.group(1) == accv:
            ret = accv
            continue
        raise TErr("hash(const String&): cannot translate `" + st + "`")
    if ret is None or ptrv is None or not reads:
        raise TErr("hash(const String&): no return / no conversion to const char* / no character read")
    res["string"] = {"reads": reads, "lines": lines, "ret": ret, "src": " ".join(x + ";" for x in stmts)}
    return res


def translate_fn(repo=None):
    try:
        k = read_hash_functions(repo)
    except (OSError, TErr) as e:
        return False, "hash functions: " + str(e)
    ub = k["usize_bits"]
    M = 1 << ub
    t = ("/- generated by tools/areas/hash.py (translate_fn) from include/nstd/Base.hpp (after `g++ -E`) and\n"
         "   include/nstd/String.hpp - do not edit -/\nnamespace Nstd.Generated.HashFn\n\n"
         f"/-- `usize` has {ub} bits (probed with the compiler through Base.hpp); `M = 2 ^ {ub}` -/\n"
         f"def usizeBits : Nat := {ub}\ndef M : Nat := {M}\n\n"
         "/-- conversion of a value of a `w1`-bit integer type (signed: `s1`), given by its bit pattern `x`, to a `w2`-bit type:\n"
         "    truncation, or sign / zero extension (casts, the usual arithmetic conversions, the conversion of `return`) -/\n"
         "def castInt (w1 : Nat) (s1 : Bool) (w2 : Nat) (x : Nat) : Nat :=\n"
         "  (if s1 = true ∧ 2 ^ (w1 - 1) ≤ x ∧ w1 < w2 then 2 ^ w2 + x - 2 ^ w1 else x) % 2 ^ w2\n"
         f"def uadd (a b : Nat) : Nat := (a + b) % {M}\n"
         f"def usub (a b : Nat) : Nat := (a % {M} + {M} - b % {M}) % {M}\n"
         f"def umul (a b : Nat) : Nat := (a * b) % {M}\n"
         f"def udiv (a b : Nat) : Nat := (a % {M}) / (b % {M})\n"
         f"def umod (a b : Nat) : Nat := (a % {M}) % (b % {M})\n"
         f"def uxor (a b : Nat) : Nat := (a % {M}) ^^^ (b % {M})\n"
         f"def uand (a b : Nat) : Nat := (a % {M}) &&& (b % {M})\n"
         f"def uor (a b : Nat) : Nat := (a % {M}) ||| (b % {M})\n"
         f"def ushr (a b : Nat) : Nat := (a % {M}) >>> (b % {M})\n"
         f"def ushl (a b : Nat) : Nat := ((a % {M}) <<< (b % {M})) % {M}\n"
         f"/-- `char` is {'signed' if k['char_signed'] else 'unsigned'} on this target -/\n"
         f"def charSigned : Bool := {'true' if k['char_signed'] else 'false'}\n\n")
    for o in k["overloads"]:
        t += f"/-- `{o['src']}`   ({o['ctype']}: {o['bits']} bit, {'signed' if o['signed'] else 'unsigned'}) -/\n"
        t += f"def hash_{o['name']} ({o['param']} : Nat) : Nat := {o['lean']}\n\n"
    t += "/-- every overload: (parameter type, bits, signed, function of the bit pattern) -/\n"
    t += "def overloads : List (String × Nat × Bool × (Nat → Nat)) :=\n  [" + ",\n   ".join(
        f'("{o["ctype"]}", {o["bits"]}, {"true" if o["signed"] else "false"}, hash_{o["name"]})' for o in k["overloads"]) + "]\n\n"
    s = k["string"]
    t += f"/-- `hash(const String&)`: `{s['src']}`\n    the indices of the `s[..]` expressions, in program order -/\n"
    t += "def hashStringReads (len : Nat) : List Nat :=\n  [" + ", ".join(s["reads"]) + "]\n\n"
    t += "/-- the code computed from the length and the characters read (`cs`, in program order) -/\n"
    t += "def hashStringOf (len : Nat) (cs : List Nat) : Nat :=\n" + "\n".join(s["lines"]) + f"\n  {s['ret']}\n\n"
    t += "end Nstd.Generated.HashFn\n"
    GEN_FN.parent.mkdir(parents=True, exist_ok=True)
    if not GEN_FN.exists() or GEN_FN.read_text() != t:
        GEN_FN.write_text(t)
    return True, f"{len(k['overloads'])} hash overloads of Base.hpp + hash(const String&) ({len(s['reads'])} character reads), usize {ub} bit"


GEN_LINK = C.LEAN / "Nstd" / "Generated" / "HashLink.lean"


def translate_link(repo=None):
    """(ok, message): the bodies of find / insert / remove / clear / swap … of the CURRENT HashMap.hpp, HashSet.hpp, PoolMap.hpp
    -> lean/Nstd/Generated/HashLink.lean (tools/gen_hash.py); a shape outside the understood subset is refused"""
    try:
        return True, "container bodies translated: " + gen_hash.generate(repo or C.REPO, GEN_LINK)
    except gen_hash.Refuse as e:
        return False, "tools/gen_hash.py refuses the current container code (broken tie): " + str(e)
    except OSError as e:
        return False, "tools/gen_hash.py: " + str(e)


def gen(ctx):
    parts = [translate(), translate_fn(), translate_link()]
    if ctx is not None:
        ctx.cov.setdefault("translated", "items per block / default capacity " + parts[0][1] + "; " + parts[1][1] + "; " + parts[2][1])
    bad = [m for ok, m in parts if not ok]
    return not bad, bad[0] if bad else parts[2][1]


def setup():
    for ok, msg in (translate(), translate_fn(), translate_link()):
        if not ok:
            print("hash translate:", msg)


def ipb_flags():
    """compile flags that tell the harness the items-per-block constants (for the canonical item ids of `wb` lines)"""
    try:
        k = read_constants()
    except (OSError, ValueError):
        return []
    return [f"-DHASH_IPB_MAP={k['Map'][0]}", f"-DHASH_IPB_SET={k['Set'][0]}", f"-DHASH_IPB_POOL={k['Pool'][0]}"]


NOT_AVAILABLE = {
    "map": {"removeVal", "appendAll", "removeAll", "appendSelf", "removeSelf"},
    "set": {"removeVal", "setval"},
    "pool": {"copy", "assign", "assignSelf", "prepend", "appendAll", "removeAll", "appendSelf", "removeSelf", "notEqual"},
}


# ---- reference: insertion-ordered association list (independent of the Lean model) -----------------
class RefState:
    def __init__(self, kind="map", dom=6):
        self.kind, self.dom = kind, dom
        self.t = [[], []]          # lists of [key, value]

    def idx(self, t, k):
        for i, e in enumerate(self.t[t]):
            if e[0] == k:
                return i
        return None

    def insert(self, t, pos, k, v):
        i = self.idx(t, k)
        if i is not None:
            if self.kind == "map":
                self.t[t][i][1] = v
            return i
        self.t[t].insert(pos, [k, v if self.kind == "map" else 0])
        return pos

    def shown(self, e):
        return e[0] if self.kind == "set" else e[1]

    def table(self, t):
        l = self.t[t]
        it = ",".join(f"{k}:{v}" for k, v in l) or "-"
        f = ",".join("-" if self.idx(t, k) is None else str(self.idx(t, k)) for k in range(self.dom))
        c = "".join("0" if self.idx(t, k) is None else "1" for k in range(self.dom))
        fr = str(self.shown(l[0])) if l else "-"
        bk = str(self.shown(l[-1])) if l else "-"
        return f"n={len(l)} e={0 if l else 1} it={it} f={f} c={c} fr={fr} bk={bk}"

    def eq(self, a, b):
        if self.kind == "pool":
            return "-"
        if self.kind == "set":
            return "1" if [e[0] for e in self.t[a]] == [e[0] for e in self.t[b]] else "0"
        return "1" if self.t[a] == self.t[b] else "0"

    def line(self, res):
        return f"{res} || {self.table(0)} || {self.table(1)} || eq={self.eq(0, 1)} {self.eq(1, 0)} {self.eq(0, 0)}"


def reference(hist):
    st = RefState()
    out = []
    for line in hist:
        w = line.split()
        op = w[0]
        if op == "cfg":
            st = RefState(w[1], int(w[3]))
            out.append(st.line("unit"))
            continue
        if op == "origin":
            out.append(st.line("unit"))      # the form of the key arguments is not observable
            continue
        if op == "wb":
            out.append("*")          # white-box line: compared between implementation and model only
            continue
        if op in ("hashnum", "hashptr", "hashstr"):
            # the VALUE of a hash code is not an observable of C02 (the model's functions are translated from the
            # current sources; implementation and model are compared).  What the property needs is consistency:
            # one code per key, whatever form the key comes in (the harness computes it for every form).
            out.append("#")
            continue
        if op in NOT_AVAILABLE[st.kind]:
            out.append("bad-op")
            continue
        t = int(w[1])
        o = 1 - t
        a = [int(x) for x in w[2:]]
        l = st.t[t]
        res = "unit"
        if op in ("new", "newdef"):
            st.t[t] = []
        elif op in ("copy", "assign"):
            st.t[t] = [list(e) for e in st.t[o]]
        elif op in ("append", "prepend"):
            i = st.insert(t, len(l) if op == "append" else 0, a[0], a[1])
            if st.kind != "set":
                res = f"num {st.t[t][i][1]}"
        elif op == "insert":
            if a[0] > len(l):
                out.append("bad-op")
                continue
            res = f"num {st.insert(t, a[0], a[1], a[2])}"
        elif op == "remove":
            st.t[t] = [e for e in l if e[0] != a[0]]
        elif op in ("removeAt", "removeVal"):
            if a[0] >= len(l):
                out.append("bad-op")
                continue
            del l[a[0]]
            if op == "removeAt":
                res = f"num {a[0]}"
        elif op == "removeFront":
            if not l:
                out.append("bad-op")
                continue
            del l[0]
            res = "num 0"
        elif op == "removeBack":
            if not l:
                out.append("bad-op")
                continue
            del l[-1]
            res = f"num {len(l)}"
        elif op == "clear":
            st.t[t] = []
        elif op == "swap":
            st.t[t], st.t[o] = st.t[o], st.t[t]
        elif op == "appendAll":
            for e in list(st.t[o]):
                st.insert(t, len(st.t[t]), e[0], e[1])
        elif op == "removeAll":
            ks = {e[0] for e in st.t[o]}
            st.t[t] = [e for e in l if e[0] not in ks]
        elif op in ("front", "frontC", "back", "backC"):
            if not l:
                out.append("bad-op")
                continue
            res = f"num {st.shown(l[0] if op.startswith('front') else l[-1])}"
        elif op in ("iterate", "iterateC", "iterBack", "iterBackC"):
            ll = l if op.startswith("iterate") else l[::-1]
            res = "res " + (",".join(f"{k}:{v}" for k, v in ll) or "-")
        elif op == "entryAt":
            if a[0] >= len(l):
                out.append("bad-op")
                continue
            res = f"res {l[a[0]][0]}:{l[a[0]][1]}"
        elif op == "notEqual":
            if a[0] not in (0, 1):
                out.append("bad-op")
                continue
            res = "res " + ("0" if st.eq(t, a[0]) == "1" else "1")
        elif op in ("assignSelf", "swapSelf"):
            pass                         # a = a, a.swap(a): the table is what it was
        elif op == "appendSelf":
            for e in list(st.t[t]):      # a.append(a): every key is already there
                st.insert(t, len(st.t[t]), e[0], e[1])
        elif op == "removeSelf":
            ks = {e[0] for e in st.t[t]}
            st.t[t] = [e for e in l if e[0] not in ks]
        elif op == "setval":
            i = st.idx(t, a[0])
            if i is not None:
                l[i][1] = a[1]
        else:
            out.append("bad-op")
            continue
        out.append(st.line(res))
    return out


def ref_eq(impl, ref):
    if ref == "#":
        return re.fullmatch(r"num \d+", impl) is not None       # no HASH-DEPENDS-ON-ORIGIN / HASH-NOT-A-FUNCTION flag
    return ref == "*" and impl.startswith("wb ") or impl == ref


reference.eq = ref_eq


# ---- generators -----------------------------------------------------------------------------------
CAPS = [0, 1, 2, 3, 8, 500]
MODES = [0, 1, 2, 3, 4, 6]
KINDS = ["map", "set", "pool"]


ORIGINS = [0, 1, 2, 3, 4, 5, 6, 7, 8, 10, 11, 12, 9, 9, 9]     # forms of a String key argument (harness/hash.cpp StrForm); 9 = rotate on every use


def gen_history(rng, length, kind=None, mode=None, origins=False):
    kind = kind or rng.choice(KINDS)
    dom = rng.choice([3, 4, 6, 8])
    h = [f"cfg {kind} {rng.choice(MODES) if mode is None else mode} {dom}"]
    if origins and rng.random() < 0.6:
        h.append(f"origin {rng.choice(ORIGINS)}")
    for t in (0, 1):
        if rng.random() < 0.85:
            h.append(f"new {t} {rng.choice(CAPS)}")
    size = [0, 0]      # approximate sizes, for picking positions
    for _ in range(length):
        t = rng.randrange(2)
        k = rng.randrange(dom) if rng.random() < 0.97 else rng.randrange(dom, dom + 3)
        v = rng.randrange(1, 100)
        x = rng.random()
        pos = rng.randrange(size[t] + 1)
        if x < 0.22:
            op = f"append {t} {k} {v}"; size[t] += 1
        elif x < 0.32:
            op = f"prepend {t} {k} {v}" if kind != "pool" else f"insert {t} 0 {k} {v}"; size[t] += 1
        elif x < 0.44:
            op = f"insert {t} {pos} {k} {v}"; size[t] += 1
        elif x < 0.54:
            op = f"remove {t} {k}"
        elif x < 0.62:
            op = f"removeAt {t} {pos}"
        elif x < 0.66:
            op = f"removeVal {t} {pos}" if kind == "pool" else f"removeAt {t} {pos}"
        elif x < 0.70:
            op = f"removeFront {t}"
        elif x < 0.74:
            op = f"removeBack {t}"
        elif x < 0.77:
            op = f"clear {t}"; size[t] = 0
        elif x < 0.82:
            op = f"swap {t}"; size[0], size[1] = size[1], size[0]
        elif x < 0.86:
            op = f"assign {t}" if kind != "pool" else f"setval {t} {k} {v}"
        elif x < 0.89:
            op = f"copy {t}" if kind != "pool" else f"remove {t} {k}"
        elif x < 0.93:
            op = f"appendAll {t}" if kind == "set" else f"setval {t} {k} {v}"
        elif x < 0.96:
            op = f"removeAll {t}" if kind == "set" else f"setval {t} {k} {v}"
        elif x < 0.975:
            op = f"new {t} {rng.choice(CAPS)}"; size[t] = 0
        elif x < 0.98:
            op = f"newdef {t}"; size[t] = 0
        elif x < 0.985:
            op = rng.choice([f"front {t}", f"frontC {t}", f"back {t}", f"backC {t}", f"iterate {t}", f"iterateC {t}", f"iterBack {t}",
                             f"iterBackC {t}", f"entryAt {t} {pos}", f"notEqual {t} {rng.randrange(2)}"])
        elif x < 0.99:
            # the object itself as the argument (removeSelf empties the table: kept rare)
            op = rng.choice(["swapSelf", "assignSelf" if kind != "pool" else "swapSelf",
                             "appendSelf" if kind == "set" else "swapSelf",
                             "removeSelf" if kind == "set" and rng.random() < 0.5 else "swapSelf"]) + f" {t}"
            if op.startswith("removeSelf"):
                size[t] = 0
        elif x < 0.992:
            op = f"hashptr {rng.choice([0, 8, 4096, (1 << 47) - 8, (1 << 64) - 1, rng.randrange(1 << 64)])}"
        elif x < 0.995:
            w_ = rng.choice([8, 16, 32, 64])
            op = f"hashnum {w_} {rng.randrange(2)} {rng.choice([0, 1, (1 << (w_ - 1)) - 1, 1 << (w_ - 1), (1 << w_) - 1, rng.randrange(1 << w_)])}"
        else:
            op = "hashstr " + ("".join(f"{rng.randrange(256):02x}" for _ in range(rng.choice([0, 1, 2, 3, 5, 8]))) or "-")
        size[t] = min(size[t], dom + 3)
        if origins and rng.random() < 0.3:
            h.append(f"origin {rng.choice(ORIGINS)}")
        h.append(op)
        if rng.random() < 0.12:
            h.append(f"wb {rng.randrange(2)}")
    return h


def alphabet(kind):
    a = []
    for k in (0, 1, 2):
        a.append(f"append 0 {k} {k + 5}")
        a.append(f"remove 0 {k}")
    a += ["insert 0 1 2 9", "insert 0 0 3 4", "removeAt 0 0", "removeAt 0 1", "removeFront 0", "removeBack 0",
          "clear 0", "swap 0", "append 1 0 7", "append 1 3 8", "remove 1 1"]
    a += ["swapSelf 0"]
    if kind != "pool":
        a += ["prepend 0 1 6", "prepend 0 3 3", "assign 0", "assign 1", "copy 0", "copy 1", "assignSelf 0"]
    if kind == "set":
        a += ["appendAll 0", "appendAll 1", "removeAll 0", "removeAll 1", "appendSelf 0", "removeSelf 0"]
    if kind == "pool":
        a += ["removeVal 0 0", "removeVal 0 1", "setval 0 1 42", "append 0 3 0"]
    if kind == "map":
        a += ["setval 0 1 42"]
    return a


EX_CONFIGS = [(1, 1, 0), (2, 3, 0), (3, 2, 2), (8, None, 1), (2, 1, 3)]   # (cap of table 0, cap of table 1 | default, hash mode)


def ex_prefix(kind, c0, c1, mode):
    pre = [f"cfg {kind} {mode} 4", f"new 0 {c0}"] + ([f"new 1 {c1}"] if c1 is not None else [])
    return pre + ["append 0 1 11", "append 1 1 11", "append 1 2 12"]


QUERIES = ["frontC 0", "backC 0", "front 1", "back 1", "iterate 0", "iterateC 1", "iterBack 0", "iterBackC 0", "iterBack 1",
           "entryAt 0 0", "entryAt 0 1", "entryAt 0 2", "entryAt 1 1", "notEqual 0 1", "notEqual 1 0", "notEqual 0 0"]


def exhaustive(depth, deep_configs=None):
    """every op sequence of length 1..depth over the container's alphabet, for every configuration
    (`deep_configs`: indices of the configurations enumerated to `depth`, the others to `depth - 1`)"""
    hs = []
    for kind in KINDS:
        al = alphabet(kind)
        for n, (c0, c1, mode) in enumerate(EX_CONFIGS):
            pre = ex_prefix(kind, c0, c1, mode)
            dd = depth if deep_configs is None or n in deep_configs else depth - 1
            for d in range(1, dd + 1):
                for p in itertools.product(al, repeat=d):
                    hs.append(pre + list(p) + (QUERIES if d < dd else []) + ["wb 0", "wb 1"])
    return hs


def sampled(rng, lengths, n):
    """uniformly drawn op sequences of the given lengths over the same alphabets / configurations"""
    hs = []
    for _ in range(n):
        kind = rng.choice(KINDS)
        al = alphabet(kind)
        c0, c1, mode = rng.choice(EX_CONFIGS)
        hs.append(ex_prefix(kind, c0, c1, mode) + [rng.choice(al) for _ in range(rng.choice(lengths))] + QUERIES + ["wb 0", "wb 1"])
    return hs


def hash_histories(rng, n):
    """hash(const String&) of the same text in every form (the harness compares all forms on each `hashstr` line):
    the empty text, every 1-byte text, texts around the sampled positions, random texts"""
    hs = [["hashstr -"] + [f"hashstr {b:02x}" for b in range(256)]]
    h = []
    for _ in range(n):
        ln = rng.choice([0, 1, 2, 3, 4, 5, 7, 8, 16])
        h.append("hashstr " + ("".join(f"{rng.choice([0, 1, 0x7f, 0x80, 0xff, rng.randrange(256)]):02x}" for _ in range(ln)) or "-"))
    hs.append(h)
    # every integral overload at the boundaries of its type (sign extension), the pointer overload
    h = []
    for w_ in (8, 16, 32, 64):
        for sg in (0, 1):
            for x in (0, 1, (1 << (w_ - 1)) - 1, 1 << (w_ - 1), (1 << w_) - 1, rng.randrange(1 << w_)):
                h.append(f"hashnum {w_} {sg} {x}")
    h += [f"hashptr {x}" for x in (0, 1, 7, 8, 4096, (1 << 47) - 8, (1 << 63), (1 << 64) - 1, rng.randrange(1 << 64))]
    hs.append(h)
    return hs


def nontrivial(h, out):
    if len(h) < 4 or not out or out[-1] == "bad-op":
        return None
    return (h[0].split()[1], frozenset(l.split()[0] for l in h), tuple(out[-3:]))


def _mp_worker(args):
    harness, driver, part, timeout = args
    ds, nlines, done, crash, ios = C.run_batch(harness, driver, part, reference, C.default_eq, timeout)
    keys = set()
    for h, o in zip(part, ios):
        k = nontrivial(h, o)
        if k is not None:
            keys.add(hashlib.sha1(repr((k[0], sorted(k[1]), k[2])).encode()).digest()[:12])
    if crash and not ds:
        ds.append(C.Diff(part[-1] if part else [], max(0, len(part[-1]) - 1) if part else 0,
                         "impl-exit", f"exit code {crash[0]}", None, None, crash[1]))
    return ds, nlines, done, keys


def differential_mp(ctx, harness, driver, histories, timeout):
    """C.differential with worker PROCESSES: the Python reference and the comparison dominate the run time
    and do not run in parallel under threads.  Same verdict logic (C.run_batch), same counters."""
    if not histories:
        return []
    chunk = max(1, min(4000, (len(histories) + C.NCPU * 4 - 1) // (C.NCPU * 4)))
    parts = [(harness, driver, histories[i:i + chunk], timeout) for i in range(0, len(histories), chunk)]
    diffs, keys = [], set()
    with mp.get_context("fork").Pool(C.NCPU) as pool:
        for ds, nlines, done, ks in pool.imap(_mp_worker, parts):
            ctx.cov["evaluations"] += nlines
            ctx.cov["traces_validated_against_impl"] += done
            diffs += ds
            keys |= ks
    ctx.cov["distinct_nontrivial"] = ctx.cov.get("distinct_nontrivial", 0) + len(keys)
    return diffs


def is_string_history(h):
    return any(l.startswith("cfg ") and l.split()[2] == "5" for l in h)


def histories_for(ctx):
    rng = ctx.rng
    quick = ctx.tier == "quick"
    hs = [h for h in C.load_corpus(ctx.prop) if not is_string_history(h)]     # the others run on the String-key build
    ncorpus = len(hs)
    depth = 3
    # quick tier: length 3 for the all-in-one-bucket and the mod-2 configuration, length 2 for the other three
    ex = exhaustive(depth, {0, 2} if quick else None)
    smp = sampled(rng, [4, 5, 6], 10000 if quick else 1500000)
    rnd = [gen_history(rng, rng.choice([5, 10, 20, 40, 80])) for _ in range(6000 if quick else 250000)]
    ctx.cov["rule"] = (f"corpus ({ncorpus}) + exhaustive: for each container (map,set,pool) x {len(EX_CONFIGS)} (capacity, capacity, hash) configurations, "
                       f"all op sequences of length <= {depth} over the container's op alphabet ({', '.join(str(len(alphabet(k))) for k in KINDS)} ops; keys 0..3, two tables) "
                       f"after a 3-insert prefix ({len(ex)} histories, complete{'; length 3 for configurations 0 and 2, length 2 for the others' if quick else ''}) + {len(smp)} uniformly drawn sequences of length 4..6 over the same alphabets + {len(rnd)} random histories of 5..80 ops over 2 tables, capacities {CAPS}, hash modes "
                       "identity/constant/mod 2/complement/halving/the library's hash(const void*) of the key number, key domains 3..8; query lines (front/back/iterate/iterBack through the mutating and the const overloads, entryAt, notEqual) after every enumerated and drawn sequence and in the random histories; self-argument members (assignSelf, swapSelf, appendSelf, removeSelf) in the alphabets and in 1% of the random ops; hashnum at the boundaries of every integral type, hashptr, hashstr of the empty / every 1-byte / random texts in twelve String forms; every op line prints size, isEmpty, iteration, find of every key, contains, front/back, "
                       "== in both directions, returned iterator position, backward traversal and white-box chain consistency flags; `wb` lines (end of every enumerated history, 12% of "
                       "the random ops) compare capacity, block count, every bucket chain, the free list and the order list as canonical item ids (4*block+slot) with the model's stored data; "
                       "distinct_nontrivial = distinct (container, op-kind set, final observation)")
    ctx.cov["exhaustive"] = False
    ctx.cov["exhaustive_scope"] = (f"length<={depth} over the per-container alphabets x {len(EX_CONFIGS)} configurations"
                                   f"{' (length 3 for 2 of them, length 2 for 3)' if quick else ''}: {len(ex)} histories (complete)")
    return hs + hash_histories(rng, 500 if quick else 20000) + ex + smp + rnd


def check(ctx):
    ctx.assumptions += [
        "hash() and operator== of the key type are consistent (equal keys have equal hash codes; proved for String and the integral/pointer overloads of Base.hpp as translated from the current sources); keys/values are modelled as natural numbers",
        "two container objects per run; every binary member is run with the other object and with the object itself (a = a, a.swap(a), a.append(a), a.remove(a), a == a); element life-cycle is property C04",
        "translation conventions of tools/gen_hash.py: C++17 evaluation order of (a = b)->f = c; dereferencing null or a sentinel field other than prev is a fault; loops carry the size of the walked table as fuel (ptr_structure: it suffices in every reachable state)",
        "iterators passed to insert/remove designate a live item of the same container (or end() for insert); removeFront/removeBack/front/back need a non-empty container",
        "allocation never fails; usize width and char signedness as probed with the compiler (64 bit, signed here)",
    ]
    proof_ok = C.proof_stage(ctx, PROPS, [DRIVER], gen=gen, leanchecker=(ctx.tier == "thorough"))
    harness = C.build_harness(ctx, "hash", SOURCES, extra_flags=ipb_flags())
    if harness is None or not C.driver_path(DRIVER).exists():
        return
    try:
        hs = histories_for(ctx)
        if not proof_ok:
            ctx.log("proof stage broken: searching harder for a failing input")
            hs += [gen_history(ctx.rng, 40) for _ in range(10000)]
        ops = {}
        for h in hs:
            for l in h:
                ops[l.split()[0]] = ops.get(l.split()[0], 0) + 1
        ctx.cov["op_histogram"] = ops
        ctx.cov["samples"] = [" ; ".join(h) for h in (hs[-3:] + hs[len(hs) // 2: len(hs) // 2 + 2])]
        diffs = differential_mp(ctx, harness, C.driver_path(DRIVER), hs, 60 if ctx.tier == "quick" else 240)
        ctx.log(f"{len(hs)} histories, {ctx.cov['evaluations']} op lines, {len(diffs)} disagreement(s)")
        C.report_diffs(ctx, diffs, harness, C.driver_path(DRIVER), reference, C.default_eq, "hash-ops")
        extra_streams(ctx, hs)
    finally:
        try:
            harness.unlink()
        except OSError:
            pass


def extra_streams(ctx, hs):
    """(1) String keys: HashMap<String,int> / HashSet<String> / PoolMap<String,int> with the library's own
    hash(const String&) and String::operator== (hash mode 5 of the model = hashString of the key text; the key texts
    collide in three classes).  (2) the int-key harness built with -O2 and without sanitizers on the random histories:
    behaviour must not depend on the optimisation level (reads of indeterminate fields, lifetime assumptions)."""
    quick = ctx.tier == "quick"
    rng = ctx.rng
    n = 3000 if quick else 60000
    hstr = None
    try:
        hstr = C.build_harness(ctx, "hash_str", SOURCES, extra_flags=["-DKEY_STRING"] + ipb_flags())
        if hstr is not None:
            ss = [h for h in C.load_corpus(ctx.prop) if is_string_history(h)]
            ss += [gen_history(rng, rng.choice([5, 10, 20, 40]), mode=5, origins=True) for _ in range(n)]
            # the enumerated histories of configuration 0, with hash mode 5 and key arguments rotating through all forms
            def as_string_history(h):
                r = []
                for l in h:
                    if l.startswith("cfg "):
                        r += [" ".join(l.split()[:2] + ["5", "4"]), "origin 9"]
                    else:
                        r.append(l)
                return r
            ss += [as_string_history(h) for h in hs
                   if h and h[0].startswith("cfg ") and h[0].split()[2] == "0" and len(h) <= 11][:8000 if quick else 100000]
            ss += hash_histories(rng, 300 if quick else 5000)
            before = ctx.cov["evaluations"]
            diffs = differential_mp(ctx, hstr, C.driver_path(DRIVER), ss, 60 if quick else 240)
            ctx.log(f"string keys: {len(ss)} histories, {ctx.cov['evaluations'] - before} op lines, {len(diffs)} disagreement(s)")
            ctx.cov["string_key_histories"] = len(ss)
            ctx.cov["rule"] += (f"; + {len(ss)} histories on the build with nstd String keys (library hash(const String&) and operator==; key texts collide in 3 classes)")
            C.report_diffs(ctx, diffs, hstr, C.driver_path(DRIVER), reference, C.default_eq, "hash-ops-string-keys")
    finally:
        if hstr is not None:
            try:
                hstr.unlink()
            except OSError:
                pass
    hopt = None
    try:
        hopt = C.build_harness(ctx, "hash_o2", SOURCES, extra_flags=["-O2"] + ipb_flags(), sanitize=False)
        if hopt is not None:
            oo = [h for h in hs if len(h) > 12][:n * 2]
            before = ctx.cov["evaluations"]
            diffs = differential_mp(ctx, hopt, C.driver_path(DRIVER), oo, 60 if quick else 240)
            ctx.log(f"-O2 build: {len(oo)} histories, {ctx.cov['evaluations'] - before} op lines, {len(diffs)} disagreement(s)")
            ctx.cov["o2_build_histories"] = len(oo)
            ctx.cov["rule"] += f"; + {len(oo)} of the histories again on a -O2 build without sanitizers"
            C.report_diffs(ctx, diffs, hopt, C.driver_path(DRIVER), reference, C.default_eq, "hash-ops-O2")
    finally:
        if hopt is not None:
            try:
                hopt.unlink()
            except OSError:
                pass


def replay(ctx, path):
    h = C.parse_replay(path)
    text = open(path).read()
    # which build of the harness the history belongs to: the header written by report_diffs names the stream
    string_keys = "hash-ops-string-keys" in text or any(l.startswith("cfg ") and l.split()[2] == "5" for l in h) \
        or any(l.startswith("origin ") for l in h)
    o2 = "hash-ops-O2" in text
    if string_keys:
        harness = C.build_harness(ctx, "hash_str", SOURCES, extra_flags=["-DKEY_STRING"] + ipb_flags())
    elif o2:
        harness = C.build_harness(ctx, "hash_o2", SOURCES, extra_flags=["-O2"] + ipb_flags(), sanitize=False)
    else:
        harness = C.build_harness(ctx, "hash", SOURCES, extra_flags=ipb_flags())
    translate()
    translate_fn()
    translate_link()
    C.lake_build([DRIVER])
    diffs = C.differential(ctx, harness, C.driver_path(DRIVER), [h], reference, C.default_eq)
    for d in diffs:
        print(d.text())
        ctx.violation(f"replay: {d.kind}", d.text())
    harness.unlink()
