"""C08  Buffer is a faithful byte queue with a terminator and no stray writes."""
import itertools
import re
import common as C
import gen_buffer

PROPERTIES = ["C08"]
MANIFEST = {
    "C08": {
        "technique": "Lean 4 proof: representation invariant + refinement of a checked-memory model of Buffer.hpp to a byte-queue "
                     "specification, lifted by induction over arbitrary operation lists; tie by translation: tools/gen_buffer.py regenerates the "
                     "method bodies of the current Buffer.hpp as Lean functions and PropsTr proves them equal to the model's methods; "
                     "differential correspondence of the model "
                     "against the real Buffer.hpp (ASan/UBSan harness) + independent Python byte-queue oracle on every run",
        "text": "Proved in Lean (lean/Nstd/Buffer/Props.lean) for ALL operation lists over any number of Buffer variables and any "
                "attachable regions, no bound on sizes/offsets/history length: no_fault (well-formed histories never access memory "
                "outside the object's own allocation or the attached range, never store into attached memory, never touch a block after its "
                "delete[] and never delete[] a block twice - ledger_faults/delete_removes say that the model treats these as faults), "
                "terminator_zero (in every reachable state an owning Buffer has a readable 0 byte right after its data), refines (the exposed "
                "bytes of every variable match the byte-queue spec of Spec.lean; bytes newly exposed by a growing resize are unspecified), "
                "attached_untouched (regions are unchanged), att_store_faults, compare_no_fault, no_leak (every live allocation is the buffer "
                "of a variable), owned_blocks_live_and_exclusive (no dangling buffer pointer, no block owned twice), buffer_correct.  The model "
                "follows Buffer.hpp method by method and branch by branch with new/delete[]/accesses in the order of the C++ text over an "
                "allocation ledger (block ids + live set); the capacity a method gives a block it allocates is an environment parameter "
                "(any value >= what the method needs: every theorem is for ALL capacity policies, the correspondence run feeds the model the "
                "capacity the implementation reports after each op, so a changed growth policy does not break the tie while every branch "
                "decision still follows the code) (constructors, destructor, attach, operator=, assign, both prepend/append overloads "
                "incl. a.prepend(a)/a.append(a)/a=a and a.prepend/append/assign((const byte*)a + off, n) with a sub-range of a's own bytes, resize, reserve, removeFront/Back, clear, swap, "
                "free).  Added in the extension round: capacity_policy_bound (after any history every _capacity is at most the largest "
                "size any operation requested - Spec.demand on the reference queue - or the environment wished for; with today's policy the "
                "capacity never exceeds the largest size ever requested, a sliding window re-uses its allocation), reserve_keeps_content "
                "(reserve(n) in any reachable state: capacity >= n, not smaller than before, bytes and size of every variable unchanged), "
                "observers_agree (size() = number of exposed bytes = length of the reference queue, isEmpty() iff none, owning => size() <= "
                "capacity(), non-owning => capacity 0); PropsBacklog.backlog_faithful, the client-level theorem for the send backlog of "
                "Server.cpp:343-357,459-475 (for every sequence of append chunk | removeFront k<=size | clear | free on a default Buffer and "
                "every capacity policy: no fault, the Buffer exposes exactly the unsent suffix of the concatenation of the appended chunks, "
                "terminator kept, capacity <= max(high-water mark of the unsent bytes, largest wish)); PropsRaw: (pointer,size) arguments "
                "ANYWHERE in the Buffer's own allocation (head-room, exposed bytes, terminator, spare capacity) or attached range - model "
                "Raw.lean (prependPtr/appendPtr/assignPtr, mixed histories runX) - raw_no_fault (histories whose raw ranges lie inside the "
                "block of their variable where they are executed never fault: no out-of-range access, no use of released storage, no "
                "overlapping memcpy), raw_correct (byte queue with the argument = the queue's bytes where it overlaps them, unspecified "
                "elsewhere; terminator; attached memory; ledger), raw_arg_accepted, raw_outside_block_faults, runX_extends_run, "
                "capacity_policy_bound_raw (the capacity bound for mixed histories).  Round 2: backlog_faithful_multi (any number of clients, any "
                "interleaving of their backlog operations: every client's Buffer exposes exactly ITS unsent suffix and its capacity is bounded by "
                "ITS OWN high-water mark / wishes - per-variable step_cap_var), client_model_follows_protocol (the client model writeOps/readyOps "
                "of Client.lean - ClientImpl::write and the write-readiness branch of Server::run - performs only append / removeFront(0 < sent "
                "<= size) / free).  The REAL backlog code of Server.cpp is executed on every run: harness/buffer_backlog.cpp compiles Server.cpp "
                "into its translation unit, drives ClientImpl::write and run()'s write-readiness branch of two clients with send() and epoll_wait "
                "scripted, prints the white-box state of each _sendBuffer; the same lines run on the client model over the Buffer model, and a "
                "stream-conservation oracle (buffer = bytes written minus bytes send accepted; send is offered the whole backlog; postponed; "
                "onWrite iff drained; closed iff send failed or accepted nothing) is evaluated on the implementation's output.  "
                "Round 7: client_backlog_faithful (PropsClient) - the whole-history composition: for any number of clients and EVERY list of "
                "client events (ClientImpl::write / write-readiness event, any answer of send, any capacity wish, any interleaving) the client "
                "model clientStep - the function the correspondence run executes for cw/cr lines - never faults and every _sendBuffer holds exactly "
                "the pending bytes of the stream-conservation view (written minus accepted by send; nothing once closed), size, terminator, "
                "capacity <= max(high-water mark of its pending bytes, its wishes); stream_conservation (the specification is conservation of bytes).  "
                "TIE BY TRANSLATION (PropsTr, PropsTr2): tools/gen_buffer.py (typed parser of the C++ subset; refuses anything else) regenerates on every run "
                "lean/Nstd/Generated/BufferBody.lean from the current Buffer.hpp - the bodies of both constructors, destructor, attach, operator=, "
                "assign, prepend(data,size), resize, both appends, removeFront, removeBack, reserve, clear, swap, free, statement by statement over the "
                "checked-memory machine CMem.lean (pointer = (block, offset)) - and tr_resize, tr_removeFront, tr_removeBack, tr_clear, tr_free, tr_attach, "
                "tr_reserve, tr_prepend, tr_assign, tr_assignBuf, tr_swap, tr_appendBuf, tr_append prove: generated method = hand-written model method "
                "(at the capacity wish = the _capacity the translated source ends with; with today's source that is the model's wish-0 behaviour) on every "
                "state that satisfies the representation invariant with a live block, for arguments outside the object - same "
                "faults, pointers, _capacity, bytes, ledger.  A change of one of these bodies changes the generated definition and the proof fails; the proof "
                "scripts decide the source's conditions by omega from semantic case hypotheses, split on conditions those do not determine and unfold whatever "
                "helper the translator generated (simp set tr_gen), so behaviour-preserving rewrites (early returns, re-spelled or re-ordered comparisons, named "
                "temporaries: harmless C08-h1/h2) keep the proofs; a rewrite whose symbolic execution is too large (C08-h3: append -> grow -> reserve -> resize) is "
                "reported as a broken tie without failing input.  "
                "The model is tied to the current Buffer.hpp on every run: identical op lines are executed by a harness built from the "
                "current sources (fresh memory poisoned, attached ranges and data arguments handed out as exactly sized heap blocks so that "
                "ASan sees any access outside them, attached blocks compared with their source after every op) and by the compiled model; "
                "size, bytes, ownership flag, the byte after the data and the region contents are compared after every operation, `state` "
                "lines compare _capacity, head-room and where the pointers point (the branch-selecting state), `heap` lines the number of "
                "live allocations, and an independent Python reference (byte queue; live blocks = owning variables) is evaluated on the "
                "implementation's output.  Evidence lists how often every branch of Buffer.hpp was taken.",
        "note": "Trusted: Lean kernel + propext/Classical.choice/Quot.sound; tools/gen_buffer.py and the semantics of its target machine CMem.lean "
                "(assumption: comparing pointers into different blocks yields the order of the blocks - distinct blocks do not touch); the hand translation of "
                "Buffer.hpp into Model.lean is proved equal to the translated current source for resize, removeFront/Back, clear, free, attach, reserve, "
                "prepend(data,size), assign, operator=, swap and both appends with arguments outside the object (tr_* theorems), and is still "
                "hand-translated and only tied by the correspondence run for: the alias variants (assignSelf/prependSelf/appendSelf, ...Sub, Raw.lean's ...Ptr - the "
                "generated bodies cover them, the equalities are not proved), prepend(const Buffer&) (forwarder, not translated), constructors/destructor "
                "(translated, equality not stated), operator==/!=, size/capacity/isEmpty.  Modelled rather than verified: memory is one checked block per Buffer object held by "
                "value plus the allocation ledger (ids are never reused; the content of a deleted block is simply unreachable).  A (pointer, "
                "size) argument is either memory outside the object's block (modelled by value) or a sub-range of the object's own exposed "
                "bytes (ops prependsub/appendsub/assignsub - proved; Buffer arguments may be the object itself - proved); or (ops prependraw/appendraw/assignraw, "
                "PropsRaw) any sub-range of the object's own allocation; a range that is not inside one block (partly outside the "
                "allocation) is a fault of the model.  The client model (Client.lean) is a hand translation of Server.cpp:333-362,441-477 tied by the backlog-client "
                "stream (send and epoll_wait are scripted, the kernel is not involved; every line of the two sites is executed, docs/implcov/C08.txt); "
                "whole client histories are proved (client_backlog_faithful).  "
                "Attached memory is not changed by the "
                "caller while attached.  Allocation never fails; usize arithmetic does not wrap (Nat).  size(), capacity(), isEmpty() are modelled (observers_agree) and tied by the `state` "
                "lines; operator const byte*/byte* is the pointer every observation reads through (tie only).  No theorem is partial.",
        "design_ref": "DESIGN.md 3/C08",
    }
}
PROPS = ["Nstd.Buffer.Props", "Nstd.Buffer.PropsBacklog", "Nstd.Buffer.PropsRaw", "Nstd.Buffer.PropsClient", "Nstd.Buffer.PropsTr", "Nstd.Buffer.PropsTr2"]
LEAN_TARGETS = PROPS + ["drv_buffer"]
DRIVER = "drv_buffer"
REGLEN = [8, 5]
GEN_OUT = C.LEAN / "Nstd" / "Generated" / "BufferBody.lean"


def gen(ctx):
    """(ok, message): the method bodies of the CURRENT include/nstd/Buffer.hpp -> lean/Nstd/Generated/BufferBody.lean
    (tools/gen_buffer.py); a body outside the understood C++ subset is refused = broken tie"""
    try:
        gen_buffer.main(C.REPO, GEN_OUT)
        ok, msg = True, "Buffer.hpp method bodies translated: " + ", ".join(m[0] for m in gen_buffer.METHODS)
    except gen_buffer.Refuse as e:
        ok, msg = False, "tools/gen_buffer.py refuses the current Buffer.hpp (broken tie): " + str(e)
    except OSError as e:
        ok, msg = False, "tools/gen_buffer.py: " + str(e)
    if ctx is not None:
        ctx.cov.setdefault("translated", msg)
    return ok, msg


def setup():
    """tools/setup.py: the generated Lean file must exist before `lake build`"""
    ok, msg = gen(None)
    if not ok:
        print("buffer:", msg)
REGBASE = [0x10, 0x20]


# ---- reference byte queue (the property's oracle, independent of the Lean model) -----------------
def hexs(bs):
    return "-" if not bs else "".join("??" if b is None else f"{b:02x}" for b in bs)


def unhex(t):
    return [] if t == "-" else [int(t[i:i + 2], 16) for i in range(0, len(t), 2)]


def reference(hist, impl_out):
    """expected `size bytes | size bytes` per op (None bytes = unspecified).  Attached
    buffers read through region memory, of which Buffer may only modify bytes inside the
    attached range (the reference tracks the one documented case: the terminator written by
    removeBack)."""
    if is_client(hist):
        return reference_client(hist, impl_out)
    q = [[], []]
    out = []
    regs = [[REGBASE[r] + i for i in range(REGLEN[r])] for r in range(2)]
    for k, line in enumerate(hist):
        # attached memory is caller memory: its current content is read off the previous observation
        if k > 0 and k - 1 < len(impl_out) and " # " in impl_out[k - 1]:
            try:
                regs = [unhex(x) for x in impl_out[k - 1].split(" # ")[1].split(" @ ")[0].split(" ")]
            except ValueError:
                pass
        t = line.split()
        op = t[0]
        v = int(t[1]) if len(t) > 1 else 0
        w = int(t[2]) if len(t) > 2 and op in ("copy", "assignb", "prependb", "appendb", "swap", "eq") else 0
        if op == "state":
            # white-box line: pointer kind / _capacity / head-room are compared with the model only; size(), isEmpty() are
            # determined by the byte queue
            out.append(f"state size={len(q[v])} empty={1 if not q[v] else 0}" if v < 2 else None)
            continue
        if op == "heap":
            # no leak / no lost block: exactly the owning variables hold a live allocation (ownership flags are
            # read off the implementation's last observation)
            owned = 0
            for j in range(min(k, len(impl_out)) - 1, -1, -1):
                if " # " in impl_out[j]:
                    try:
                        owned = sum(1 for x in impl_out[j].split(" # ")[0].split(" | ") if x.split(" ")[2] == "1")
                    except IndexError:
                        owned = None
                    break
            out.append(None if owned is None else f"heap {owned}")
            continue
        if op == "eq":
            # bytes exposed by a growing resize are unspecified: the comparison is determined only if the
            # lengths differ, a specified pair differs, or everything is specified
            a, b = q[v], q[w]
            if len(a) != len(b) or any(x is not None and y is not None and x != y for x, y in zip(a, b)):
                out.append("eq 0")
            elif any(x is None or y is None for x, y in zip(a, b)) and v != w:
                out.append("eq ?")
            else:
                out.append("eq 1")
            continue
        if op in ("new", "free", "clear"):
            q[v] = []
        elif op == "newcap":
            q[v] = []
        elif op in ("newdata", "assign"):
            q[v] = unhex(t[2])
        elif op in ("copy", "assignb"):
            q[v] = list(q[w])
        elif op == "attach":
            r, off, ln = int(t[2]), int(t[3]), int(t[4])
            q[v] = list(regs[r][off:off + ln])
        elif op == "prepend":
            q[v] = unhex(t[2]) + q[v]
        elif op == "prependb":
            q[v] = list(q[w]) + q[v]
        elif op == "prependsub":
            off, n = int(t[2]), int(t[3])
            q[v] = q[v][off:off + n] + q[v]
        elif op == "appendsub":     # as if the bytes had been copied first
            off, n = int(t[2]), int(t[3])
            q[v] = q[v] + q[v][off:off + n]
        elif op == "assignsub":
            off, n = int(t[2]), int(t[3])
            q[v] = q[v][off:off + n]
        elif op in ("prependraw", "appendraw", "assignraw"):
            # a (pointer, size) argument anywhere in the buffer's own allocation: the harness reports which range relative to
            # bufferStart it resolved to (` ~ back fwd len`, cross-checked with the model's resolution); its bytes are the
            # queue's bytes where the range overlaps the exposed bytes and unspecified elsewhere (head-room, terminator,
            # spare capacity) - as if the bytes had been copied first
            try:
                back, fwd, n = (int(x) for x in impl_out[k].split(" ~ ")[1].split(" "))
            except (IndexError, ValueError):
                out.append(None)
                return out          # the implementation faulted on this line: reported by the comparison
            sl = [q[v][fwd + i - back] if back <= fwd + i < back + len(q[v]) else None for i in range(n)]
            q[v] = sl + q[v] if op == "prependraw" else q[v] + sl if op == "appendraw" else sl
        elif op == "append":
            q[v] = q[v] + unhex(t[2])
        elif op == "appendb":
            q[v] = q[v] + list(q[w])
        elif op == "resize":
            n = int(t[2])
            q[v] = q[v][:n] + [None] * (n - len(q[v]))
        elif op == "removeFront":
            q[v] = q[v][int(t[2]):]
        elif op == "removeBack":
            n = int(t[2])
            q[v] = q[v][:max(0, len(q[v]) - n)]
        elif op == "reserve":
            pass
        elif op == "swap":
            q[v], q[w] = q[w], q[v]
        out.append(" | ".join(f"{len(x)} {hexs(x)}" for x in q))
    return out


def is_client(hist):
    return any(l.startswith("cw ") or l.startswith("cr ") for l in hist)


SEND_RE = re.compile(r"send=(\d+)>(\w+)")


def reference_client(hist, impl_out):
    """oracle of the backlog-client stream (harness/buffer_backlog.cpp = the real ClientImpl::write and write-readiness handler
    of Server.cpp), written as STREAM CONSERVATION, not as a copy of the code: for every live client, after every op,
    `_sendBuffer` holds exactly (all bytes written so far) minus (the bytes send() accepted so far, read off the harness'
    send log); send() is offered the whole backlog (write-readiness) / the whole data (write on an empty backlog) and is not
    called by a write on a non-empty backlog; `postponed` is the backlog size; onWrite exactly when an accepting send drained
    the backlog; a client is closed exactly when send failed or accepted nothing."""
    written, acc, dead, out = [[], []], [0, 0], [False, False], []
    for k, line in enumerate(hist):
        t = line.split()
        io = impl_out[k] if k < len(impl_out) else None
        if io is None or " | " not in io or t[0] not in ("cw", "cr") or int(t[1]) > 1:
            out.append(None)
            continue
        c = int(t[1])
        res = io.split(" | ")[0]
        bad = ""
        if res == "dead":
            if not dead[c]: bad = "reported dead but never closed"
        elif dead[c]:
            bad = "closed client used again"
        else:
            before = len(written[c]) - acc[c]
            m = SEND_RE.search(res)
            kk = None
            if t[0] == "cw":
                data = unhex(t[2])
                written[c] += data
                if before == 0:
                    if not m or int(m.group(1)) != len(data): bad = "write on an empty backlog must offer all data to send"
                elif m: bad = "write on a non-empty backlog must not call send"
            else:
                if res == "idle":
                    if before != 0: bad = "backlog not empty but the client is not registered for write-readiness"
                elif not m or int(m.group(1)) != before or before == 0:
                    bad = "write-readiness must offer the whole backlog to send"
            if m and m.group(2).isdigit():
                kk = int(m.group(2))
                if kk > int(m.group(1)): bad = "send accepted more than offered"
                acc[c] += kk
            closes = bool(m) and (m.group(2) == "err" or kk == 0) and not (t[0] == "cw" and m.group(2) == "wb")
            if t[0] == "cw" and m and kk == 0 and len(unhex(t[2])) == 0:
                closes = True      # send(…, 0) returned 0
            pend = len(written[c]) - acc[c]
            if t[0] == "cw":
                want = "ret=0 post=0" if closes else f"ret=1 post={pend}"
                if not res.startswith(want + " "): bad = bad or f"expected {want}"
            elif res != "idle":
                want = "cb=C" if closes else ("cb=W" if kk and pend == 0 else "cb=-")
                if not res.startswith(want + " "): bad = bad or f"expected {want}"
            if closes:
                dead[c] = True
        parts = ["dead" if dead[i] else f"{len(written[i]) - acc[i]} {hexs(written[i][acc[i]:])}" for i in range(2)]
        out.append("client " + (("BAD:" + bad.replace(" ", "_")) if bad else "ok") + " | " + " | ".join(parts))
    return out


def ref_eq_client(impl, ref):
    pi, pr = impl.split(" | "), ref.split(" | ")
    if len(pi) != 3 or len(pr) != 3 or pr[0] != "client ok":
        return False
    for a, b in zip(pi[1:], pr[1:]):
        if a == "dead" or b == "dead":
            if a != b: return False
            continue
        ta, tb = a.split(" "), b.split(" ")
        if len(ta) != 7 or ta[0] != tb[0] or ta[1] != tb[1]:
            return False
        if ta[2] == "1" and ta[3] != "00":        # owning => terminator
            return False
    return True


def ref_eq(impl, ref):
    """impl line `size bytes owned term | ... # regions`  against the reference line"""
    if ref.startswith("client "):
        return ref_eq_client(impl, ref)
    if impl.startswith("heap") or ref.startswith("heap"):
        return impl == ref
    if impl.startswith("eq") or ref.startswith("eq"):
        return impl == ref or (ref == "eq ?" and impl in ("eq 0", "eq 1"))
    if ref.startswith("state"):
        ti = impl.split(" ")
        return impl.startswith("state ") and len(ti) == 8 and ti[1] == ref.split(" ")[1][5:] and ti[5:7] == ref.split(" ")[1:3]
    if impl.startswith("FAULT") or "#" not in impl:
        return False
    vars_i = impl.split(" # ")[0].split(" | ")
    vars_r = ref.split(" | ")
    if len(vars_i) != len(vars_r):
        return False
    for a, b in zip(vars_i, vars_r):
        ta, tb = a.split(" "), b.split(" ")
        if len(ta) != 4 or ta[0] != tb[0]:
            return False
        if not C.wildcard_eq(ta[1], tb[1]):
            return False
        if ta[2] == "1" and ta[3] != "00":       # owning => terminator
            return False
    return True


reference.eq = ref_eq
reference.uses_impl = True


# ---- generators -----------------------------------------------------------------------------------
def rand_bytes(rng, n):
    return hexs([rng.randrange(1, 256) for _ in range(n)])


def gen_history(rng, length, attached_regions=True, big=False):
    """structured generator.  Sizes are drawn from a small table or relative to the current
    queue lengths (tracked with the byte-queue semantics) so that the boundaries `size == length`,
    `length +- 1`, head-room == size, capacity == required are hit often.  Regions may be
    attached to both variables at once (Buffer never writes to attached memory)."""
    h = []
    ln = [0, 0]
    sizes = [0, 0, 1, 1, 2, 3, 4, 5, 7, 8, 9, 16] + ([17, 31, 32, 33, 64, 100, 257] if big else [])
    last_removed = [0, 0]
    for _ in range(length):
        v = rng.randrange(2)
        w = rng.randrange(2)
        k = rng.random()
        if rng.random() < 0.35:
            n = max(0, rng.choice([ln[v], ln[v] + 1, ln[v] - 1, ln[w], last_removed[v], last_removed[v] + 1,
                                   max(0, last_removed[v] - 1), 2 * ln[v], ln[v] // 2,
                                   ln[v] + last_removed[v], ln[v] + (last_removed[v] + 1) // 2]))
            n = min(n, 300)
        else:
            n = rng.choice(sizes)
        if k < 0.16: op = f"append {v} {rand_bytes(rng, n)}"; ln[v] += n
        elif k < 0.26: op = f"prepend {v} {rand_bytes(rng, n)}"; ln[v] += n
        elif k < 0.36: op = f"removeFront {v} {n}"; last_removed[v] = min(n, ln[v]); ln[v] = max(0, ln[v] - n)
        elif k < 0.44: op = f"removeBack {v} {n}"; ln[v] = max(0, ln[v] - n)
        elif k < 0.52: op = f"resize {v} {n}"; ln[v] = n
        elif k < 0.57: op = f"reserve {v} {n}"
        elif k < 0.61: op = f"assign {v} {rand_bytes(rng, n)}"; ln[v] = n
        elif k < 0.66: op = f"assignb {v} {w}"; ln[v] = ln[w]
        elif k < 0.71:
            if ln[v] + ln[w] > 4000: continue
            op = f"appendb {v} {w}"; ln[v] += ln[w]
        elif k < 0.75:
            if ln[v] + ln[w] > 4000: continue
            op = f"prependb {v} {w}"; ln[v] += ln[w]
        elif k < 0.76:
            off = rng.randrange(ln[v] + 2)
            m = min(n, 300)
            sub = min(m, max(0, ln[v] - min(off, ln[v])))
            kind = rng.choice(["prependsub", "appendsub", "appendsub", "assignsub"])
            op = f"{kind} {v} {off} {m}"
            ln[v] = sub if kind == "assignsub" else ln[v] + sub
        elif k < 0.775:
            kind = rng.choice(["prependraw", "appendraw", "appendraw", "assignraw"])
            off = rng.choice([0, 0, 1, 2, last_removed[v], max(0, last_removed[v] - 1), last_removed[v] + ln[v],
                              last_removed[v] + ln[v] + 1, ln[v], rng.randrange(ln[v] + last_removed[v] + 3)])
            m = min(n, 300)
            op = f"{kind} {v} {off} {m}"
            ln[v] = m if kind == "assignraw" else ln[v] + m     # an estimate (the range is clamped to the allocation)
        elif k < 0.78: op = f"swap {v} {w}"; ln[v], ln[w] = ln[w], ln[v]; last_removed[v], last_removed[w] = last_removed[w], last_removed[v]
        elif k < 0.81: op = f"clear {v}"; ln[v] = 0
        elif k < 0.84: op = f"free {v}"; ln[v] = 0
        elif k < 0.86: op = f"new {v}"; ln[v] = 0
        elif k < 0.88: op = f"newcap {v} {n}"; ln[v] = 0
        elif k < 0.90: op = f"newdata {v} {rand_bytes(rng, n)}"; ln[v] = n
        elif k < 0.92: op = f"copy {v} {w}"; ln[v] = ln[w]
        elif k < 0.94: op = f"eq {v} {w}"
        elif k < 0.95: op = f"state {v}"
        elif k < 0.96: op = "heap"
        elif attached_regions:
            r = rng.randrange(2)
            off = rng.randrange(REGLEN[r] + 1)
            l = rng.randrange(REGLEN[r] - off + 1)
            op = f"attach {v} {r} {off} {l}"
            ln[v] = l
        else:
            continue
        h.append(op)
    return h


def gen_server(rng, length):
    """the usage pattern of Server.cpp's send backlog (Server.cpp:343-348,459-463): append what could not be
    sent, removeFront what a later send() accepted, free when drained; plus reserve/resize as in the read path"""
    h = []
    ln = 0
    for _ in range(length):
        k = rng.random()
        if k < 0.45:
            n = rng.choice([1, 2, 3, 5, 8, 13, 40, 100])
            h.append(f"append 0 {rand_bytes(rng, n)}"); ln += n
        elif k < 0.85:
            n = rng.choice([1, 2, ln // 2, max(0, ln - 1), ln, ln + 1]) if ln else 1
            h.append(f"removeFront 0 {n}"); ln = max(0, ln - n)
            h.append("state 0"); h.append("heap")
            if ln == 0 and rng.random() < 0.5:
                h.append("free 0")
        elif k < 0.92:
            h.append(f"reserve 0 {rng.choice([ln, ln + 1, 64, 256])}")
        elif k < 0.96:
            n = rng.choice([0, ln, ln + 7, ln // 2]); h.append(f"resize 0 {n}"); ln = n
        else:
            h.append("swap 0 1"); h.append("clear 1"); ln = 0
    return h


SMALL_OPS = [
    "newcap 0 0", "newcap 0 3", "newdata 0 -", "newdata 0 6162", "attach 0 0 1 0", "attach 0 0 1 3",
    "assign 0 -", "assign 0 7172", "prepend 0 -", "prepend 0 41", "prepend 0 414243", "append 0 -", "append 0 51",
    "append 0 515253", "resize 0 0", "resize 0 1", "resize 0 4", "resize 0 5", "removeFront 0 1", "removeFront 0 3",
    "removeBack 0 1", "removeBack 0 3", "reserve 0 4", "clear 0", "free 0", "swap 0 1", "assignb 0 1", "assignb 0 0",
    "appendb 0 1", "appendb 0 0", "prependb 0 1", "prependb 0 0", "copy 1 0", "new 0", "eq 0 1",
    "prependsub 0 1 1", "prependsub 0 0 2", "appendsub 0 1 1", "appendsub 0 0 2", "assignsub 0 1 2",
    "prependraw 0 1 2", "appendraw 0 0 2", "appendraw 0 4 2", "assignraw 0 0 9",
]


NSTD_OPS = 40   # SMALL_OPS[:NSTD_OPS] = the alphabet without the raw-pointer ops


def exhaustive(depth, rng=None, limit=None, ops=None):
    # every history ends with the white-box view of both variables (all prefixes are histories of the scope too)
    ops = SMALL_OPS if ops is None else ops
    hs = [list(p) + ["state 0", "state 1", "heap"] for d in range(1, depth + 1) for p in itertools.product(ops, repeat=d)]
    if limit and len(hs) > limit:
        rng.shuffle(hs)
        hs = hs[:limit]
    return hs


def boundary_family(maxcap):
    """exhaustive parametric family around the capacity / head-room boundaries: an owning buffer of capacity C
    holding k bytes of which r were removed at the front, followed by every kind of growing/shrinking op with
    every size 0..C+2 (selects in-place / compact / shift / head-room / reallocate)"""
    hs = []
    pat = [0x61 + i for i in range(26)]
    for cap in range(maxcap + 1):
        for k in range(cap + 2):
            for r in range(k + 2):
                pre = [f"newcap 0 {cap}", f"append 0 {hexs(pat[:k])}", f"removeFront 0 {r}"]
                tails = ["appendb 0 0", "prependb 0 0", "prependsub 0 1 1", "prependsub 0 0 1", "prependsub 0 1 9", "appendsub 0 1 1",
                         "appendsub 0 0 1", "appendsub 0 1 9", "appendsub 0 0 9", "assignsub 0 1 1", "assignsub 0 1 9", "assignb 0 0", "clear 0", "swap 0 1", "copy 1 0", "appendb 1 0", "prependb 1 0"]
                for n in range(cap + 3):
                    d = hexs([0x41 + i for i in range(n)])
                    tails += [f"resize 0 {n}", f"append 0 {d}", f"prepend 0 {d}", f"assign 0 {d}", f"removeBack 0 {n}",
                              f"reserve 0 {n}"]
                # every sub-range [off, off+n) of the allocation of cap+1 bytes (and one past) as (pointer, size) argument
                for off in range(cap + 2):
                    for n in range(cap + 3 - off):
                        tails += [f"prependraw 0 {off} {n}", f"appendraw 0 {off} {n}", f"assignraw 0 {off} {n}"]
                hs += [pre + ["state 0", t, "state 0", "state 1", "heap", "prepend 0 7a", "eq 0 1", "state 0", "heap"] for t in tails]
    return hs


class H(list):
    """a history that remembers which stream it belongs to (branch counters are also kept per stream)"""
    tag = ""

    def __reduce__(self):
        return (_mk_h, (list(self), self.tag))


def _mk_h(lines, tag):
    h = H(lines)
    h.tag = tag
    return h


def tagged(tag, hs):
    return [_mk_h(h, tag) for h in hs]


def _sim_backlog(st, op, n):
    """(s, e, cap) of an owning/default Buffer under today's capacity policy – only used to aim the scripted sizes at
    the branch boundaries; never part of a verdict"""
    s_, e_, cap = st
    if op == "append":
        size = e_ - s_ + n
        if size > cap: return (0, size, size)
        if s_ + size <= cap: return (s_, s_ + size, cap)
        return (0, size, cap)
    if op == "removeFront":
        return (0, 0, cap) if s_ + n >= e_ else (s_ + n, e_, cap)
    return (0, 0, 0)


def backlog_family(quick):
    """scripted send-backlog streams (Server.cpp:343-357,459-475) on a default-constructed Buffer:
    (a) EVERY combination  append a; removeFront r; append n; removeFront r2; append n2  with a <= A, r <= size + 1,
        n <= a + 2 (the window at every offset and size around the capacity of a small allocation),
    (b) for large first chunks (16, 100, 1000, ...) the sizes are aimed at the boundaries of resize():
        n in {spare-1, spare, spare+1} (in place | compact to front) and {spare+s-1, spare+s, spare+s+1} (compact |
        reallocate), r in {0, 1, size/2, size-1, size, size+1}; two rounds, then drain and free.
    `state`/`heap` after every step tie head-room, _capacity and the live allocations."""
    hs = []
    pat = [1 + (i * 7) % 251 for i in range(2100)]

    def app(n, pos):
        return f"append 0 {hexs(pat[pos:pos + n])}"

    A = 5 if quick else 7
    for a in range(A + 1):
        for r in range(a + 2):
            for n in range(a + 3):
                size1 = max(0, a - r) + n
                for r2 in sorted({0, 1, size1 // 2, max(0, size1 - 1), size1, size1 + 1}):
                    for n2 in range(0, a + 3):
                        hs.append([app(a, 0), f"removeFront 0 {r}", "state 0", app(n, a), "state 0", f"removeFront 0 {r2}",
                                   "state 0", app(n2, a + n), "state 0", "heap", "removeFront 0 1", "state 0"])
    big = [16, 100, 1000] if quick else [16, 17, 64, 100, 255, 256, 1000]

    def rounds(st, pos, size, depth, acc):
        if depth == 0:
            hs.append(acc + [f"removeFront 0 {size}", "state 0", "free 0", "state 0", "heap"])
            return
        for r in sorted({0, 1, size // 2, max(0, size - 1), size, size + 1}):
            st1 = _sim_backlog(st, "removeFront", r)
            size1 = max(0, size - r)
            spare, head = st1[2] - st1[1], st1[0]
            for n in sorted({1, spare - 1, spare, spare + 1, spare + head - 1, spare + head, spare + head + 1}):
                if n < 0 or n > 1100:
                    continue
                st2 = _sim_backlog(st1, "append", n)
                rounds(st2, pos + n, size1 + n, depth - 1,
                       acc + [f"removeFront 0 {r}", "state 0", app(n, pos), "state 0", "heap"])

    for a in big:
        rounds((0, a, a), a, a, 2, [app(a, 0), "state 0"])
    return hs


def attach_family(maxcap):
    """attach on a Buffer that owned storage before (the stale-_capacity shape `owning(100); attach(16); append(8)`):
    every way of owning a capacity 0..maxcap (and one large), every attached length, then every growing / shrinking
    operation with every size 0..capacity+2"""
    hs = []
    for cap in list(range(maxcap + 1)) + [100]:
        data = hexs([0x61 + i % 26 for i in range(cap)])
        owners = [[f"newcap 0 {cap}"], [f"newdata 0 {data}"], [f"append 0 {data}", "removeFront 0 1"],
                  [f"reserve 0 {cap}", "append 0 41"]]
        for own in owners:
            for ln in range(0, 9):
                sizes = sorted(set(list(range(min(cap, 8) + 3)) + [max(0, cap - ln), max(0, cap - ln + 1), cap, cap + 1]))
                tails = ["appendb 0 0", "prependb 0 0", "appendsub 0 1 9", "assignb 0 0", "clear 0", "swap 0 1", "copy 1 0",
                         "appendb 1 0", "removeFront 0 1", f"removeFront 0 {ln}"]
                for n in sizes:
                    d = hexs([0x41 + i % 26 for i in range(n)])
                    tails += [f"resize 0 {n}", f"append 0 {d}", f"prepend 0 {d}", f"assign 0 {d}", f"removeBack 0 {n}",
                              f"reserve 0 {n}"]
                hs += [own + [f"attach 0 0 0 {min(ln, 8)}", "state 0", t, "state 0", "state 1", "heap", "append 0 7a", "state 0", "heap"]
                       for t in tails]
    return hs


def client_family(quick, rng):
    """the backlog-client stream: op lines for harness/buffer_backlog.cpp (real Server.cpp code, send scripted).
    (a) every sequence of <= 4 (quick) / 5 ops of one client over writes of 0/1/3 bytes and write-readiness events with
        send answers would-block / error / 0 / 1 / 2 / everything,
    (b) sliding windows: a first write of a bytes of which send takes k, then rounds of (readiness accepting r, write n)
        aimed at the in-place | compact | reallocate boundaries of the backlog Buffer,
    (c) random two-client interleavings."""
    hs = []
    pat = [1 + (i * 11) % 253 for i in range(3000)]
    alpha = ["cw 0 - wb", "cw 0 41 wb", "cw 0 41 1", "cw 0 414243 wb", "cw 0 414243 1", "cw 0 414243 2", "cw 0 414243 9", "cw 0 41 err",
             "cw 0 414243 0", "cr 0 wb", "cr 0 1", "cr 0 2", "cr 0 99", "cr 0 err", "cr 0 0"]
    for d in range(1, (4 if quick else 5) + 1):
        hs += [list(p) for p in itertools.product(alpha, repeat=d)]
    for a in ([2, 3, 5, 8, 16, 100, 1000] if quick else [2, 3, 4, 5, 6, 7, 8, 16, 17, 64, 100, 256, 1000]):
        for k0 in sorted({0, 1, a // 2, a - 1}):
            if k0 >= a: continue
            size0 = a - k0

            def rounds(st, size, pos, depth, acc):
                if depth == 0:
                    hs.append(acc + [f"cr 0 {size + 5}", "cw 0 42 wb", "cr 0 1"])
                    return
                for r in sorted({1, size // 2, size - 1}):
                    if r <= 0 or r >= size: continue
                    st1 = _sim_backlog(st, "removeFront", r)
                    spare, head = st1[2] - st1[1], st1[0]
                    for n in sorted({1, spare - 1, spare, spare + 1, spare + head - 1, spare + head, spare + head + 1}):
                        if n <= 0 or n > 1100: continue
                        st2 = _sim_backlog(st1, "append", n)
                        rounds(st2, size - r + n, pos + n, depth - 1, acc + [f"cr 0 {r}", f"cw 0 {hexs(pat[pos:pos + n])} wb"])
            rounds((0, size0, size0), size0, a, 2, [f"cw 0 {hexs(pat[:a])} {k0 if k0 else 'wb'}"])
    for _ in range(3000 if quick else 20000):
        h, pend = [], [0, 0]
        for _ in range(rng.choice([5, 10, 20])):
            c = rng.randrange(2)
            if rng.random() < 0.5:
                n = rng.choice([0, 1, 2, 3, 5, 8, 13, 40])
                o = rng.choice(["wb", "1", str(max(1, n // 2)), str(n), str(n + 1), "wb", "err" if rng.random() < 0.1 else "2"])
                h.append(f"cw {c} {rand_bytes(rng, n)} {o}")
            else:
                o = rng.choice(["wb", "1", "2", "3", "7", "1000", "err" if rng.random() < 0.1 else "5", "0" if rng.random() < 0.05 else "4"])
                h.append(f"cr {c} {o}")
        hs.append(h)
    return hs


def nontrivial(h, out):
    """distinct = distinct (set of op kinds, final observation); non-trivial = at least 3 ops and a non-empty buffer"""
    if len(h) < 3 or not out:
        return None
    if is_client(h):
        obs = [o for o in out if " | " in o]
        return (frozenset(l.split()[0] + "." + l.split()[-1][:1] for l in h), obs[-1]) if obs and " own" in obs[-1] else None
    obs = [o for o in out if " # " in o]
    if not obs:
        return None
    last = obs[-1]
    if last.startswith("0 - ") and " | 0 - " in last:
        return None
    return (frozenset(l.split()[0] for l in h), last)


# ---- branch statistics (evidence only, never a verdict) -----------------------------------------
def branch_stats(hist, impl_out, cnt):
    """abstract replay (ownership kind, start, end, capacity) of a history, counting which branch of
    Buffer.hpp each op takes.  Cross-checked against the implementation's size/ownership output; on a
    mismatch the history is counted under 'stats-mismatch' and abandoned (statistics only)."""
    st = [["dflt", 0, 0, 0], ["dflt", 0, 0, 0]]

    def hit(k):
        cnt[k] = cnt.get(k, 0) + 1

    def realloc(b, size, cap):
        b[:] = ["own", 0, size, cap]

    def resize(b, n, tag):
        k, s_, e_, cap = b
        if n > cap:
            hit(f"{tag}.realloc.{k}"); realloc(b, n, n)
        elif k != "own":
            hit(f"{tag}.nonowning"); b[2] = s_
        elif s_ + n <= cap:
            hit(f"{tag}.inplace"); b[2] = s_ + n
        else:
            hit(f"{tag}.compact"); b[1], b[2] = 0, n

    def prepend(b, n, tag, selfalias=False):
        k, s_, e_, cap = b
        old = e_ - s_
        if k == "own" and s_ >= n:
            hit(f"{tag}.headroom"); b[1] = s_ - n
        elif k == "own" and cap >= n + old and not selfalias:
            hit(f"{tag}.shift"); b[1], b[2] = 0, n + old
        else:
            hit(f"{tag}.realloc.{k}"); realloc(b, n + old, n + old)

    def assign(b, n, tag):
        k, s_, e_, cap = b
        if n > cap:
            hit(f"{tag}.realloc.{k}"); realloc(b, n, n)
        elif k != "own":
            hit(f"{tag}.nonowning"); b[2] = s_
        else:
            hit(f"{tag}.inplace"); b[1], b[2] = 0, n

    def home(b):
        if b[0] == "own":
            b[1] = b[2] = 0
        else:
            b[:] = ["dflt", 0, 0, b[3]]

    if is_client(hist):
        prev = None
        for k_, line in enumerate(hist):
            if k_ >= len(impl_out) or " | " not in impl_out[k_]:
                return
            t = line.split()
            parts = impl_out[k_].split(" | ")
            res, cur = parts[0], parts[1 + int(t[1])].split(" ") if int(t[1]) < 2 else None
            m = SEND_RE.search(res)
            kind = "dead" if res == "dead" else "idle" if res == "idle" else ("nosend" if not m else m.group(2) if not m.group(2).isdigit()
                   else "all" if m.group(1) == m.group(2) else "zero" if m.group(2) == "0" else "partial")
            hit(f"client.{t[0]}.{kind}")
            if cur and len(cur) == 7 and prev and len(prev) == 7 and t[0] == "cw" and cur[2] == "1" and prev[2] == "1":
                hr0, hr1 = int(prev[5][3:]), int(cur[5][3:])
                hit("client.append." + ("realloc" if cur[4] != prev[4] else "compact" if hr0 > 0 and hr1 == 0 else "inplace"))
            prev = cur if int(t[1]) == 0 else prev      # head-room history of client 0
        return
    for k_, line in enumerate(hist):
        t = line.split()
        op = t[0]
        v = int(t[1]) if len(t) > 1 else 0
        w = int(t[2]) if len(t) > 2 and op in ("copy", "assignb", "prependb", "appendb", "swap", "eq") else 0
        b = st[v] if v < 2 else None
        if b is None or op == "eq":
            continue
        size = b[2] - b[1]
        osz = st[w][2] - st[w][1]
        dl = 0 if len(t) < 3 or t[2] == "-" else len(t[2]) // 2
        if op in ("new", "free"): b[:] = ["dflt", 0, 0, 0]; hit(op)
        elif op == "newcap": realloc(b, 0, int(t[2])); hit(op)
        elif op == "newdata": realloc(b, dl, dl); hit(op)
        elif op == "copy":
            hit("copy.self-skipped" if v == w else "copy")
            if v != w: realloc(b, osz, osz)
        elif op == "attach": b[:] = ["att", 0, int(t[4]), 0]; hit(f"attach.len{'0' if int(t[4]) == 0 else '+'}")
        elif op == "assign": assign(b, dl, "assign")
        elif op == "assignb": assign(b, osz, "assignb.self" if v == w else "assignb")
        elif op == "prepend": prepend(b, dl, "prepend")
        elif op == "prependb": prepend(b, osz, "prependb.self" if v == w else "prependb", v == w)
        elif op == "prependsub":
            off = min(int(t[2]), size)
            prepend(b, min(int(t[3]), size - off), "prependsub", True)
        elif op == "appendsub":
            off = min(int(t[2]), size)
            resize(b, size + min(int(t[3]), size - off), "appendsub")
        elif op == "assignsub":
            off = min(int(t[2]), size)
            assign(b, min(int(t[3]), size - off), "assignsub")
        elif op in ("prependraw", "appendraw", "assignraw"):
            try:
                back, fwd, n = (int(x) for x in impl_out[k_].split(" ~ ")[1].split(" "))
            except (IndexError, ValueError):
                return
            src = b[1] + fwd - back
            where = ("window" if b[1] <= src and src + n <= b[2] else "headroom" if src + n <= b[1] else
                     "spare" if src >= b[2] else "straddles") if b[0] == "own" else b[0]
            hit(f"{op}.arg-in-{where}")
            if op == "prependraw": prepend(b, n, "prependraw", True)
            elif op == "assignraw": assign(b, n, "assignraw")
            elif b[0] == "own" and src <= b[3] and (src < b[1] or src + n > b[2]):
                resize(b, size + n, "appendraw.copy-first")
            else: resize(b, size + n, "appendraw")
        elif op == "append": resize(b, size + dl, "append")
        elif op == "appendb": resize(b, size + osz, "appendb.self" if v == w else "appendb")
        elif op == "resize": resize(b, int(t[2]), "resize")
        elif op == "removeFront":
            n = int(t[2])
            if b[1] + n >= b[2]: hit(f"removeFront.empties.{b[0]}"); home(b)
            else: hit("removeFront.partial"); b[1] += n
        elif op == "removeBack":
            n = int(t[2])
            if b[1] + n >= b[2]: hit(f"removeBack.empties.{b[0]}"); home(b)
            else: hit("removeBack.partial"); b[2] -= n
        elif op == "reserve":
            n = int(t[2])
            if n <= b[3]: hit("reserve.noop")
            else: hit(f"reserve.realloc.{b[0]}"); realloc(b, size, max(n, size))
        elif op == "clear":
            hit(f"clear.{b[0]}")
            if b[0] == "own": b[1] = b[2] = 0
            else: b[2] = b[1]
        elif op == "swap":
            hit("swap.rehome" if "dflt" in (st[v][0], st[w][0]) else "swap")
            st[v], st[w] = st[w], st[v]
        # cross-check with the implementation's `size bytes owned term`
        if k_ < len(impl_out) and " # " in impl_out[k_]:
            try:
                if " @ " in impl_out[k_]:       # capacity policy is the implementation's
                    caps = impl_out[k_].split(" @ ")[1].split(" ")
                    for i in range(2):
                        if st[i][0] == "own":
                            st[i][3] = int(caps[i])
                vs = impl_out[k_].split(" # ")[0].split(" | ")
                for i in range(2):
                    ta = vs[i].split(" ")
                    if int(ta[0]) != st[i][2] - st[i][1] or (ta[2] == "1") != (st[i][0] == "own"):
                        hit("stats-mismatch")
                        return
            except (ValueError, IndexError):
                return


CAP_OPS = {"new", "newcap", "newdata", "copy", "attach", "assignb", "assign", "prepend", "prependb", "prependsub",
           "appendsub", "assignsub", "prependraw", "appendraw", "assignraw",
           "append", "appendb", "resize", "removeFront", "removeBack", "reserve", "clear", "free"}


def with_caps(hist, impl_out):
    """the op lines for the model: every operation on variable v carries `cap=<n>`, the capacity the
    implementation reports for v after that operation (the model's capacity policy for that step)"""
    out = []
    for k, line in enumerate(hist):
        t = line.split()
        if t and t[0] in ("cw", "cr") and k < len(impl_out):
            parts = impl_out[k].split(" | ")
            m = re.search(r"cap=(\d+)", parts[1 + int(t[1])]) if int(t[1]) < 2 and len(parts) == 3 else None
            if m:
                line = f"{line} cap={m.group(1)}"
        if t and t[0] in CAP_OPS and k < len(impl_out) and " @ " in impl_out[k]:
            caps = impl_out[k].split(" @ ")[1].split(" ")
            v = int(t[1])
            if v < len(caps) and caps[v].isdigit():
                line = f"{line} cap={caps[v]}"
        out.append(line)
    return out


def run_batch(harness, driver, histories, timeout=600):
    """C.run_batch in two phases: the implementation first, then the model on the same op lines extended by the
    capacity the implementation chose (`with_caps`); same comparison and verdict logic (C.compare_history)"""
    ref_eq_ = reference.eq
    lines, _ = C.flatten(histories)
    io, rc, err = C.run_lines(harness, lines, timeout=timeout)
    ios = C.split_outputs(io, histories)
    mlines, _ = C.flatten([with_caps(h, o) for h, o in zip(histories, ios)])
    mo, _, _ = C.run_lines(driver, mlines, timeout=timeout)
    mos = C.split_outputs(mo, histories)
    diffs = []
    crashed = rc != 0
    for n, h in enumerate(histories):
        ro = reference(h, ios[n])
        complete = len(ios[n]) == len(h)
        d = C.compare_history(h, ios[n], mos[n], ro, C.wildcard_eq, err if crashed else "", ref_eq_)
        if d and d.kind == "impl-vs-model":
            # a model disagreement (e.g. a capacity the model does not expect) must not hide a concrete failure
            # (reference oracle, sanitizer) later in the same history
            d2 = C.compare_history(h, ios[n], ios[n], ro, C.wildcard_eq, err if crashed else "", ref_eq_)
            if d2:
                d2.model = mos[n][d2.idx] if d2.idx < len(mos[n]) else None
                d = d2
        if d:
            diffs.append(d)
        if not complete:
            break            # everything after a crash is unexplored
    done = sum(1 for n, h in enumerate(histories) if len(ios[n]) == len(h))
    return diffs, sum(len(x) for x in ios), done, (rc, err) if crashed else None, ios


def shrink_diff(d, harness, driver, budget=250):
    """C.shrink_diff over the two-phase batch"""
    calls = [0]

    def fails(h):
        calls[0] += 1
        if calls[0] > budget:
            return False
        ds, _, _, _, _ = run_batch(harness, driver, [h], 60)
        return bool(ds) and ds[0].kind == d.kind

    h = C.ddmin(d.hist[:d.idx + 1], fails)
    ds, _, _, _, _ = run_batch(harness, driver, [h], 60)
    return ds[0] if ds and ds[0].kind == d.kind else d


def report_diffs(ctx, diffs, harness, driver, stream_name, max_reports=3):
    """C.report_diffs over the two-phase batch (same classification)"""
    if not diffs:
        return
    concrete = [d for d in diffs if d.kind in ("impl-vs-reference", "impl-crash", "impl-exit")]
    corr = [d for d in diffs if d.kind == "impl-vs-model"]
    seen = set()
    for d in (concrete or corr)[:12]:
        if len(seen) >= max_reports:
            break
        d = shrink_diff(d, harness, driver)
        key = "\n".join(d.hist[:d.idx + 1])
        if key in seen:
            continue
        seen.add(key)
        if d.kind == "impl-vs-model":
            ctx.broken.append(f"correspondence {stream_name}: implementation and model differ")
            ctx.violation(f"correspondence stream '{stream_name}' no longer checks (implementation vs Lean model); "
                          f"the independent reference found no failing input on the explored histories",
                          d.text(), no_input=True)
        else:
            ctx.violation(f"{d.kind} on stream '{stream_name}'", d.text(), no_input=False,
                          signature=f"{d.kind}:{d.hist[d.idx].split(' ')[0] if d.hist else ''}")


def _batch(args):
    harness, driver, part = args
    ds, nlines, done, crash, ios = run_batch(harness, driver, part, 600)
    if crash and not ds:
        ds.append(C.Diff(part[-1] if part else [], max(0, len(part[-1]) - 1) if part else 0,
                         "impl-exit", f"exit code {crash[0]}", None, None, crash[1]))
    keys = set()
    cnt = {}
    for h, o in zip(part, ios):
        k = nontrivial(h, o)
        if k is not None:
            keys.add(k)
        branch_stats(h, o, cnt)
        tag = getattr(h, "tag", "")
        if tag:
            c2 = {}
            branch_stats(h, o, c2)
            for kk, n in c2.items():
                cnt[f"[{tag}] {kk}"] = cnt.get(f"[{tag}] {kk}", 0) + n
    return ds, nlines, done, keys, cnt


def differential_mp(ctx, harness, driver, histories):
    """C.differential with worker *processes* (the Python reference oracle and the comparison dominate the
    run time and do not scale over threads); same verdict logic (C.run_batch / C.compare_history)"""
    import multiprocessing as mp
    if not histories:
        return []
    chunk = max(1, (len(histories) + C.NCPU * 4 - 1) // (C.NCPU * 4))
    parts = [(harness, driver, histories[i:i + chunk]) for i in range(0, len(histories), chunk)]
    diffs, keys = [], set()
    with mp.get_context("fork").Pool(C.NCPU) as pool:
        hits = {}
        for ds, nlines, done, ks, cnt in pool.imap(_batch, parts):
            ctx.cov["evaluations"] += nlines
            ctx.cov["traces_validated_against_impl"] += done
            diffs += ds
            keys |= ks
            for k, n in cnt.items():
                hits[k] = hits.get(k, 0) + n
        ctx.cov["branch_hits"] = dict(sorted(hits.items()))
    ctx.cov["distinct_nontrivial"] = ctx.cov.get("distinct_nontrivial", 0) + len(keys)
    return diffs


def histories_for(ctx):
    rng = ctx.rng
    quick = ctx.tier == "quick"
    hs = C.load_corpus(ctx.prop)
    ncorpus = len(hs)
    # length <= 3 over the whole alphabet; thorough adds length 4 over the alphabet without the raw-pointer ops
    ex = exhaustive(3)
    if not quick:
        ex += [list(p) + ["state 0", "state 1", "heap"] for p in itertools.product(SMALL_OPS[:NSTD_OPS], repeat=4)]
    fam = boundary_family(6 if quick else 12)
    bl = tagged("backlog", backlog_family(quick))
    af = tagged("attach-after-owning", attach_family(6 if quick else 12))
    nr = 30000 if quick else 120000
    rnd = [gen_history(rng, rng.choice([5, 10, 20, 40])) for _ in range(nr)]
    rnd += [gen_history(rng, rng.choice([10, 30, 60]), big=True) for _ in range(nr // 6)]
    rnd += [gen_server(rng, rng.choice([10, 40])) for _ in range(nr // 10)]
    ctx.cov["rule"] = (f"corpus ({ncorpus}) + exhaustive: all op sequences of length <= 3 over a {len(SMALL_OPS)}-op "
                       f"alphabet (sizes 0,1,3,4,5; attach; self/other arguments; raw pointers into the own allocation)"
                       + ("" if quick else f" and of length 4 over its first {NSTD_OPS} ops") +
                       f" ({len(ex)} histories) + capacity/head-room boundary family: capacity 0..{6 if quick else 12} x bytes held x bytes removed x "
                       f"every growing/shrinking op with sizes 0..capacity+2 ({len(fam)} histories) + scripted send-backlog streams on a default Buffer: every "
                       f"append a; removeFront r; append n; removeFront r2; append n2 with a <= {5 if quick else 7} plus two boundary-aimed sliding rounds after first chunks "
                       f"of 16..1000 bytes ({len(bl)} histories) + attach on a Buffer that owned capacity 0..{6 if quick else 12}/100 before x attached length 0..8 x every op "
                       f"with sizes 0..capacity+2 ({len(af)} histories) + {len(rnd)} random histories (5..60 ops over 2 variables and 2 attachable regions which may be shared; "
                       "sizes 0..16, boundary sizes relative to the current lengths, 1/7 with sizes up to 300, 1/11 following the Server.cpp send-backlog pattern); "
                       "distinct_nontrivial = distinct (op-kind set, final observation) among histories with >= 3 ops and a non-empty final buffer")
    ctx.cov["exhaustive"] = True   # the enumerated scope is run completely (the random part is sampled)
    ctx.cov["exhaustive_scope"] = f"length<=3 over {len(SMALL_OPS)} ops{'' if quick else f', length 4 over {NSTD_OPS} ops'}: {len(ex)} histories; boundary family: {len(fam)} histories; send-backlog family: {len(bl)} histories; attach-after-owning family: {len(af)} histories"
    return hs + ex + fam + bl + af + rnd


def backlog_sources():
    r = C.REPO / "src"
    # Server.cpp is #included by buffer_backlog.cpp itself (white-box access to Server::Private::ClientImpl)
    return ["buffer_backlog.cpp"] + [r / f for f in (
        "Socket/Socket.cpp", "Time.cpp", "Mutex.cpp", "Error.cpp", "Memory.cpp", "Future.cpp",
        "Thread.cpp", "Signal.cpp", "Semaphore.cpp", "String.cpp", "System.cpp", "Debug.cpp", "Process.cpp")]


def build_backlog(ctx):
    return C.build_harness(ctx, "buffer_backlog", backlog_sources(), extra_flags=[f"-I{C.REPO / 'src'}"], libs=["-lpthread", "-lrt"])


def check(ctx):
    ctx.assumptions += [
        "memory model of the Lean model: each Buffer holds its allocation / its attached range as a separate checked block; every access is validated against its extent and, for owned blocks, against the allocation ledger (block ids + live set; new/delete[] in C++ order)",
        "data arguments given by (pointer, size) are outside the buffer's block, a sub-range of its own exposed bytes, or any sub-range of its own allocation / attached range (all proved); a range that straddles the end of the allocation is a fault of the model",
        "allocation never fails",
        "translated bodies (tools/gen_buffer.py, CMem.lean): a pointer is (block, offset); comparing pointers into different blocks yields the order of the blocks (distinct blocks do not touch); usize arithmetic does not wrap",
    ]
    proof_ok = C.proof_stage(ctx, PROPS, [DRIVER], gen=gen, leanchecker=(ctx.tier == "thorough"))
    harness = C.build_harness(ctx, "buffer", ["buffer.cpp", C.REPO / "src/Memory.cpp"])
    if harness is None or not C.driver_path(DRIVER).exists():
        return
    try:
        hs = histories_for(ctx)
        if not proof_ok:
            ctx.log("proof stage broken: searching harder for a failing input")
            hs += [gen_history(ctx.rng, 30) for _ in range(20000)]
        ops = {}
        for h in hs:
            for l in h:
                ops[l.split()[0]] = ops.get(l.split()[0], 0) + 1
        ctx.cov["op_histogram"] = ops
        ctx.cov["samples"] = [" ; ".join(h) for h in (hs[-3:] + hs[len(hs) // 2: len(hs) // 2 + 2])]
        diffs = differential_mp(ctx, harness, C.driver_path(DRIVER), hs)
        ctx.log(f"{len(hs)} histories, {ctx.cov['evaluations']} op lines, {len(diffs)} disagreement(s)")
        report_diffs(ctx, diffs, harness, C.driver_path(DRIVER), "buffer-ops")
        # the real backlog client of Server.cpp (ClientImpl::write + write-readiness handler) against the client model
        h2 = build_backlog(ctx)
        if h2 is not None:
            try:
                ch = tagged("client", client_family(ctx.tier == "quick", ctx.rng))
                hits0 = ctx.cov.get("branch_hits", {})
                d2 = differential_mp(ctx, h2, C.driver_path(DRIVER), ch)
                hits0.update(ctx.cov.get("branch_hits", {}))
                ctx.cov["branch_hits"] = dict(sorted(hits0.items()))
                ctx.cov["rule"] += (f" + backlog-client stream on the real Server.cpp code (ClientImpl::write, write-readiness branch of run(); send scripted): "
                                    f"{len(ch)} histories (all <= {4 if ctx.tier == 'quick' else 5}-op sequences of one client over 15 ops, boundary-aimed sliding windows, random two-client interleavings)")
                ctx.cov["exhaustive_scope"] += f"; backlog-client stream: {len(ch)} histories"
                ctx.cov["samples"] += [" ; ".join(h) for h in ch[-2:]]
                for h in ch:
                    for l in h:
                        ops[l.split()[0]] = ops.get(l.split()[0], 0) + 1
                ctx.log(f"backlog-client stream: {len(ch)} histories, {len(d2)} disagreement(s)")
                report_diffs(ctx, d2, h2, C.driver_path(DRIVER), "backlog-client")
            finally:
                try:
                    h2.unlink()
                except OSError:
                    pass
    finally:
        try:
            harness.unlink()
        except OSError:
            pass


def replay(ctx, path):
    h = C.parse_replay(path)
    harness = build_backlog(ctx) if is_client(h) else C.build_harness(ctx, "buffer", ["buffer.cpp", C.REPO / "src/Memory.cpp"])
    C.lake_build([DRIVER])
    diffs, nlines, done, _, _ = run_batch(harness, C.driver_path(DRIVER), [h], 120)
    ctx.cov["evaluations"] += nlines
    for d in diffs:
        print(d.text())
        ctx.violation(f"replay: {d.kind}", d.text())
    harness.unlink()
