"""C08  Buffer is a faithful byte queue with a terminator and no stray writes."""
import itertools
import common as C

PROPERTIES = ["C08"]
MANIFEST = {
    "C08": {
        "technique": "Lean 4 proof (refinement of a checked-memory model of Buffer to a byte queue, invariant by induction over operation lists) + differential correspondence model vs real Buffer.hpp",
        "text": "Theorems over all operation histories of the Lean model of Buffer (byte-queue refinement, terminator, no out-of-range access); the model is tied to the current Buffer.hpp on every run by executing identical op lines on both (exhaustive small scope + random histories, ASan/UBSan, guard bytes) and by an independent reference byte queue.",
        "note": "Trusted: Lean kernel + the three standard axioms; hand translation of Buffer.hpp into the model (validated by the correspondence run, not proved); checked-memory abstraction (separate blocks, no pointer arithmetic across blocks); allocation never fails; attached ranges are used by one buffer at a time.",
        "design_ref": "DESIGN.md 3/C08",
    }
}
PROPS = ["Nstd.Buffer.Props"]
LEAN_TARGETS = PROPS + ["drv_buffer"]
DRIVER = "drv_buffer"
REGLEN = [8, 5]
REGBASE = [0x10, 0x20]


# ---- reference byte queue (the property's oracle, independent of the Lean model) -----------------
def hexs(bs):
    return "-" if not bs else "".join("??" if b is None else f"{b:02x}" for b in bs)


def unhex(t):
    return [] if t == "-" else [int(t[i:i + 2], 16) for i in range(0, len(t), 2)]


def reference(hist, impl_out):
    """expected `size bytes | size bytes` per op (None bytes = unspecified).  Attached
    buffers read through region memory, of which Buffer may only modify bytes inside the
    attached range (the reference tracks the one documented case: the terminator written by
    removeBack)."""
    q = [[], []]
    out = []
    regs = [[REGBASE[r] + i for i in range(REGLEN[r])] for r in range(2)]
    for k, line in enumerate(hist):
        # attached memory is caller memory: its current content is read off the previous observation
        if k > 0 and k - 1 < len(impl_out) and " # " in impl_out[k - 1]:
            try:
                regs = [unhex(x) for x in impl_out[k - 1].split(" # ")[1].split(" ")]
            except ValueError:
                pass
        t = line.split()
        op = t[0]
        v = int(t[1]) if len(t) > 1 else 0
        w = int(t[2]) if len(t) > 2 and op in ("copy", "assignb", "prependb", "appendb", "swap", "eq") else 0
        if op == "eq":
            out.append(f"eq {1 if q[v] == q[w] else 0}")
            continue
        if op in ("new", "free", "clear"):
            q[v] = []
        elif op == "newcap":
            q[v] = []
        elif op in ("newdata", "assign"):
            q[v] = unhex(t[2])
        elif op in ("copy", "assignb"):
            q[v] = list(q[w])
        elif op == "attach":
            r, off, ln = int(t[2]), int(t[3]), int(t[4])
            q[v] = list(regs[r][off:off + ln])
        elif op == "prepend":
            q[v] = unhex(t[2]) + q[v]
        elif op == "prependb":
            q[v] = list(q[w]) + q[v]
        elif op == "append":
            q[v] = q[v] + unhex(t[2])
        elif op == "appendb":
            q[v] = q[v] + list(q[w])
        elif op == "resize":
            n = int(t[2])
            q[v] = q[v][:n] + [None] * (n - len(q[v]))
        elif op == "removeFront":
            q[v] = q[v][int(t[2]):]
        elif op == "removeBack":
            n = int(t[2])
            q[v] = q[v][:max(0, len(q[v]) - n)]
        elif op == "reserve":
            pass
        elif op == "swap":
            q[v], q[w] = q[w], q[v]
        out.append(" | ".join(f"{len(x)} {hexs(x)}" for x in q))
    return out


def ref_eq(impl, ref):
    """impl line `size bytes owned term | ... # regions`  against the reference line"""
    if impl.startswith("eq") or ref.startswith("eq"):
        return impl == ref
    if impl.startswith("FAULT") or "#" not in impl:
        return False
    vars_i = impl.split(" # ")[0].split(" | ")
    vars_r = ref.split(" | ")
    if len(vars_i) != len(vars_r):
        return False
    for a, b in zip(vars_i, vars_r):
        ta, tb = a.split(" "), b.split(" ")
        if len(ta) != 4 or ta[0] != tb[0]:
            return False
        if not C.wildcard_eq(ta[1], tb[1]):
            return False
        if ta[2] == "1" and ta[3] != "00":       # owning => terminator
            return False
    return True


reference.eq = ref_eq
reference.uses_impl = True


# ---- generators -----------------------------------------------------------------------------------
def rand_bytes(rng, n):
    return hexs([rng.randrange(1, 256) for _ in range(n)])


def gen_history(rng, length, attached_regions=True):
    """structured generator.  An attached region is handed to at most one live buffer
    (aliasing two buffers onto the same caller memory is the caller's business, not Buffer's)."""
    h = []
    holder = {}     # region -> var currently attached (approximation kept by the generator)
    att = [None, None]
    sizes = [0, 0, 1, 1, 2, 3, 4, 5, 7, 8, 9, 16]
    for _ in range(length):
        v = rng.randrange(2)
        w = rng.randrange(2)
        k = rng.random()
        n = rng.choice(sizes)
        if k < 0.16: op = f"append {v} {rand_bytes(rng, n)}"
        elif k < 0.26: op = f"prepend {v} {rand_bytes(rng, n)}"
        elif k < 0.36: op = f"removeFront {v} {n}"
        elif k < 0.44: op = f"removeBack {v} {n}"
        elif k < 0.52: op = f"resize {v} {n}"
        elif k < 0.57: op = f"reserve {v} {n}"
        elif k < 0.61: op = f"assign {v} {rand_bytes(rng, n)}"
        elif k < 0.66: op = f"assignb {v} {w}"
        elif k < 0.71: op = f"appendb {v} {w}"
        elif k < 0.75: op = f"prependb {v} {w}"
        elif k < 0.78: op = f"swap {v} {w}"; att[v], att[w] = att[w], att[v]
        elif k < 0.81: op = f"clear {v}"
        elif k < 0.84: op = f"free {v}"
        elif k < 0.86: op = f"new {v}"
        elif k < 0.88: op = f"newcap {v} {n}"
        elif k < 0.90: op = f"newdata {v} {rand_bytes(rng, n)}"
        elif k < 0.92: op = f"copy {v} {w}"
        elif k < 0.94: op = f"eq {v} {w}"
        elif attached_regions:
            r = rng.randrange(2)
            other = 1 - v
            if att[other] == r:
                r = 1 - r
            if att[other] == r:
                continue
            off = rng.randrange(REGLEN[r] + 1)
            ln = rng.randrange(REGLEN[r] - off + 1)
            op = f"attach {v} {r} {off} {ln}"
            att[v] = r
            h.append(op)
            continue
        else:
            continue
        # an attached buffer stops referring to its region once it owns storage; the generator
        # keeps the conservative approximation "still attached" until the variable is re-created
        if op.split()[0] in ("new", "newcap", "newdata", "free", "copy") :
            att[v] = None
        h.append(op)
    return h


SMALL_OPS = [
    "newcap 0 0", "newcap 0 3", "newdata 0 -", "newdata 0 6162", "attach 0 0 1 0", "attach 0 0 1 3",
    "assign 0 -", "assign 0 7172", "prepend 0 -", "prepend 0 41", "prepend 0 414243", "append 0 -", "append 0 51",
    "append 0 515253", "resize 0 0", "resize 0 1", "resize 0 4", "resize 0 5", "removeFront 0 1", "removeFront 0 3",
    "removeBack 0 1", "removeBack 0 3", "reserve 0 4", "clear 0", "free 0", "swap 0 1", "assignb 0 1", "assignb 0 0",
    "appendb 0 1", "appendb 0 0", "prependb 0 1", "prependb 0 0", "copy 1 0", "new 0", "eq 0 1",
]


def exhaustive(depth, rng=None, limit=None):
    hs = [list(p) for d in range(1, depth + 1) for p in itertools.product(SMALL_OPS, repeat=d)]
    # region 0 may be attached to one buffer only: drop histories that attach var 0, swap, attach again
    def ok(h):
        attached = False
        swapped = False
        for op in h:
            if op.startswith("attach"):
                if swapped and attached:
                    return False
                attached = True
            if op.startswith("swap") or op.startswith("copy") is False and False:
                pass
            if op.startswith("swap") and attached:
                swapped = True
        return True
    hs = [h for h in hs if ok(h)]
    if limit and len(hs) > limit:
        rng.shuffle(hs)
        hs = hs[:limit]
    return hs


def nontrivial(h, out):
    """distinct = distinct (set of op kinds, final observation); non-trivial = at least 3 ops and a non-empty buffer"""
    if len(h) < 3 or not out:
        return None
    last = out[-1]
    if last.startswith("0 - ") and " | 0 - " in last:
        return None
    return (frozenset(l.split()[0] for l in h), last)


def histories_for(ctx):
    rng = ctx.rng
    quick = ctx.tier == "quick"
    hs = C.load_corpus(ctx.prop)
    ncorpus = len(hs)
    ex = exhaustive(3 if quick else 4, rng, None if quick else 600000)
    rnd = [gen_history(rng, rng.choice([5, 10, 20, 40])) for _ in range(3000 if quick else 40000)]
    ctx.cov["rule"] = (f"corpus ({ncorpus}) + exhaustive: all op sequences of length <= {3 if quick else 4} over a {len(SMALL_OPS)}-op "
                       f"alphabet (sizes 0,1,3,4,5; attach; self/other arguments){'' if quick else ' (sampled to 600000 at length 4)'}"
                       f" ({len(ex)} histories) + {len(rnd)} random histories of 5..40 ops over 2 variables and 2 attachable regions; "
                       "distinct_nontrivial = distinct (op-kind set, final observation) among histories with >= 3 ops and a non-empty final buffer")
    ctx.cov["exhaustive"] = False
    ctx.cov["exhaustive_scope"] = f"length<={3 if quick else 4} over {len(SMALL_OPS)} ops: {len(ex)} histories"
    return hs + ex + rnd


def check(ctx):
    ctx.assumptions += [
        "memory model of the Lean model: each allocation/attached range is a separate block, accesses are checked against its extent",
        "an attached range is handed to one live Buffer at a time; data arguments given by pointer do not alias the buffer's own storage (Buffer arguments may be the buffer itself)",
        "allocation never fails",
    ]
    proof_ok = C.proof_stage(ctx, PROPS, [DRIVER], leanchecker=(ctx.tier == "thorough"))
    harness = C.build_harness(ctx, "buffer", ["buffer.cpp", C.REPO / "src/Memory.cpp"])
    if harness is None or not C.driver_path(DRIVER).exists():
        return
    try:
        hs = histories_for(ctx)
        if not proof_ok:
            ctx.log("proof stage broken: searching harder for a failing input")
            hs += [gen_history(ctx.rng, 30) for _ in range(20000)]
        ops = {}
        for h in hs:
            for l in h:
                ops[l.split()[0]] = ops.get(l.split()[0], 0) + 1
        ctx.cov["op_histogram"] = ops
        ctx.cov["samples"] = [" ; ".join(h) for h in (hs[-3:] + hs[len(hs) // 2: len(hs) // 2 + 2])]
        diffs = C.differential(ctx, harness, C.driver_path(DRIVER), hs, reference, C.wildcard_eq, nontrivial=nontrivial)
        ctx.log(f"{len(hs)} histories, {ctx.cov['evaluations']} op lines, {len(diffs)} disagreement(s)")
        C.report_diffs(ctx, diffs, harness, C.driver_path(DRIVER), reference, C.wildcard_eq, "buffer-ops")
    finally:
        try:
            harness.unlink()
        except OSError:
            pass


def replay(ctx, path):
    h = C.parse_replay(path)
    harness = C.build_harness(ctx, "buffer", ["buffer.cpp", C.REPO / "src/Memory.cpp"])
    C.lake_build([DRIVER])
    diffs = C.differential(ctx, harness, C.driver_path(DRIVER), [h], reference, C.wildcard_eq)
    for d in diffs:
        print(d.text())
        ctx.violation(f"replay: {d.kind}", d.text())
    harness.unlink()
