"""C18  Text codecs and numeric conversions are exact inverses and bounds-safe."""
import base64
import hashlib
import math
import re
import struct
import common as C
import gen_codec

PROPERTIES = ["C18"]
MANIFEST = {
    "C18": {
        "technique": "Lean 4 proof over a checked-memory model of Unicode.hpp / String::fromHex / fromBase64 / the numeric conversions; tie by TRANSLATION: "
                     "tools/gen_codec.py parses the bodies of Unicode::append (UTF-8 and _UNICODE branch) / toString / length / fromString / isValid (all overloads), "
                     "String::fromHex, String::fromBase64 and the fifteen numeric wrappers from the current sources (C++ subset -> Lean, refusing anything else) and "
                     "PropsBody*.lean prove every translated function equal to the model function on all inputs "
                     "(tables, masks, guard and encoder range tests are additionally regenerated as single definitions; Unicode::length, String::isSpace and "
                     "the case maps as tables obtained by executing the current sources) + differential correspondence of the compiled model with the real "
                     "code under ASan/UBSan, incl. all 1,114,112 code points, and of the libc definitions with the real libc",
        "text": "Theorems (all inputs, no bounds; Nstd/Codec/Props.lean + PropsNum.lean + PropsUtf8.lean, none partial): toString(cp) = RFC 3629 encoding and "
                "fromString(toString(cp)) = cp for every cp < 0x110000 (range lemmas, no enumeration), also in front of arbitrary trailing "
                "bytes; empty result above U+10FFFF; fromString returns the payload bits of EVERY structurally complete sequence and toString(fromString(s)) = s "
                "exactly for the shortest forms up to U+10FFFF; isValid = the structural well-formedness predicate for EVERY byte string, accepts every "
                "RFC 3629 string (strictly more: the ABNF is proved equal to structural + shortest + non-surrogate); fromString/isValid never read outside "
                "the range they are given and length() never leaves the 5-entry offset table; fromHex = upper-case hex text of every byte string, injective and a homomorphism for concatenation (hex_injective_and_concatenates), its text only 0-9A-F (hex_text_is_upper_case_digits), the UTF-8 encoder injective and prefix-free over all code points and continuations (utf8_injective_and_prefix_free), the four integer printers injective on their whole range (int_texts_injective), "
                "inverted by the specification decoder; fromBase64 = Spec.b64Decode for EVERY input, inverts the RFC 4648 encoding of every byte string, "
                "reads its table below its size and writes inside the reserved buffer (false for the unpatched signed guard: defect D26); "
                "numeric clause: the eight to* overloads (member + static) on EVERY text - numeral of any magnitude (saturation / ULLONG_MAX / negation in the "
                "unsigned type / truncation to uint / where ISO C leaves atoi undefined and what glibc does), text without a number (0), embedded NUL - "
                "the printed numerals are canonical, all round trips incl. the minimum values through both overload families, which branch of String::printf "
                "runs; fromDouble/toDouble round trip for every double that is a multiple of 1/64 (where %f is exact), relative to an exact-on-representable strtod; "
                "isSpace / toLowerCase(char) / toUpperCase(char) for all 256 bytes; the _UNICODE branch of Unicode::append = UTF-16 (RFC 2781) for every uint32 "
                "(utf16_agrees, on the translated code; that branch is not compiled here).  "
                "TRANSLATED = MODEL (PropsBody.lean, PropsBodyStr.lean, PropsBodyNum.lean): the Lean functions that tools/gen_codec.py reads off the current bodies of "
                "Unicode::append / toString / length / fromString / isValid (pointer and String forms, array forms), String::fromHex, String::fromBase64 "
                "(every if / switch with fall-through / loop / pointer step / checked read and store / uint32 and usize wrap-around) are the model functions for all byte "
                "lists, all lengths < 2^64 and every fuel above the length (body_append ... body_fromBase64); the ten parsers and five formatters call the libc "
                "function with the arguments and result conversion the model says (body_toInt ... body_fromDouble), the eight <cctype> wrappers the libc predicate the cls lines print (body_ctype_wrappers); translated_printf_value / fromInt64_ / fromUInt64_ / fromDouble_through_translated_printf (PropsBodyFmt.lean): the translated String::printf, on any String of any state with the String invariant and with the text of the conversion the generated wrapper names, leaves exactly fromX(value) in the String - the canonical numeral for EVERY value incl. INT_MIN / INT64_MIN, and the Codec model\'s hand translation `printf printfCap text` is that value; numeric_boundary_table: 27 closed rows "
                "(\"-1\" through the unsigned parsers, +-2^64, +-2^63, 2^32, 2^31) that also run on the real code and libc from the corpus.  "
                "Tie to the current sources on every run: the translated bodies above, generated tables / guard / "
                "switch expressions / masks / range tests (the theorems are stated over them), identical op lines through the real "
                "code (exactly sized heap buffers; every public overload named by the property, both overload families printed) and the compiled model with Python "
                "codecs/base64/int/float as independent reference, direct calls of atoi/strtol/strtoul/strtoll/strtoull/atoll/snprintf compared with the Lean "
                "definitions of libc, and a test of the Lean specifications against Python.",
        "note": "Trusted: Lean kernel + propext/Classical.choice/Quot.sound; the SEMANTICS of the body translator of tools/gen_codec.py (unsigned values as Nat with "
                "modulo 2^width exactly where a sound static range analysis cannot exclude a wrap; usize counters ++/+= assumed not to wrap; a signed char keeps its byte value "
                "and is refused where sign extension would matter; pointer parameters as offsets into a block with a readable range; (const char*)s = s ++ [0] readable below "
                "length(); String r / r.append / r.resize / r.reserve + raw stores + resize(j) under the buffer protocol below; loops as recursive functions on fuel, the theorems "
                "hold for every fuel above the length; switch = selector once, cases in source order, fall-through unrolled; anything outside the subset is refused = broken tie); "
                "hand-translated and only tied by the correspondence run: String::fromPrintf (second copy of the two-attempt algorithm), cstr (String -> const char*); "
                "String::printf is the Str area's translation (Nstd/Generated/StrBody.lean by tools/gen_str.py, regenerated by this run too; Nstd.Str.printf_translated, "
                "Mach.vsnprintf as the stated libc definition) imported read-only by PropsBodyFmt.lean - the Lean targets of C18 therefore include the Str closure; "
                "which libc function each numeric / <cctype> wrapper calls is translated at regex level (Generated/CodecNum.lean, any other shape refused); "
                "the UTF-16 branch of Unicode::append is translated and proved but never executed (not compiled on this platform); "
                "the table/expression translator of tools/gen_codec.py (Unicode::length, String::isSpace, toLowerCase/toUpperCase(char) as tables by executing harness/codec_probe.cpp built from the current "
                "sources; otherwise regexes + a small C expression/statement translator that interprets the per-byte tests of fromBase64 in "
                "source order; a shape it cannot interpret is reported as a broken tie); libc behaviour (vsnprintf %d/%u/%lld/%llu/%f, strtol/strtoul/strtoll/strtoull, glibc atoi/atoll, "
                "<cctype> in the C locale, LP64) is ASSUMED as Lean definitions - the numeric theorems are relative to them; they are compared with the real libc by the lcs/lcf/cls/fd lines "
                "of every run (a test); strtod is a parameter with the stated assumption StrtodExact (exact on representable decimal texts) - for arbitrary texts toDouble is only "
                "tested (executable correctly rounding strtodRef of the driver vs libc vs Python float; hex floats not modelled); the double round trip is false beyond multiples of 1/64 "
                "(six decimals) and is not claimed there; String's buffer "
                "management (reserve/resize/append, area Str) is not modelled: the result buffers of fromBase64 (inlen bytes) and "
                "fromHex (2*size bytes) are fixed blocks with checked writes (fromBase64: exactly the bytes of its `result.reserve(E)` request).  The exhaustive runs (all code points, all byte strings "
                "<= 3 bytes, all base64 strings <= 4 symbols over 68 symbols) are TESTS of the tie, not the proof.  isValid accepts "
                "over-long forms / surrogates / > U+10FFFF by design of the code; isValid_spec, abnf_iff and rfc3629_accepted state exactly that.  The _UNICODE (UTF-16) branch of "
                "Unicode::append is not compiled here (translated + proved, not run); libnstd has no toHex/toBase64/hex decoder.",
        "design_ref": "DESIGN.md 3/C18",
    }
}
PROPS = ["Nstd.Codec.Props", "Nstd.Codec.PropsNum", "Nstd.Codec.PropsUtf8", "Nstd.Codec.PropsBody", "Nstd.Codec.PropsBodyStr",
         "Nstd.Codec.PropsBodyNum", "Nstd.Codec.PropsBodyUtf16", "Nstd.Codec.PropsBodyFmt"]
DRIVER = "drv_codec"
LEAN_TARGETS = PROPS + [DRIVER]
SOURCES = ["codec.cpp", C.REPO / "src/String.cpp", C.REPO / "src/Memory.cpp"]

B64ALPHA = b"ABCDEFGHIJKLMNOPQRSTUVWXYZabcdefghijklmnopqrstuvwxyz0123456789+/"
B64SYMS = list(B64ALPHA) + [0x3D, 0x80, 0xFF, 0x7B]
M64 = (1 << 64) - 1


def gen_strbody(ctx=None):
    """PropsBodyFmt.lean speaks about the Str area's translation of String::printf (Nstd/Generated/StrBody.lean, written by
    tools/gen_str.py - used read-only): regenerate it from THIS run's sources so that the theorem is about the current body.
    A refusal of that translator is the Str area's (C06) broken tie, not C18's: noted, the last translation stays."""
    try:
        import gen_str
        ok, msg = gen_str.run(C.REPO)
    except Exception as ex:                                    # noqa: BLE001 - another area's tool must not take this check down
        ok, msg = False, repr(ex)
    if ctx is not None:
        ctx.cov["strbody_translation_of_String_printf"] = ("regenerated " if ok else "NOT regenerated: ") + str(msg)[:200]
    return ok


def setup():
    ok, msg = gen_codec.gen()
    if not ok:
        print("gen_codec:", msg)
    gen_strbody()


def gen(ctx):
    gen_strbody(ctx)
    r = gen_codec.gen(ctx, C.REPO)
    if ctx is not None and r[0]:
        try:                     # what the body translator produced on THIS run (measured from the generated files)
            import re as _re
            body = gen_codec.BODY_OUT.read_text()
            num = gen_codec.NUM_OUT.read_text()
            ctx.cov["translated_functions"] = _re.findall(r"^def (\w+)", body, _re.M) + ["num:" + n for n in _re.findall(r"^def (\w+)", num, _re.M)]
            ctx.cov["translated_lean_lines"] = body.count("\n") + num.count("\n")
        except OSError:
            pass
    return r


def hx(bs):
    return bytes(bs).hex() if bs else "-"


def unhx(t):
    return b"" if t == "-" else bytes.fromhex(t)


# ---- independent reference (Python codecs / base64 / int) ----------------------------------------
def fnv(h, data):
    for b in data:
        h = ((h ^ b) * 0x100000001b3) & M64
    return h


def enc_ref(cp):
    """RFC 3629 (surrogates: generalized UTF-8, which is what the code produces); empty above U+10FFFF"""
    return chr(cp).encode("utf-8", "surrogatepass") if cp < 0x110000 else b""


def len_ref(b):
    return 1 if b < 0x80 else 2 if 0xC0 <= b <= 0xDF else 3 if 0xE0 <= b <= 0xEF else 4 if 0xF0 <= b <= 0xF7 else 0


_cp_cache = {}


def cp_batch_ref(start, count):
    key = (start, count)
    if key in _cp_cache:
        return _cp_cache[key]
    h = 0xcbf29ce484222325
    good = 0
    parts = []
    for cp in range(start, start + count):
        s = enc_ref(cp)
        v = cp if s else 0
        parts.append(bytes([len(s)]) + s + v.to_bytes(4, "little") + b"\x01" + bytes([len(s) if s else 255]))
        if s:
            good += 1
    h = fnv(h, b"".join(parts))
    r = f"cp {good} {h:016x}"
    _cp_cache[key] = r
    return r


STRUCT_VALID = re.compile(rb"(?:[\x00-\x7f]|[\xc0-\xdf][\x80-\xbf]|[\xe0-\xef][\x80-\xbf]{2}|[\xf0-\xf7][\x80-\xbf]{3})*", re.S)


def dec_ref(bs):
    """isValid = structural well-formedness (lead byte class + continuation bytes; the code does not reject
    over-long forms, surrogates or values above U+10FFFF); fromString = code point of the first sequence when
    Python can decode it, otherwise unspecified (`?`)."""
    valid = 1 if STRUCT_VALID.fullmatch(bs) else 0
    if not bs:
        return "dec 0 1"
    n = len_ref(bs[0])
    val = "?"
    if n and len(bs) >= n:
        try:
            val = str(ord(bs[:n].decode("utf-8", "surrogatepass")))
        except UnicodeDecodeError:
            val = "?"
    elif n and len(bs) < n:
        val = "0"                     # documented in the source: not enough bytes -> 0
    return f"dec {val} {valid}"


def b64_ref(inp):
    try:
        d = base64.b64decode(inp, validate=True)
    except Exception:
        return None
    if base64.b64encode(d) != inp:
        return None                   # not the RFC 4648 encoding of anything (non-canonical padding bits)
    return "b64 " + hx(d)


INT = {"i32": (32, True), "u32": (32, False), "i64": (64, True), "u64": (64, False)}
NUM_RX = re.compile(rb"[ \t\n\v\f\r]*([+-]?)([0-9]*)", re.S)


def c_number(text):
    """mathematical value of the number a C text starts with (C11 7.22.1.4 subject sequence, base 10); 0 when there is none"""
    m = NUM_RX.match(text.split(b"\0")[0])
    v = int(m.group(2) or b"0")
    return -v if m.group(1) == b"-" else v


def ref_line(line):
    t = line.split()
    op = t[0]
    try:
        if op == "reset":
            return "ok"
        if op == "cp":
            return cp_batch_ref(int(t[1]), int(t[2]))
        if op == "cp1":
            cp = int(t[1])
            s = enc_ref(cp)
            return f"cp1 {hx(s)} {cp if s else 0} 1 {len(s) if s else '-'}"
        if op == "len":
            return f"len {len_ref(int(t[1]))}"
        if op == "dec":
            return dec_ref(unhx(t[1]))
        if op == "u32s":
            cps = [] if t[1] == "-" else [int(x) for x in t[1].split(",")]
            return f"u32s {1 if all(c < 0x110000 for c in cps) else 0} {hx(b''.join(enc_ref(c) for c in cps))}"
        if op == "hex":
            return "hex " + hx(unhx(t[1]).hex().upper().encode())
        if op == "b64":
            return b64_ref(unhx(t[1]))
        if op[0] == "f" and op[1:] in INT:
            bits, signed = INT[op[1:]]
            v = int(t[1], 16)
            if signed and v >= 1 << (bits - 1):
                v -= 1 << bits
            return f"{op} {v} {v} {v % (1 << bits):0{bits // 4}x} {v % (1 << bits):0{bits // 4}x}"
        if op[0] == "p" and op[1:] in INT:
            bits, signed = INT[op[1:]]
            v = c_number(unhx(t[1]))
            if op == "pi32":
                if not -(1 << 31) <= v < (1 << 31):
                    return None       # atoi outside the int range: undefined by ISO C (glibc wraps): compared with the model only
                r = v % (1 << 32)
            elif op == "pi64":
                r = max(-(1 << 63), min((1 << 63) - 1, v)) % (1 << 64)                # strtoll saturates
            else:
                r = M64 if abs(v) > M64 else v % (1 << 64)                              # strtoull: ULLONG_MAX / negated in the type
                if op == "pu32":
                    r %= 1 << 32                                                        # (uint) of the unsigned long
            return f"{op} {r:0{bits // 4}x} {r:0{bits // 4}x}"
        if op == "lcs":
            v = c_number(unhx(t[2]))
            fn = t[1]
            if fn == "atoi":
                return f"lcs {v % (1 << 32):08x}" if -(1 << 31) <= v < (1 << 31) else None
            if fn in ("atol", "atoll", "strtol", "strtoll"):
                return f"lcs {max(-(1 << 63), min((1 << 63) - 1, v)) % (1 << 64):016x}"
            if fn in ("strtoul", "strtoull"):
                return f"lcs {(M64 if abs(v) > M64 else v % (1 << 64)):016x}"
            return None
        if op == "lcf":
            v, cap = int(t[2], 16), int(t[3])
            if len(t[2]) != 16 or cap > 64:
                return None
            if t[1] in ("d", "u"):
                v %= 1 << 32
            if t[1] == "d" and v >= 1 << 31:
                v -= 1 << 32
            if t[1] == "lld" and v >= 1 << 63:
                v -= 1 << 64
            if t[1] not in ("d", "u", "lld", "llu"):
                return None
            text = str(v).encode()
            return f"lcf {hx(text[:cap - 1] if cap else b'')} {len(text)}"
        if op == "cls":
            b = int(t[1])
            c = bytes([b])
            printable = 32 <= b <= 126
            fl = [c.isspace(), c.isalnum(), c.isalpha(), c.isdigit(), c.islower(), printable, printable and b != 32 and not c.isalnum(),
                  c.isupper(), c in b"0123456789abcdefABCDEF"]
            return f"cls {''.join('1' if x else '0' for x in fl)} {c.lower()[0]} {c.upper()[0]}"
    except (ValueError, IndexError):
        return None
    return None


def reference(hist):
    return [ref_line(l) for l in hist]


def ref_eq(impl, ref):
    if impl == ref:
        return True
    a, b = impl.split(" "), ref.split(" ")
    return len(a) == len(b) and all(x == y or y == "?" for x, y in zip(a, b))


reference.eq = ref_eq


# ---- generators -----------------------------------------------------------------------------------
CP_BOUNDS = [0, 1, 0x7F, 0x80, 0x7FF, 0x800, 0xFFF, 0x1000, 0xD7FF, 0xD800, 0xDBFF, 0xDC00, 0xDFFF, 0xE000, 0xFFFD, 0xFFFE, 0xFFFF,
             0x10000, 0x3FFFF, 0x40000, 0xFFFFF, 0x100000, 0x10FFFF, 0x110000, 0x110001, 0x1FFFFF, 0x200000, 0x7FFFFFFF,
             0x80000000, 0xFFFFFFFF]


def rand_cp(rng):
    k = rng.random()
    if k < 0.2: return rng.randrange(0x80)
    if k < 0.4: return rng.randrange(0x80, 0x800)
    if k < 0.65: return rng.randrange(0x800, 0x10000)
    if k < 0.9: return rng.randrange(0x10000, 0x110000)
    if k < 0.95: return rng.randrange(0x110000, 1 << 32)
    return rng.choice(CP_BOUNDS)


def rand_utf8ish(rng):
    """mostly well-formed sequences with truncations, bad continuation bytes, stray bytes"""
    out = bytearray()
    for _ in range(rng.randrange(1, 5)):
        k = rng.random()
        s = bytearray(enc_ref(rand_cp(rng) % 0x110000))
        if k < 0.15 and len(s) > 1:
            s = s[:rng.randrange(1, len(s))]                       # truncated
        elif k < 0.3 and len(s) > 1:
            s[rng.randrange(1, len(s))] = rng.randrange(256)        # bad continuation
        elif k < 0.4:
            s = bytearray([rng.choice([0x80, 0xBF, 0xC0, 0xC1, 0xF5, 0xF7, 0xF8, 0xFB, 0xFC, 0xFE, 0xFF, rng.randrange(256)])])
        elif k < 0.45:
            s = bytearray(rng.randrange(256) for _ in range(rng.randrange(1, 4)))
        out += s
    if rng.random() < 0.2 and out:
        out = out[:rng.randrange(1, len(out) + 1)]
    return bytes(out)


def rand_b64(rng):
    raw = bytes(rng.randrange(256) for _ in range(rng.choice([0, 1, 2, 3, 4, 5, 6, 7, 8, 9, 10, 15, 16, 17, 30, 31, 32, 33, 57, 100])))
    e = bytearray(base64.b64encode(raw))
    k = rng.random()
    if k < 0.5 or not e:
        return bytes(e)
    if k < 0.65:
        e[rng.randrange(len(e))] = rng.choice([0x80, 0xFF, 0x7B, 0x7A, 0x7F, 0x3D, 0x00, 0x20, 0x2D, 0x5F, rng.randrange(256)])
    elif k < 0.75:
        e = e[:rng.randrange(len(e))]
    elif k < 0.85:
        e.insert(rng.randrange(len(e) + 1), rng.randrange(256))
    elif k < 0.95:
        e = e + bytearray(base64.b64encode(bytes(rng.randrange(256) for _ in range(rng.randrange(1, 6)))))   # '=' in the middle
    else:
        e = bytearray(rng.choice(B64SYMS) for _ in range(4 * rng.randrange(1, 4)))
    return bytes(e)


def int_values(rng, bits, signed, n):
    vals = {0, 1, 2, 9, 10, 11, 99, 100, 101}
    for k in range(1, 21):
        for d in (-1, 0, 1):
            vals.add(10 ** k + d)
    for k in range(1, bits + 1):
        for d in (-1, 0, 1):
            vals.add((1 << k) + d)
    if signed:
        vals |= {-v for v in vals}
        lo, hi = -(1 << (bits - 1)), (1 << (bits - 1)) - 1
    else:
        lo, hi = 0, (1 << bits) - 1
    vals |= {lo, lo + 1, hi - 1, hi}
    vals = {v for v in vals if lo <= v <= hi}
    for _ in range(n):
        k = rng.randrange(1, bits + 1)
        v = rng.getrandbits(k)
        if signed and rng.random() < 0.5:
            v = -v
        if lo <= v <= hi:
            vals.add(v)
    return sorted(vals)


def rand_numtext(rng, bits):
    ws = rng.choice([b"", b"", b" ", b"\t ", b"\n", b"  \r\x0b\x0c"])
    sign = rng.choice([b"", b"", b"-", b"+"])
    k = rng.random()
    if k < 0.6:
        digits = str(rng.getrandbits(rng.randrange(1, bits))).encode()
    elif k < 0.7:
        digits = b"000" + str(rng.getrandbits(rng.randrange(1, bits))).encode()
    elif k < 0.8:
        digits = str((1 << (bits - 1)) + rng.choice([-2, -1, 0, 1, 2])).encode()
    elif k < 0.88:
        digits = str((1 << bits) + rng.choice([-2, -1, 0, 1, 2])).encode()
    elif k < 0.93:
        digits = str(rng.getrandbits(rng.choice([64, 65, 70, 100]))).encode()      # beyond 64 bits: clamped by libc
    else:
        digits = b""
    tail = rng.choice([b"", b"", b"", b"x", b" 1", b".5", b"e3", b"-", b"\xff", b"\x00" + b"7"])
    if rng.random() < 0.06:
        sign = rng.choice([b"+-", b"-+", b"--", b"- ", b"+ ", b"\x00", b"\x80"])     # no number: a sign not followed by a digit
    return ws + sign + digits + tail


LC_FNS = ["atoi", "atol", "atoll", "strtol", "strtoul", "strtoll", "strtoull"]


def libc_lines(ctx):
    """the libc functions String.cpp builds on, called directly: boundaries of every width, random 64-bit values, malformed text"""
    rng, quick = ctx.rng, ctx.tier == "quick"
    texts = [b"", b" ", b"-", b"+", b"0", b"-0", b"+0", b"00", b"x", b"-x", b"+-1", b"-+1", b" \t\n\v\f\r12", b"\x1c1", b"\xa01", b"1 2", b"12abc",
             b"0x10", b"010", b"1e3", b"1.9", b"-1.9", b"9" * 30, b"-" + b"9" * 30, b"0" * 40 + b"7", b"7\x007"]
    for bits in (31, 32, 63, 64):
        for d in (-2, -1, 0, 1, 2):
            for sg in (b"", b"-", b"+"):
                texts.append(sg + str((1 << bits) + d).encode())
    for k in range(1, 22):
        texts += [str(10 ** k + d).encode() for d in (-1, 0)] + [b"-" + str(10 ** k).encode()]
    for w in (32, 64):
        texts += [rand_numtext(rng, w) for _ in range(150 if quick else 4000)]
    texts += [rng.choice([b"", b"-"]) + str(rng.getrandbits(64)).encode() for _ in range(150 if quick else 4000)]
    lines = [f"lcs {fn} {hx(t)}" for t in texts for fn in LC_FNS]
    vals = {0, 1, 9, 10, M64, 1 << 63, (1 << 63) - 1, (1 << 63) + 1, 1 << 31, (1 << 31) - 1, (1 << 32) - 1, 1 << 32, 0xFFFFFFFF80000000}
    vals |= {rng.getrandbits(64) for _ in range(100 if quick else 3000)} | {10 ** k for k in range(1, 20)} | {M64 + 1 - 10 ** k for k in range(1, 19)}
    for v in sorted(vals):
        for conv in ("d", "u", "lld", "llu"):
            lines.append(f"lcf {conv} {v:016x} 64")
            lines.append(f"lcf {conv} {v:016x} {rng.choice([0, 1, 2, 3, 5, 10, 11, 12, 19, 20, 21, 22])}")
    lines += [f"cls {b}" for b in range(256)]
    return lines


def chunked(lines, n):
    return [lines[i:i + n] for i in range(0, len(lines), n)]


def build_streams(ctx):
    rng = ctx.rng
    quick = ctx.tier == "quick"
    # --- batches: one heavy op line per history ---
    B = 4096
    batches = [f"cp {s} {B}" for s in range(0, 0x110000, B)]
    assert sum(int(l.split()[2]) for l in batches) == 0x110000
    batches += [f"cp {0x110000} {B}", f"cp {(1 << 32) - B} {B}", f"cp {0x7FFFF000} {2 * B}"]
    batches += [f"cp {rng.randrange(0x110000, (1 << 32) - B)} {B}" for _ in range(4 if quick else 64)]
    batches += ["decpre - 0", "decpre - 1", "decpre - 2"] + [f"decpre {b:02x} 2" for b in range(256)]
    n4 = 0
    if not quick:
        # one lead byte per class of Unicode::length plus the RFC 3629 special leads (trimmed from 12 in round 7: the thorough tier
        # took 15 min under load; the four dropped bytes 0xBF 0xDF 0xEF 0xF7 are the upper ends of classes that stay covered)
        LEADS4 = (0x80, 0xC2, 0xE0, 0xED, 0xF0, 0xF4, 0xF8, 0xFF)
        for a in LEADS4:
            for b in range(256):
                batches.append(f"decpre {a:02x}{b:02x} 2")
                n4 += 1
    npre = 48 if quick else 1000
    for _ in range(npre):
        pre = rand_utf8ish(rng)[:rng.randrange(2, 7)]
        batches.append(f"decpre {hx(pre)} {rng.choice([1, 2, 2])}")
    batches += ["b64pre - 0", "b64pre - 1", "b64pre - 2", "b64pre - 3"] + [f"b64pre {s:02x} 3" for s in B64SYMS]
    for _ in range(8 if quick else 100):      # sampled longer: 5..8 symbols
        pre = bytes(rng.choice(B64SYMS) for _ in range(rng.choice([4, 5, 5])))
        batches.append(f"b64pre {hx(pre)} 3")
    # --- single calls ---
    singles = [f"len {b}" for b in range(256)]
    singles += [f"cp1 {c}" for c in CP_BOUNDS] + [f"cp1 {rand_cp(rng)}" for _ in range(300 if quick else 5000)]
    singles += ["dec -"] + [f"dec {b:02x}" for b in range(256)] + [f"dec {a:02x}{b:02x}" for a in range(256) for b in range(256)]
    singles += [f"dec {hx(rand_utf8ish(rng))}" for _ in range(6000 if quick else 200000)]
    # every lead byte 0x00..0xFF with every available length 1..7 (C18-5's shape: a lead byte announcing more than 4 bytes with
    # that many bytes available): continuation-byte tails and random tails
    for b in range(256):
        for n in range(1, 8):
            singles.append(f"dec {hx(bytes([b]) + bytes([0x80 + (k * 7 + b) % 64 for k in range(n - 1)]))}")
            singles.append(f"dec {hx(bytes([b]) + bytes(rng.randrange(256) for _ in range(n - 1)))}")
    singles += ["u32s -"] + ["u32s " + ",".join(str(rand_cp(rng)) for _ in range(rng.randrange(1, 12))) for _ in range(500 if quick else 10000)]
    singles += ["hex -"] + [f"hex {b:02x}" for b in range(256)]
    singles += [f"hex {hx(bytes(rng.randrange(256) for _ in range(rng.randrange(2, 40))))}" for _ in range(1500 if quick else 30000)]
    if not quick:
        singles += [f"hex {a:02x}{b:02x}" for a in range(256) for b in range(256)]
    singles += [f"b64 {hx(rand_b64(rng))}" for _ in range(6000 if quick else 150000)]
    singles += [f"b64 {hx(base64.b64encode(bytes([a, b])))}" for a in range(0, 256, 5) for b in range(0, 256, 3)]
    singles += [f"b64 {hx(base64.b64encode(bytes([a])))}" for a in range(256)]
    nint = 0
    for w, (bits, signed) in INT.items():
        vs = int_values(rng, bits, signed, 1500 if quick else 40000)
        nint += len(vs)
        singles += [f"f{w} {v % (1 << bits):0{bits // 4}x}" for v in vs]
        singles += [f"p{w} {hx(rand_numtext(rng, bits))}" for _ in range(600 if quick else 15000)]
        singles += [f"p{w} {hx(str(v).encode())}" for v in vs[:: 7]]
    nlc = libc_lines(ctx)
    singles += nlc
    ctx.cov["rule"] = (
        f"TEST of the model/code tie (not the proof): all 1,114,112 code points in {0x110000 // B} batches of {B} (+ batches above U+10FFFF) "
        "through toString/fromString/isValid/length, compared by count + FNV-1a digest with the model and with Python's utf-8 codec; "
        "decoders on exactly sized heap buffers: every byte string of length 0,1,2 as single calls and every 3-byte string "
        f"(256 batches of 65536){'' if quick else f' + every 4-byte string behind 8 lead bytes ({n4} batches)'} + {npre} sampled prefixes of 2..6 bytes extended by all 1-2 byte suffixes + random (truncated / "
        "bad-continuation / stray-byte) strings; fromBase64 on every string of 0..4 symbols over alphabet+{=,0x80,0xFF,{} "
        "(68^4 = 21,381,376 strings of length 4, in 68 batches) + RFC 4648 encodings of random strings and mutations of them; fromHex of all "
        f"1-byte{'' if quick else ' and 2-byte'} strings + random; {nint} boundary (0, +-1, min, max, 10^k+-1, 2^k+-1) and random integers over the four widths, "
        "numeric texts with white space / sign / leading zeros / junk / out-of-range magnitudes. "
        "distinct_nontrivial = distinct output streams among the histories (one per batch line; single calls in groups of 64)")
    ctx.cov["exhaustive"] = True
    ctx.cov["exhaustive_scope"] = ("code points 0..0x10FFFF (all); byte strings of length <= 3 for fromString/isValid (all 16,843,009); "
                                   "base64 strings of <= 4 symbols over 68 symbols (all 21,700,501); bytes 0..255 for length() and fromHex")
    return batches, singles


INNER = {"calls": 0}
CLASSES = {}


def nontrivial(h, out):
    """distinct observations; also adds up the calls made inside batch lines (the count the harness reports)"""
    if not out:
        return None
    for l, o in zip(h, out):
        t, u = l.split(), o.split()
        if t[0] in ("cp", "decpre", "b64pre") and len(u) == 3 and u[0] == t[0]:
            INNER["calls"] += int(t[2]) if t[0] == "cp" else int(u[1])
        elif t[0] == "dec" and len(u) == 3:
            k = "dec:accepted-by-isValid" if u[2] == "1" else "dec:rejected-by-isValid"
            CLASSES[k] = CLASSES.get(k, 0) + 1
        elif t[0] == "b64" and len(u) == 2:
            k = "b64:rfc4648-encoding" if b64_ref(unhx(t[1])) is not None else "b64:other-decoded" if u[1] != "-" else "b64:other-empty-result"
            CLASSES[k] = CLASSES.get(k, 0) + 1
        elif t[0][0] == "p" and t[0][1:] in INT:
            k = t[0] + (":in-range" if ref_line(l) is not None else ":out-of-range(libc clamps)")
            CLASSES[k] = CLASSES.get(k, 0) + 1
    return hashlib.sha1(("\n".join(o for o in out if o != "bad-op")).encode()).hexdigest()


def expand(line):
    """single-call lines equivalent to a batch line (used to locate the failing input of a batch)"""
    t = line.split()
    if t[0] == "cp":
        return [f"cp1 {c}" for c in range(int(t[1]), int(t[1]) + int(t[2]))]
    if t[0] == "decpre":
        pre, k = unhx(t[1]), int(t[2])
        sufs = [b""] if k == 0 else [bytes([a]) for a in range(256)] if k == 1 else [bytes([a, b]) for a in range(256) for b in range(256)]
        return [f"dec {hx(pre + s)}" for s in sufs]
    if t[0] == "b64pre":
        pre, k = unhx(t[1]), int(t[2])
        words = [b""]
        for _ in range(k):
            words = [w + bytes([s]) for w in words for s in B64SYMS]
        return [f"b64 {hx(pre + w)}" for w in words]
    return [line]


def minimise_args(d, harness, driver, budget=200):
    """argument minimisation after ddmin: drop bytes / list elements of the failing line while the same kind of
    disagreement persists (so that the replay names a small input)"""
    line = d.hist[d.idx]
    t = line.split()
    if t[0] not in ("dec", "b64", "hex", "u32s", "pi32", "pu32", "pi64", "pu64") or len(t) != 2:
        return d
    sep = "," if t[0] == "u32s" else None
    items = t[1].split(",") if sep else [t[1][i:i + 2] for i in range(0, len(t[1]), 2)] if t[1] != "-" else []
    if t[0] == "b64":                         # base64 input keeps its length class: minimise over 4-symbol groups
        items = ["".join(items[i:i + 4]) for i in range(0, len(items), 4)]
    state = {"best": d, "calls": 0}

    def fails(cand):
        state["calls"] += 1
        if state["calls"] > budget:
            return False
        arg = (",".join(cand) if sep else "".join(cand)) or "-"
        ds, _, _, _, _ = C.run_batch(harness, driver, [[f"{t[0]} {arg}"]], reference, C.default_eq, 60)
        if ds and ds[0].kind == d.kind:
            state["best"] = ds[0]
            return True
        return False

    # small contiguous windows first (a decoder failure usually sits in one short sequence), then ddmin
    found = None
    for w in range(1, min(4, len(items) - 1) + 1):
        for i in range(0, len(items) - w + 1):
            if fails(items[i:i + w]):
                found = items[i:i + w]
                break
        if found or state["calls"] > budget:
            break
    C.ddmin(found or items, fails)
    best = state["best"]
    return best


def run_streams(ctx, harness, driver, batches, singles, corpus):
    rng = ctx.rng
    INNER["calls"] = 0
    CLASSES.clear()
    hb = [[l] for l in batches]
    rng.shuffle(hb)                                  # balance the heavy lines over the worker chunks
    hs = corpus + chunked(singles, 64)
    ops = {}
    for h in hb + hs:
        for l in h:
            ops[l.split()[0]] = ops.get(l.split()[0], 0) + 1
    ctx.cov["op_histogram"] = ops
    ctx.cov["samples"] = [hb[0][0], hb[len(hb) // 2][0]] + [" ; ".join(h[:3]) for h in (hs[len(hs) // 3], hs[len(hs) // 2], hs[-1])]
    d1 = C.differential(ctx, harness, driver, hb, reference, C.default_eq, nontrivial=nontrivial,
                        chunk=max(1, len(hb) // (C.NCPU * 4)), timeout=600)
    ctx.log(f"batch stream: {len(hb)} batch lines, {len(d1)} disagreement(s)")
    d2 = C.differential(ctx, harness, driver, hs, reference, C.default_eq, nontrivial=nontrivial, timeout=600)
    ctx.log(f"single-call stream: {len(hs)} histories / {sum(len(h) for h in hs)} lines, {len(d2)} disagreement(s)")
    ctx.cov["op_lines"] = ctx.cov["evaluations"]
    ctx.cov["calls_inside_batches"] = INNER["calls"]
    ctx.cov["input_classes"] = dict(sorted(CLASSES.items()))
    ctx.cov["open_statements"] = []
    ctx.cov["evaluations"] += INNER["calls"]       # every call inside a batch is an evaluated input (measured: reported by the harness)
    # a failing batch is expanded into single calls so that the replay names the exact input
    located = []
    for d in d1[:4]:
        lines = expand(d.hist[d.idx])
        dd = C.differential(ctx, harness, driver, chunked(lines, 256), reference, C.default_eq, timeout=600)
        located += dd if dd else [d]
    for name, ds in (("codec-batches", located), ("codec-calls", d2)):
        small = []
        for d in ds[:3]:
            d = C.shrink_diff(d, harness, driver, reference, C.default_eq)
            small.append(minimise_args(d, harness, driver))
        C.report_diffs(ctx, small, harness, driver, reference, C.default_eq, name)


def b64_lenient_ref(inp):
    """independent statement of Spec.b64Decode: empty unless the length is a multiple of 4 and every byte in front of the
    first '=' is in the alphabet; then the complete bytes of the 6-bit stream in front of that '='"""
    if len(inp) % 4:
        return b""
    head = inp.split(b"=")[0]
    if any(c not in B64ALPHA for c in head):
        return b""
    bits = 0
    for c in head:
        bits = bits << 6 | B64ALPHA.index(c)
    n = 6 * len(head)
    return (bits >> (n % 8)).to_bytes(n // 8, "big") if n >= 8 else b""


ONE_SEQ = re.compile(rb"[\x00-\x7f]|[\xc0-\xdf][\x80-\xbf]|[\xe0-\xef][\x80-\xbf]{2}|[\xf0-\xf7][\x80-\xbf]{3}", re.S)


def rfc_ref(r):
    """RFC 3629 well-formedness = Python's strict utf-8 decoder accepts; one sequence: payload bits, shortest form = re-encoding
    (surrogatepass) gives the same bytes"""
    try:
        r.decode("utf-8")
        strict = 1
    except UnicodeDecodeError:
        strict = 0
    one = 1 if ONE_SEQ.fullmatch(r) else 0
    val = 0
    if 1 <= len(r) <= 4:
        lead_bits = {1: r[0], 2: r[0] - 0xC0, 3: r[0] - 0xE0, 4: r[0] - 0xF0}[len(r)]
        val = max(lead_bits, 0)
        for c in r[1:]:
            val = val * 64 + max(c - 0x80, 0)
    if one:
        short = 1 if val < 0x110000 and enc_ref(val) == r else 0
        return f"spec-rfc {strict} 1 {val} {short}"
    return f"spec-rfc {strict} 0 ? ?"


def spec_test(ctx, driver):
    """the specifications the theorems are stated against (Spec.utf8, Spec.wellFormed, Spec.rfc4648Encode, Spec.b64Decode, Spec.upperHex,
    decDigits/decimalValue) evaluated by the compiled driver and compared with Python: a TEST of the specs"""
    rng = ctx.rng
    lines, want = [], []
    B = 16384
    for s0 in range(0, 0x110000, B):
        lines.append(f"spec-utf8 {s0} {B}")
        h = 0xcbf29ce484222325
        h = fnv(h, b"".join(bytes([len(e)]) + e for e in (enc_ref(c) for c in range(s0, s0 + B))))
        want.append(f"spec-utf8 {h:016x}")
    raws = [b"", b"f", b"fo", b"foo", b"foob", b"fooba", b"foobar"] + [bytes([a]) for a in range(256)]
    raws += [bytes([a, b]) for a in range(0, 256, 7) for b in range(256)]
    raws += [bytes(rng.randrange(256) for _ in range(rng.randrange(3, 60))) for _ in range(3000)]
    for r in raws:
        lines.append(f"spec-b64 {hx(r)}")
        want.append(f"spec-b64 {hx(base64.b64encode(r))}")
        lines.append(f"spec-hex {hx(r)}")
        want.append(f"spec-hex {hx(r.hex().upper().encode())}")
    for r in [rand_b64(rng) for _ in range(6000)] + [bytes(rng.choice(B64SYMS + [0x41] * 20) for _ in range(4 * rng.randrange(0, 5))) for _ in range(4000)]:
        lines.append(f"spec-b64d {hx(r)}")
        want.append(f"spec-b64d {hx(b64_lenient_ref(r))}")
    wfs = [b""] + [bytes([a]) for a in range(256)] + [bytes([a, b]) for a in range(0x70, 256, 3) for b in range(0x70, 0xD0)]
    wfs += [rand_utf8ish(rng) for _ in range(6000)]
    for r in wfs:
        lines.append(f"spec-wf {hx(r)}")
        want.append(f"spec-wf {1 if STRUCT_VALID.fullmatch(r) else 0}")
    for r in wfs + [enc_ref(c) for c in CP_BOUNDS if c < 0x110000] + [bytes([a, b, 0x80]) for a in (0xE0, 0xED, 0xEF) for b in range(0x80, 0xC0)] + \
            [bytes([a, b, 0x80, 0x80]) for a in range(0xF0, 0xF8) for b in range(0x80, 0xC0, 3)]:
        lines.append(f"spec-rfc {hx(r)}")
        want.append(rfc_ref(r))
    for v in int_values(rng, 64, False, 3000) + [1 << 64, 10 ** 30 + 7]:
        lines.append(f"spec-dec {v}")
        want.append(f"spec-dec {v} {v}")
    out, rc, err = C.run_lines(driver, lines, timeout=300)
    bad = [(l, w, o) for l, w, o in zip(lines, want, out + [None] * (len(lines) - len(out))) if o is None or not ref_eq(o, w)]
    ctx.cov["spec_lines_checked_against_python"] = len(lines)
    ctx.cov["evaluations"] += len(lines)
    ctx.log(f"spec test: {len(lines)} lines of Spec.* vs Python, {len(bad)} mismatch(es)")
    if bad:
        l, w, o = bad[0]
        ctx.broken.append(f"specification test: {l}: Lean spec gives {o}, Python gives {w}")
        ctx.violation("a specification in Nstd/Codec/Spec.lean disagrees with Python (codecs/base64/int)",
                      f"{l}\n# lean spec: {o}\n# python   : {w}\n", no_input=True)


FLOAT_RX = re.compile(rb"[ \t\n\v\f\r]*([+-]?(?:[0-9]+\.?[0-9]*(?:[eE][+-]?[0-9]+)?|\.[0-9]+(?:[eE][+-]?[0-9]+)?|[iI][nN][fF]|[nN][aA][nN]))", re.S)


def double_ref(line):
    t = line.split()
    if t[0] == "pd":
        txt = unhx(t[1]).split(b"\0")[0]
        m = FLOAT_RX.match(txt)
        v = float(m.group(1)) if m else 0.0
        b = struct.pack(">d", v).hex()
        if v != v:                                # NaN: the sign bit follows the sign of the text, quiet NaN payload
            b = ("fff8" if m.group(1).startswith(b"-") else "7ff8") + "0" * 12
        return f"pd {b} {b}"
    v = struct.unpack(">d", bytes.fromhex(t[1]))[0]
    if v != v:
        text = "-nan" if int(t[1], 16) >> 63 else "nan"
        return f"fd {text} same {'fff8' if text[0] == '-' else '7ff8'}{'0' * 12} 1"
    text = "%f" % v
    return f"fd {text} same " + struct.pack(">d", float(text)).hex() + f" {1 if len(text) < 203 else 0}"


def double_lines(ctx):
    rng = ctx.rng
    n = 1500 if ctx.tier == "quick" else 30000
    lines = []
    for _ in range(n):
        ws = rng.choice([b"", b"", b" ", b"\t\n "])
        sign = rng.choice([b"", b"", b"-", b"+"])
        k = rng.random()
        ip = str(rng.getrandbits(rng.randrange(1, 70))).encode()
        fp = str(rng.getrandbits(rng.randrange(1, 60))).encode()
        body = ip if k < 0.3 else ip + b"." + fp if k < 0.6 else b"." + fp if k < 0.7 else ip + b"." if k < 0.75 else ip + b"." + fp + rng.choice([b"e", b"E"]) + rng.choice([b"", b"+", b"-"]) + str(rng.randrange(0, 320)).encode() if k < 0.93 else rng.choice([b"inf", b"INF", b"nan", b"NaN", b"infinity"]) if k < 0.95 else b""
        tail = rng.choice([b"", b"", b"", b" 1", b"abc", b"..", b"-", b"e", b"e+", b"\xff", b"\x00" + b"7"])
        lines.append(f"pd {hx(ws + sign + body + tail)}")
    # halfway cases of the decimal -> binary rounding and the subnormal / overflow boundaries
    for txt in (b"9007199254740993", b"9007199254740995", b"18014398509481985", b"1.7976931348623157e308", b"1.7976931348623159e308",
                b"1.8e308", b"4.9e-324", b"2.4703282292062327e-324", b"2.4703282292062328e-324", b"2.2250738585072014e-308",
                b"2.2250738585072011e-308", b"1e-400", b"1e400", b"-0", b"-0.0e5", b"0e999999", b".", b"-.", b"e5", b"1e", b"1e+", b"-inf", b"+nan", b"-nan"):
        lines.append(f"pd {hx(txt)}")
    for _ in range(n):
        k = rng.random()
        if k < 0.3:
            v = rng.uniform(-1e6, 1e6)
        elif k < 0.55:
            v = math.ldexp(rng.random() - 0.5, rng.randrange(-60, 1000))
        elif k < 0.7:
            v = float(rng.randrange(-(1 << 53), 1 << 53))                       # integers: %f is exact (double_roundtrip_exact)
        elif k < 0.8:
            v = rng.randrange(-(1 << 40), 1 << 40) / 64.0                       # multiples of 1/64: exact as well
        elif k < 0.9:
            v = (rng.randrange(1 << 20) * 2 + 1) / float(1 << rng.randrange(7, 12))   # ties of the sixth decimal
        else:
            v = rng.choice([0.0, -0.0, 1.0, -1.0, 0.5, 1e-7, 123456789.125, 1.7976931348623157e308, -1.7976931348623157e308, 5e-324, 0.1, 1e22, 1e23,
                            0.0078125, 0.0000005, 0.0000015, 0.0000025, 1e202, 9.99e201, float("inf"), float("-inf"), float("nan")])
        lines.append("fd " + struct.pack(">d", v).hex())
    lines.append("fd fff8000000000000")
    return lines


def double_test(ctx, harness, lines=None, driver=None):
    """toDouble (member + static) and fromDouble: the real code, the model (`%f` as a Lean definition; `strtod` = the executable
    correctly rounding reference of the driver) and Python's float / '%f' (both correctly rounded) on the same lines"""
    lines = double_lines(ctx) if lines is None else lines
    if not lines:
        return
    out, rc, err = C.run_lines(harness, lines, timeout=300)
    mout = None
    if driver is not None:
        mout, _, merr = C.run_lines(driver, lines, timeout=300)
    ctx.cov["evaluations"] += len(out)
    ctx.cov["double_lines_checked_against_python"] = len(lines)
    bad = None
    second = 0
    for k, l in enumerate(lines):
        o = out[k] if k < len(out) else None
        w = double_ref(l)
        mo = (mout[k] if k < len(mout) else None) if mout is not None else o
        if o is not None and l.startswith("fd") and o.endswith(" 0"):
            second += 1
        if o != w:
            bad = ("impl-vs-reference", l, o, w)
            break
        if mo != o:
            bad = ("impl-vs-model", l, o, mo)
            break
    ctx.cov.setdefault("branch_hits", {})["String::printf second attempt (text >= capacity)"] = second
    ctx.log(f"double stream: {len(lines)} toDouble/fromDouble lines vs model and Python, {'1+' if bad else 0} mismatch(es); printf second branch taken {second}x")
    if bad:
        kind, l, o, w = bad
        ctx.violation(f"{kind} on stream 'codec-double'", f"{l}\n# impl: {o if o is not None else '<no output: crash> ' + err[-800:]}\n# {'ref ' if kind == 'impl-vs-reference' else 'model'}: {w}\n",
                      signature=kind + ":" + l.split()[0], no_input=(kind == "impl-vs-model"))


def check(ctx):
    ctx.assumptions += [
        "libc as specified by ISO C11 / glibc on LP64: vsnprintf with %d %u %lld %llu prints the decimal text (minus sign, no padding) and returns its length; "
        "strtol/strtoul/strtoll/strtoull(s, 0, 10) skip white space, take an optional sign and the longest digit prefix, clamp out-of-range magnitudes; "
        "atoi = (int)strtol (ISO C: undefined outside the int range; glibc: conversion modulo 2^32), atoll = strtoll (Lean definitions in Nstd/Codec/Model.lean; compared with direct calls of the real libc by the lcs/lcf lines of every run)",
        "printf(\"%f\") prints the exact value rounded to six decimals, ties to even (Lean definition fmtF, compared with the real libc on every fd line); strtod is exact on decimal texts whose value is a double (StrtodExact: hypothesis of double_roundtrip_exact)",
        "<cctype> classification in the \"C\" locale (Lean definitions cIs*, compared for all 256 bytes)",
        "char is 8 bits; `ch & M` with M <= 0xff on a (signed) char sees the byte value; uint32 arithmetic wraps modulo 2^32; usize is 64 bits",
        "a byte range handed to Unicode::fromString/isValid is modelled as a list with an explicit length; reads outside [0,len) are faults of the model (.oob) and ASan reports of the harness (exactly sized heap blocks)",
        "String::reserve(n) provides at least n writable bytes (+ terminator), String::resize(j) with j <= capacity keeps the first j bytes (area Str)",
    ]
    proof_ok = C.proof_stage(ctx, PROPS, [DRIVER], gen=gen, leanchecker=(ctx.tier == "thorough"))
    harness = C.build_harness(ctx, "codec", SOURCES)
    if harness is None or not C.driver_path(DRIVER).exists():
        return
    try:
        batches, singles = build_streams(ctx)
        if not proof_ok:
            ctx.log("proof stage broken: searching harder for a failing input")
            singles += [f"b64 {hx(rand_b64(ctx.rng))}" for _ in range(20000)] + [f"dec {hx(rand_utf8ish(ctx.rng))}" for _ in range(20000)]
        run_streams(ctx, harness, C.driver_path(DRIVER), batches, singles, C.load_corpus(ctx.prop))
        spec_test(ctx, C.driver_path(DRIVER))
        double_test(ctx, harness, driver=C.driver_path(DRIVER))
    finally:
        try:
            harness.unlink()
        except OSError:
            pass


def replay(ctx, path):
    h = C.parse_replay(path)
    gen(ctx)
    harness = C.build_harness(ctx, "codec", SOURCES)
    C.lake_build([DRIVER])
    double_test(ctx, harness, [l for l in h if l.split()[0] in ("pd", "fd")], driver=C.driver_path(DRIVER))
    h = [l for l in h if l.split()[0] not in ("pd", "fd")]
    diffs = C.differential(ctx, harness, C.driver_path(DRIVER), [h], reference, C.default_eq) if h else []
    for d in diffs:
        print(d.text())
        ctx.violation(f"replay: {d.kind}", d.text())
    harness.unlink()
