"""C03  List, Array and PoolList hold exactly the reference sequence; List::sort leaves an ascending permutation."""
import hashlib
import itertools
import multiprocessing
import os
import re
from pathlib import Path
import common as C
import gen_seq

PROPERTIES = ["C03"]
MANIFEST = {
    "C03": {
        "technique": "Lean 4 proof (refinement of three model layers to plain sequences by induction over operation lists: chain model of "
                     "List/PoolList + capacity model of Array -> reference lists; pointer-level heap model of List insert/remove/clear/sort "
                     "-> chain model; cell-level model of the Array loops -> capacity model; sortedness and permutation of the modelled "
                     "in-place quicksort for every input) + tie by TRANSLATION (tools/gen_seq.py regenerates the relinking bodies of "
                     "List/PoolList, the loop-carrying member functions of Array and the quicksort of List::sort from the current headers "
                     "on every run; theorems `translated body = model step`) + differential correspondence of all three layers vs the "
                     "real List.hpp/PoolList.hpp/Array.hpp",
        "text": "Theorems over ALL operation histories of the Lean models: contents = reference sequence and every returned iterator/reference/"
                "value = the reference's (refines, refines_returns; inserted element / successor of the removed one: insert_returns_inserted, "
                "remove_returns_successor); List::sort (pivot = first value, three-pointer walk, value swaps, recursion with a proved fuel "
                "bound) = ascending permutation for EVERY input list and every strict partial order (sort_total/sort_perm/sort_sorted/"
                "sort_frame, lsort_int) and with the comparison function (= the element type's operator<; the header has no sort(comparator) "
                "overload) as a parameter: for ANY function termination within the fuel, frame and permutation (sort_any_comparator, "
                "sort_frame_any, sort_checked_reads: the variant with segment-checked reads never faults; heap level ptr_sort_comparator, "
                "ptr_sort_writes_chain_only: no null pointer, no link written, no value written outside the chain), order of the result for strict orders and "
                "for a non-strict total preorder such as <= (sort_comparator, sort_strict_order, sort_nonstrict, sort_nonstrict_int), the "
                "quicksort is not stable (sort_not_stable), and an iterator held across sort() keeps its position, not its element "
                "(ptr_sort_iterators); node ids never handed out twice or lost (nodes_inv); the statement-by-statement heap model of "
                "insert/remove/clear/sort with prev/next/value fields, sentinel, free list and 4-item blocks represents the chain model "
                "after every history (ptr_refines, ptr_insert_returns, ptr_remove_returns, ptr_sort, ptr_iteration); size <= capacity, "
                "growth rule and no reallocation within capacity (array_cap, reserve_policy, append_no_realloc); the cell-by-cell loops of "
                "reserve/append/resize/remove/clear/copy never touch a cell outside the block or a raw cell and compute the list "
                "functions of the model (raw_refines, raw_remove); the aliasing shapes on the statement-level models for every position / index / "
                "size / capacity: l.insert(it, l) at any position incl. every inner one (self_insert_every_position), a.append(a[i]), "
                "a.resize(n, a[i]), a.append(&a[i], n) (alias_append_every_index, alias_resize_every_index, alias_append_every_range).  "
                "TRANSLATED from the current headers on every run (tools/gen_seq.py: tokenizer + parser of the C++ subset, anything else refused = broken tie) and proved "
                "equal to the model step on every state that represents a model state: the relinking of List::insert/remove/swap and "
                "PoolList::linkFreeItem/remove/swap (gen_list_insert, gen_list_remove, gen_pool_link, gen_pool_remove, gen_list_swap, gen_pool_swap); "
                "Array::reserve from the allocation statement on (growth loop, delete[], re-pointing), reserve(size, ref), resize, clear, "
                "append(const T&), append(const T*, n), remove(index), remove(iterator) over a checked pointer memory, with the argument in another "
                "allocation and with the argument pointing into the array itself (gen_reserve, gen_remove_index, gen_remove_iter, gen_clear, "
                "gen_append_value(_alias), gen_append_ptr(_alias), gen_resize(_alias), gen_resize_shrink: both fault or both succeed in representing "
                "states, no foreign allocation touched, fuel size+n suffices); QuickSort::swap / the do-while partition loop / QuickSort::sort of "
                "List::sort for every heap, element type and comparison and every range left != right (gen_sort_swap, gen_sort: what the model's qsortG "
                "returns within fuel f the translated sort returns within fuel f+1, proved for the do-while spelling and for a partition helper with a "
                "for loop and the right recursion as a loop; gen_sort_comparator: the translated sort terminates, follows no null pointer, writes no "
                "link and leaves sortVals lt of the values); "
                "Array::append(const Array&) with another array and with the array itself as argument (gen_append_array, gen_append_array_self); "
                "the copy constructor and operator= of Array (gen_copy_ctor = copyFrom {} o; gen_assign_self; gen_assign_body + copyBody_sim: operator= is "
                "clear() followed by the common copy part, which equals copyFrom - the composition through clear() is not a theorem); for the do-while "
                "spelling of the pinned header (flag set by the translator) the translated sort equals qsortG fault for fault (gen_sort_exact); "
                "List::insert(position, list) with the list itself and List::clear for every heap (gen_list_insert_self, gen_list_clear, "
                "gen_self_insert_every_position; the insert(pos, value) calls inside the loop are the model step Ptr.insert).  The guard and capacity "
                "rounding of Array::reserve are measured, not translated: every row the probe printed on the current headers is generated into "
                "SeqConst.lean and reproduced by the model at the generated mask (policy_matches_probe, growth_matches_probe, probe_tables_complete).  "
                "The models are tied to the current headers on every run: identical "
                "op lines are executed on the real containers (ASan/UBSan at -O1 and a second unsanitized -O2 build, poisoned "
                "allocations, white-box node ids of the chain AND of the free list in order, new[]/delete[] counts, forward/backward link walks, "
                "iterators taken before sort() re-checked after it, sort() also on element types whose operator< is <= or an inconsistent cyclic "
                "function, PoolList::append with 0..7 arguments) and on the compiled models "
                "(chain model printed; heap model and cell model run in lockstep, any divergence marks the line), and an independent "
                "Python reference (plain lists, sorted(), capacity contract) is evaluated on the implementation's output.",
        "note": "Trusted: Lean kernel + the three standard axioms; the translator tools/gen_seq.py and its semantics of the C++ subset (ArrMem.lean: T* = "
                "(allocation id, offset) or null, checked cell accesses, flat-address pointer comparison, usize = Nat, allocation never fails, "
                "right operand of = evaluated first, const T& parameter = pointer; List: Item* = address, null dereference = fault; the block "
                "allocation of List::insert and the guard + capacity rounding of Array::reserve (also where a guard helper such as hasStorage(size) "
                "is called from reserve(size, ref)) are NOT translated but replaced by the model's refill / needGrow / growth rule, which are tied by "
                "the executed probe and policy_matches_probe; reserve(usize) may be written as a guarded block or as guard helper + growth helper); the hand translation of everything that is not translated "
                "(Array copy construction/assignment, find, operator==, Array::swap, removeFront/removeBack wrappers, destructors, "
                "insert(pos, other list) / find / remove(value) / operator== loops of List, PoolList::clear, the iterator classes, the public "
                "List::sort() wrapper [shape-checked]) into "
                "the models (validated by the correspondence run, not proved); the models and all theorems are parametric in the rounding mask of Array::reserve (reserve_policy: every mask "
                "2^j-1) and in the items per block (>= 1) of List and PoolList; the values of the current sources are derived by "
                "executing a probe built from the current headers (accepted: max(n,capacity)|m for one m = 2^j-1, equidistant block "
                "allocations) and only instantiate them (mask_is_pow2_minus_one, block_items_pos).  Modelled rather than verified: "
                "element types int and Tagged (TaggedLe / TaggedOdd / Multi only as value sequences in the driver); the heap-level sort theorems are for "
                "int values with an arbitrary comparison; copy construction and assignment exist only in the chain model (the lockstep heap replays them "
                "as the insert(end, list) the C++ code performs); List::swap is proved on a separate two-sentinel shared heap (ptr_swap) that is "
                "not run in lockstep (the lockstep exchanges the heaps); PoolList shares the heap model of List (its relinking code is a copy); "
                "allocation never fails for the history sizes; distinct containers never alias.  The container itself or a reference into it as "
                "argument (a.append(a), a.append(a[i]), a.append(&a[i], n), a.resize(n, a[i]), a = a, l.append(l), l.prepend(l), l.insert(pos, l), l = l) is part of "
                "the model, of refines and of the generated histories (reference: as if the argument had been copied first; released storage is "
                "overwritten by the harness allocator so that a stale read shows as wrong contents).  Construction/destruction counting belongs "
                "to C04.  Only tested by the correspondence run (no theorem): const/non-const overload agreement, the const iterator forms, "
                "operator!=, PoolList::append arities other than 1, resize(n) default value, ~PoolList.  Not present in the pinned headers "
                "(so nothing to verify): List::sort(comparator), Array::insert, Array::sort, iterator arithmetic.  No theorem is partial.",
        "design_ref": "DESIGN.md 3/C03",
    }
}
PROPS = ["Nstd.Seq.Props", "Nstd.Seq.PropsSort", "Nstd.Seq.PropsAlias", "Nstd.Seq.PropsHeap", "Nstd.Seq.PropsLink", "Nstd.Seq.PropsSortG", "Nstd.Seq.PropsArr", "Nstd.Seq.PropsArr2", "Nstd.Seq.PropsArr3", "Nstd.Seq.PropsArr4", "Nstd.Seq.PropsArr5", "Nstd.Seq.PropsSortT", "Nstd.Seq.PropsListT", "Nstd.Seq.PropsPolicy"]
LEAN_TARGETS = PROPS + ["drv_seq"]
DRIVER = "drv_seq"


# ---- translator: the container constants of the current sources -> lean/Nstd/Generated/SeqConst.lean ----------
GEN_OUT = C.LEAN / "Nstd" / "Generated" / "SeqConst.lean"

POLICY_PROBE = r"""#include <stdio.h>
#include <stdlib.h>
#include <nstd/Array.hpp>
#include <nstd/List.hpp>
#include <nstd/PoolList.hpp>
static unsigned long nNew;
void* operator new[](usize size) { ++nNew; return malloc(size ? size : 1); }
void operator delete[](void* p) { free(p); }
void* operator new(usize size) { return operator new[](size); }
void operator delete(void* p) { free(p); }
int main()
{
  for(unsigned c = 0; c <= 20; ++c)
    for(unsigned n = 0; n <= 64; ++n)
    {
      Array<int> a(c);
      a.reserve(n);
      printf("R %u %u %lu %d\n", c, n, (unsigned long)a.capacity(), (int*)a ? 1 : 0);
    }
  {
    Array<int> a;
    for(int i = 0; i < 80; ++i) { a.append(i); printf("G %d %lu\n", i + 1, (unsigned long)a.capacity()); }
  }
  {
    List<int> l;
    for(int i = 1; i <= 100; ++i) { unsigned long b = nNew; l.append(i); if(nNew != b) printf("L %d\n", i); }
  }
  {
    PoolList<int> l;
    for(int i = 1; i <= 100; ++i) { unsigned long b = nNew; l.append(i); if(nNew != b) printf("P %d\n", i); }
  }
  return 0;
}
"""


def _block_items(marks, what):
    """appends at which a block was allocated -> items per block (first at 1, then every k-th)"""
    if len(marks) < 3 or marks[0] != 1:
        raise ValueError(f"{what}: block allocations at appends {marks[:6]} (expected the first at append 1)")
    k = marks[1] - marks[0]
    if k < 1 or any(marks[i + 1] - marks[i] != k for i in range(len(marks) - 1)):
        raise ValueError(f"{what}: block allocations at appends {marks[:8]} are not equidistant")
    return k


def translate(repo=None):
    """(ok, message).  Derives the container constants by EXECUTION of the current headers (no assumption about how the
    source spells them): a probe built from include/nstd prints capacity() after Array<int>(c).reserve(n) for c = 0..20,
    n = 0..64, the capacities along 80 appends, and the appends at which List<int> / PoolList<int> allocate a block.
    Accepted: a growth rule `new capacity = max(n, capacity) | m` for ONE mask m = 2^j - 1 (allocation iff n > capacity or
    no storage and n > 0), and equidistant block allocations.  Anything else is refused (broken tie).  The Lean file is
    rewritten only when its content changes."""
    repo = Path(repo or C.REPO)
    src = C.BUILD / f"seq_policy_{os.getpid()}.cpp"
    exe = C.BUILD / f"seq_policy_{os.getpid()}"
    C.BUILD.mkdir(parents=True, exist_ok=True)
    src.write_text(POLICY_PROBE)
    try:
        rc, out = C.sh([C.CXX, "-std=gnu++11", "-O0", f"-I{repo}/include", str(src), "-o", str(exe)], timeout=300)
        if rc != 0:
            return False, "policy probe does not compile against the current headers: " + out[-400:]
        rc, out = C.sh([str(exe)], timeout=60)
        if rc != 0:
            return False, f"policy probe exits with {rc}"
    finally:
        try:
            src.unlink()
        except OSError:
            pass
    try:
        exe.unlink()
    except OSError:
        pass
    R, G, Lm, Pm = [], [], [], []
    for line in out.splitlines():
        t = line.split()
        if t[0] == "R": R.append(tuple(int(x) for x in t[1:]))
        elif t[0] == "G": G.append((int(t[1]), int(t[2])))
        elif t[0] == "L": Lm.append(int(t[1]))
        elif t[0] == "P": Pm.append(int(t[1]))
    why = {}
    found = None
    for j in range(0, 7):
        m = (1 << j) - 1
        bad = None
        for c, n, cap, stor in R:
            exp_cap, exp_stor = ((max(n, c) | m), 1) if n > 0 else (c, 0)
            if (cap, stor) != (exp_cap, exp_stor):
                bad = f"Array<int>({c}).reserve({n}): capacity {cap}, storage {stor}; max(n,c)|{m} would be {exp_cap}, {exp_stor}"
                break
        if bad is None:
            cap = 0
            for size, got in G:
                if size > cap:
                    cap = size | m
                if got != cap:
                    bad = f"append no. {size}: capacity {got}; rule |{m} gives {cap}"
                    break
        if bad is None:
            found = (m, j)
            break
        why[m] = bad
    if found is None:
        return False, ("the growth of Array::reserve is not `max(n, capacity) | m` for a mask m = 2^j - 1 (j <= 6): " +
                       "; ".join(f"m={m}: {w}" for m, w in list(why.items())[:3]))
    try:
        lk = _block_items(Lm, "List<int>")
        pk = _block_items(Pm, "PoolList<int>")
    except ValueError as e:
        return False, str(e)
    mask, bits = found
    text = ("/- generated by tools/areas/seq.py (translate): constants derived by executing the current\n"
            "   include/nstd/{Array,List,PoolList}.hpp - do not edit -/\n"
            "namespace Nstd.Generated.Seq\n\n"
            "/-- `Array::reserve`: new capacity = `max n capacity ||| arrayCapMask` -/\n"
            f"def arrayCapMask : Nat := {mask}\n\n"
            "/-- `arrayCapMask + 1 = 2 ^ arrayCapBits` -/\n"
            f"def arrayCapBits : Nat := {bits}\n\n"
            "/-- items per block of `List` (a block is allocated at every `listBlockItems`-th insertion into a growing list) -/\n"
            f"def listBlockItems : Nat := {lk}\n\n"
            "/-- items per block of `PoolList` -/\n"
            f"def poolBlockItems : Nat := {pk}\n\n"
            "/-- what the probe built from the current headers PRINTED: (c, n, capacity() after `Array<int>(c).reserve(n)`, storage\n"
            "    allocated) for c = 0..20, n = 0..64 -/\n"
            "def reserveProbe : List (Nat × Nat × Nat × Bool) := [\n  " +
            ",\n  ".join(", ".join(f"({c}, {n}, {cap}, {'true' if st else 'false'})" for c, n, cap, st in R[i:i + 8]) for i in range(0, len(R), 8)) +
            "]\n\n"
            "/-- … and (i, capacity() after the i-th `append` to an empty `Array<int>`) for i = 1..80 -/\n"
            "def growthProbe : List (Nat × Nat) := [" + ", ".join(f"({i}, {c})" for i, c in G) + "]\n\n"
            "end Nstd.Generated.Seq\n")
    GEN_OUT.parent.mkdir(parents=True, exist_ok=True)
    if not GEN_OUT.exists() or GEN_OUT.read_text() != text:
        GEN_OUT.write_text(text)
    return True, f"mask={mask} (2^{bits}-1) list block={lk} pool block={pk}"


GEN_LINK = C.LEAN / "Nstd" / "Generated" / "SeqLink.lean"


def translate_link(repo=None):
    """(ok, message): the relinking bodies of List::insert/remove/swap and PoolList::linkFreeItem/remove/swap of the CURRENT
    headers -> lean/Nstd/Generated/SeqLink.lean (tools/gen_seq.py); a shape outside the understood subset is refused"""
    try:
        return True, "relinking code translated: " + gen_seq.generate(repo or C.REPO, GEN_LINK)
    except gen_seq.Refuse as e:
        return False, "tools/gen_seq.py refuses the current relinking code (broken tie): " + str(e)
    except OSError as e:
        return False, "tools/gen_seq.py: " + str(e)


GEN_ARR = C.LEAN / "Nstd" / "Generated" / "SeqArr.lean"


def translate_arr(repo=None):
    """(ok, message): the bodies of the Array member functions with loops (reserve growth loop, reserve(size, ref), resize,
    clear, append(value), append(values, n), remove(index), remove(iterator)) of the CURRENT header ->
    lean/Nstd/Generated/SeqArr.lean (tools/gen_seq.py, part 2); a shape outside the understood subset is refused"""
    try:
        return True, "Array loops translated: " + gen_seq.generate_array(repo or C.REPO, GEN_ARR)
    except gen_seq.Refuse as e:
        return False, "tools/gen_seq.py refuses the current Array code (broken tie): " + str(e)
    except OSError as e:
        return False, "tools/gen_seq.py: " + str(e)


GEN_SORT = C.LEAN / "Nstd" / "Generated" / "SeqSort.lean"


def translate_sort(repo=None):
    """(ok, message): QuickSort::swap / QuickSort::sort of List::sort() of the CURRENT header -> lean/Nstd/Generated/SeqSort.lean
    (tools/gen_seq.py, part 3); the public wrapper is shape-checked"""
    try:
        return True, "List::sort translated: " + gen_seq.generate_sort(repo or C.REPO, GEN_SORT)
    except gen_seq.Refuse as e:
        return False, "tools/gen_seq.py refuses the current List::sort (broken tie): " + str(e)
    except OSError as e:
        return False, "tools/gen_seq.py: " + str(e)


GEN_LIST = C.LEAN / "Nstd" / "Generated" / "SeqList.lean"


def translate_list(repo=None):
    """(ok, message): List::insert(position, list) [list = *this] and List::clear of the CURRENT header ->
    lean/Nstd/Generated/SeqList.lean (tools/gen_seq.py, part 4)"""
    try:
        return True, "List loops translated: " + gen_seq.generate_list(repo or C.REPO, GEN_LIST)
    except gen_seq.Refuse as e:
        return False, "tools/gen_seq.py refuses the current List loops (broken tie): " + str(e)
    except OSError as e:
        return False, "tools/gen_seq.py: " + str(e)


def gen(ctx):
    ok, msg = translate()
    for f in (translate_link, translate_arr, translate_sort, translate_list):
        ok2, msg2 = f()
        ok, msg = ok and ok2, msg + "; " + msg2
    if ctx is not None:
        ctx.cov.setdefault("translated", msg)
        ctx.log("translator: " + msg)
    return ok, msg


def setup():
    ok, msg = translate()
    if not ok:
        print("seq translate:", msg)
    for f in (translate_link, translate_arr, translate_sort, translate_list):
        ok, msg = f()
        if not ok:
            print("seq translate:", msg)


# ---- reference (plain Python lists; independent of the Lean model) -------------------------------
def csv(xs):
    return "-" if not xs else ",".join(str(x) for x in xs)


def parse_csv(t):
    return [] if t == "-" else [int(x) for x in t.split(",")]


def isnum(t):
    return t.isdigit()


def isint(t):
    return t.isdigit() or (t[:1] == "-" and t[1:].isdigit())


class Ref:
    """the reference sequences of the six variables and the expected observation of each op"""

    def __init__(self):
        self.l = [[], []]
        self.p = [[], []]
        self.a = [[], []]
        self.cap = [(0, 0), (0, 0)]      # (capacity, has storage) of the arrays as last shown by the implementation
        self.t = {"t": [], "e": [], "x": []}   # List<Tagged> / List<TaggedLe> / List<TaggedOdd>: (key, tag) pairs
        self.u = []                      # PoolList<Tagged>
        self.m = []                      # PoolList<Multi>: tuples of 0..7 constructor arguments

    def show(self, kind, v):
        if kind == "a":
            x = self.a[v]
            return f"a{v} {len(x)} ? ? {csv(x)}"
        x = (self.l if kind == "l" else self.p)[v]
        return f"{kind}{v} {len(x)} {0 if x else 1} {csv(x)} ? ?"

    def all(self):
        return "r=- n=? d=? | " + " | ".join(self.show(k, v) for k in "lpa" for v in (0, 1))

    def apply(self, line, impl=None):
        """returns the expected observation line (`?` = not specified by the reference)"""
        t = line.split()
        op = t[0]
        if op == "reset":
            self.__init__()
            return self.all()
        if op == "dump" and len(t) == 1:
            return self.all()
        if op[0] in "tex":
            return self.tagged(t, impl)
        if op[0] == "m":
            return self.multi(t)
        if op[0] == "u":
            return self.pool_tagged(t)
        if len(t) < 2 or not isnum(t[1]) or int(t[1]) > 1:
            return "bad-op"
        v = int(t[1])
        w = 1 - v
        ret = None
        shows = []
        contract = None
        try:
            if op[0] == "l":
                x, y = self.l[v], self.l[w]
                shows = [("l", v)]
                two = [("l", v), ("l", w)]
                if op == "lappend" and len(t) == 3:
                    x.append(int(t[2])); ret = len(x) - 1
                elif op == "lprepend" and len(t) == 3:
                    x.insert(0, int(t[2])); ret = 0
                elif op == "linsert" and len(t) == 4:
                    pos = int(t[2])
                    if pos > len(x): return "bad-op"
                    x.insert(pos, int(t[3])); ret = pos
                elif op == "linsertl" and len(t) == 3:
                    pos = int(t[2])
                    if pos > len(x): return "bad-op"
                    x[pos:pos] = y; ret = pos; shows = two
                elif op == "lappendl" and len(t) == 2:
                    x.extend(y); shows = two
                elif op == "lprependl" and len(t) == 2:
                    x[0:0] = y; shows = two
                elif op == "lremove" and len(t) == 3:
                    pos = int(t[2])
                    if pos >= len(x): return "bad-op"
                    del x[pos]; ret = pos
                elif op == "lremovev" and len(t) == 3:
                    if int(t[2]) in x: x.remove(int(t[2]))
                elif op == "lremoveFront" and len(t) == 2:
                    if not x: return "bad-op"
                    del x[0]; ret = 0
                elif op == "lremoveBack" and len(t) == 2:
                    if not x: return "bad-op"
                    x.pop(); ret = len(x)
                elif op == "lclear" and len(t) == 2:
                    del x[:]
                elif op == "lswap" and len(t) == 2:
                    self.l[v], self.l[w] = y, x; shows = two
                elif op in ("lcopy", "lassign") and len(t) == 2:
                    self.l[v] = list(y); shows = two
                elif op == "lfind" and len(t) == 3:
                    ret = x.index(int(t[2])) if int(t[2]) in x else len(x)
                elif op == "leq" and len(t) == 3:
                    if not isnum(t[2]) or int(t[2]) > 1: return "bad-op"
                    ret = 1 if x == self.l[int(t[2])] else 0; shows = []
                elif op == "lfront" and len(t) == 2:
                    if not x: return "bad-op"
                    ret = x[0]
                elif op == "lback" and len(t) == 2:
                    if not x: return "bad-op"
                    ret = x[-1]
                elif op == "lsort" and len(t) == 2:
                    x.sort()
                # the list itself as argument: as if it had been copied first
                elif op == "lappendself" and len(t) == 2:
                    x.extend(list(x))
                elif op == "lprependself" and len(t) == 2:
                    x[0:0] = list(x)
                elif op == "linsertself" and len(t) == 3:
                    pos = int(t[2])
                    if pos > len(x): return "bad-op"
                    x[pos:pos] = list(x); ret = pos
                elif op == "lassignself" and len(t) == 2:
                    pass
                else:
                    return "bad-op"
            elif op[0] == "p":
                x, y = self.p[v], self.p[w]
                shows = [("p", v)]
                if op == "pappend" and len(t) == 3:
                    x.append(int(t[2])); ret = len(x) - 1
                elif op in ("premove", "premovev") and len(t) == 3:
                    pos = int(t[2])
                    if pos >= len(x): return "bad-op"
                    del x[pos]; ret = pos if op == "premove" else None
                elif op == "premoveFront" and len(t) == 2:
                    if not x: return "bad-op"
                    del x[0]; ret = 0
                elif op == "premoveBack" and len(t) == 2:
                    if not x: return "bad-op"
                    x.pop(); ret = len(x)
                elif op == "pclear" and len(t) == 2:
                    del x[:]
                elif op == "pswap" and len(t) == 2:
                    self.p[v], self.p[w] = y, x; shows = [("p", v), ("p", w)]
                elif op == "pfront" and len(t) == 2:
                    if not x: return "bad-op"
                    ret = x[0]
                elif op == "pback" and len(t) == 2:
                    if not x: return "bad-op"
                    ret = x[-1]
                else:
                    return "bad-op"
            elif op[0] == "a":
                x, y = self.a[v], self.a[w]
                shows = [("a", v)]
                two = [("a", v), ("a", w)]
                need = None          # storage the op needs (elements) when it may grow the array in place
                if op == "anew" and len(t) == 2:
                    del x[:]
                elif op == "anewcap" and len(t) == 3:
                    del x[:]; contract = ("capge", int(t[2]))
                elif op in ("acopy", "aassign") and len(t) == 2:
                    self.a[v] = list(y); shows = two
                elif op == "areserve" and len(t) == 3:
                    need = int(t[2]); contract = ("capge", need)
                elif op == "aresize" and len(t) == 4:
                    n = int(t[2])
                    if n < len(x): del x[n:]
                    else: x.extend([int(t[3])] * (n - len(x))); need = n
                elif op == "aresized" and len(t) == 3:
                    n = int(t[2])
                    if n < len(x): del x[n:]
                    else: x.extend([0] * (n - len(x))); need = n
                elif op == "aappend" and len(t) == 3:
                    x.append(int(t[2])); ret = len(x) - 1; need = len(x)
                elif op == "aappenda" and len(t) == 2:
                    x.extend(y); shows = two; need = len(x)
                elif op == "aappendn" and len(t) == 3:
                    x.extend(parse_csv(t[2])); need = len(x)
                elif op == "aremovei" and len(t) == 3:
                    if int(t[2]) < len(x): del x[int(t[2])]
                elif op == "aremove" and len(t) == 3:
                    pos = int(t[2])
                    if pos >= len(x): return "bad-op"
                    del x[pos]; ret = pos
                elif op == "aremoveFront" and len(t) == 2:
                    if not x: return "bad-op"
                    del x[0]; ret = 0
                elif op == "aremoveBack" and len(t) == 2:
                    if not x: return "bad-op"
                    x.pop(); ret = len(x)
                elif op == "aclear" and len(t) == 2:
                    del x[:]
                elif op == "aswap" and len(t) == 2:
                    self.a[v], self.a[w] = y, x; shows = two; contract = ("swap",)
                elif op == "afind" and len(t) == 3:
                    ret = x.index(int(t[2])) if int(t[2]) in x else len(x)
                elif op == "aget" and len(t) == 3:
                    if int(t[2]) >= len(x): return "bad-op"
                    ret = x[int(t[2])]
                elif op == "aappendself" and len(t) == 2:
                    x.extend(list(x)); need = len(x)
                elif op == "aappendref" and len(t) == 3:
                    if int(t[2]) >= len(x): return "bad-op"
                    x.append(x[int(t[2])]); ret = len(x) - 1; need = len(x)
                elif op == "aresizeref" and len(t) == 4:
                    n, i = int(t[2]), int(t[3])
                    if i >= len(x): return "bad-op"
                    val = x[i]
                    if n < len(x): del x[n:]
                    else: x.extend([val] * (n - len(x))); need = n
                elif op == "aappendsub" and len(t) == 4:
                    i, n = int(t[2]), int(t[3])
                    if i + n > len(x): return "bad-op"
                    x.extend(list(x[i:i + n])); need = len(x)
                elif op == "aassignself" and len(t) == 2:
                    pass
                elif op == "aeq" and len(t) == 3:
                    if not isnum(t[2]) or int(t[2]) > 1: return "bad-op"
                    ret = 1 if x == self.a[int(t[2])] else 0; shows = []
                elif op == "afront" and len(t) == 2:
                    if not x: return "bad-op"
                    ret = x[0]
                elif op == "aback" and len(t) == 2:
                    if not x: return "bad-op"
                    ret = x[-1]
                else:
                    return "bad-op"
                bad = self.array_contract(op, v, w, need, contract, impl)
                if bad:
                    return "CONTRACT " + bad
            else:
                return "bad-op"
        except ValueError:
            return "bad-op"
        head = f"r={'-' if ret is None else ret} n=? d=?"
        return " | ".join([head] + [self.show(k, u) for k, u in shows])

    def tagged(self, t, impl):
        """List<Tagged> (operator< on the key only), List<TaggedLe> (operator< is `<=` on the key: NON-strict) and
        List<TaggedOdd> (an inconsistent operator<).  After sort the (key, tag) pairs are a permutation for all three; the
        keys ascend for the first two.  Which of the equal keys ends up where (and the whole arrangement for the
        inconsistent comparison) is not specified - the reference adopts the implementation's arrangement (the MODEL's
        arrangement is compared exactly by the impl-vs-model comparison)."""
        c = t[0][0]
        op = t[0][1:]
        cur = self.t[c]
        fmt = lambda xs: f"{c} {len(xs)} " + ("-" if not xs else ",".join(f"{k}:{g}" for k, g in xs))
        if op in ("append", "prepend") and len(t) == 3 and isint(t[1]) and isint(t[2]):
            e = (int(t[1]), int(t[2]))
            cur = cur + [e] if op == "append" else [e] + cur
        elif op == "clear" and len(t) == 1:
            cur = []
        elif op == "sort" and len(t) == 1:
            got = None
            if impl is not None and impl.startswith(c + " "):
                tk = impl.split(" ")
                try:
                    got = [] if tk[2] == "-" else [tuple(int(x) for x in p.split(":")) for p in tk[2].split(",")]
                except (ValueError, IndexError):
                    got = None
            if got is None:
                cur = sorted(cur, key=lambda e: e[0])
            else:
                if sorted(got) != sorted(cur):
                    return "CONTRACT sort is not a permutation: " + fmt(sorted(cur, key=lambda e: e[0]))
                if c != "x" and any(got[i][0] > got[i + 1][0] for i in range(len(got) - 1)):
                    return "CONTRACT sort is not ascending: " + fmt(sorted(cur, key=lambda e: e[0]))
                cur = got
        else:
            return "bad-op"
        self.t[c] = cur
        return fmt(cur)

    def multi(self, t):
        """PoolList<Multi>: append with 0..7 constructor arguments"""
        op = t[0]
        if op == "mappend" and len(t) == 2:
            try:
                vs = parse_csv(t[1])
            except ValueError:
                return "bad-op"
            if len(vs) > 7: return "bad-op"
            self.m.append(tuple(vs))
        elif op == "mremove" and len(t) == 2 and isnum(t[1]):
            if int(t[1]) >= len(self.m): return "bad-op"
            del self.m[int(t[1])]
        elif op == "mclear" and len(t) == 1:
            self.m = []
        else:
            return "bad-op"
        return f"m {len(self.m)} " + ("-" if not self.m else ",".join(":".join(str(x) for x in (len(e),) + e) for e in self.m))

    def pool_tagged(self, t):
        op = t[0]
        if op == "uappend" and len(t) == 3 and isint(t[1]) and isint(t[2]):
            self.u.append((int(t[1]), int(t[2])))
        elif op == "uremove" and len(t) == 2 and isnum(t[1]):
            if int(t[1]) >= len(self.u): return "bad-op"
            del self.u[int(t[1])]
        elif op == "uremoveBack" and len(t) == 1:
            if not self.u: return "bad-op"
            self.u.pop()
        elif op == "uclear" and len(t) == 1:
            self.u = []
        else:
            return "bad-op"
        return f"u {len(self.u)} " + ("-" if not self.u else ",".join(f"{k}:{g}" for k, g in self.u))

    def array_contract(self, op, v, w, need, contract, impl):
        """capacity contract of Array evaluated on the implementation's line: size <= capacity, storage exists when
        there are elements, capacity() >= what was reserved, no reallocation while the capacity suffices, capacity never
        shrinks in place, swap exchanges the capacities."""
        if impl is None or " | a" not in impl:
            return None
        parts = impl.split(" | ")
        head = parts[0].split(" ")
        try:
            nalloc = int(head[1][2:])
            seen = {}
            for p in parts[1:]:
                tk = p.split(" ")
                if tk[0] in ("a0", "a1"):
                    seen[int(tk[0][1])] = (int(tk[1]), int(tk[2]), int(tk[3]))
        except (ValueError, IndexError):
            return None          # malformed line: the ordinary comparison reports it
        prev = list(self.cap)
        msg = None
        for u, (size, cap, stor) in seen.items():
            if size > cap:
                msg = f"a{u}: size {size} > capacity {cap}"
            if size > 0 and not stor:
                msg = f"a{u}: {size} elements without storage"
        if v in seen and msg is None:
            size, cap, stor = seen[v]
            if contract and contract[0] == "capge" and cap < contract[1]:
                msg = f"a{v}: capacity {cap} < requested {contract[1]}"
            if contract and contract[0] == "swap":
                if w in seen and ((seen[v][1], seen[v][2]) != prev[w] or (seen[w][1], seen[w][2]) != prev[v]):
                    msg = "swap does not exchange capacity/storage"
            elif op not in ("anew", "anewcap", "acopy", "aassign"):
                if cap < prev[v][0]:
                    msg = f"a{v}: capacity shrank {prev[v][0]} -> {cap}"
                if need is not None and prev[v][1] and need <= prev[v][0] and nalloc != 0:
                    msg = f"a{v}: reallocation although {need} <= capacity {prev[v][0]}"
                if need is None and nalloc != 0:
                    msg = f"a{v}: allocation in a non-growing operation"
        for u, (size, cap, stor) in seen.items():
            self.cap[u] = (cap, stor)
        return msg


def reference(hist, impl_out):
    r = Ref()
    out = []
    for k, line in enumerate(hist):
        out.append(r.apply(line, impl_out[k] if k < len(impl_out) else None))
    return out


def ref_eq(impl, ref):
    if impl == ref:
        return True
    ti, tr = impl.split(" "), ref.split(" ")
    if len(ti) != len(tr):
        return False
    return all(a == b or b == "?" or (b.endswith("=?") and a.startswith(b[:-1])) for a, b in zip(ti, tr))


reference.eq = ref_eq
reference.uses_impl = True


# ---- generators -----------------------------------------------------------------------------------
L_OPS = ["lappend 0 0", "lappend 0 1", "lappend 0 2", "lprepend 0 1", "linsert 0 1 0", "linsert 0 1 2", "linsert 0 2 1",
         "lremove 0 0", "lremove 0 1", "lremovev 0 1", "lremoveFront 0", "lremoveBack 0", "lclear 0", "lswap 0",
         "lappend 1 2", "lappendl 0", "lprependl 0", "linsertl 0 1", "lcopy 1", "lassign 0", "lsort 0", "lfind 0 1", "leq 0 1",
         "lappendself 0", "lprependself 0", "linsertself 0 1", "lassignself 0"]
P_OPS = ["pappend 0 0", "pappend 0 1", "pappend 0 2", "pappend 1 1", "premove 0 0", "premove 0 1", "premovev 0 0",
         "premovev 0 2", "premoveFront 0", "premoveBack 0", "pclear 0", "pswap 0", "pfront 0", "pback 0"]
A_OPS = ["aresized 0 3", "aappend 0 0", "aappend 0 1", "aappend 0 2", "aappendn 0 1,2", "aappendn 0 2,1,0,1", "aappendn 0 -", "aappenda 0",
         "aresize 0 0 1", "aresize 0 2 1", "aresize 0 5 1", "areserve 0 0", "areserve 0 1", "areserve 0 4", "areserve 0 5",
         "aremovei 0 0", "aremovei 0 1", "aremovei 0 7", "aremove 0 0", "aremoveBack 0", "aremoveFront 0", "aclear 0", "aswap 0",
         "acopy 1", "acopy 0", "aassign 0", "aassign 1", "anewcap 0 2", "anewcap 1 0", "anew 0", "afind 0 1", "aget 0 0",
         "aappend 1 2", "aeq 0 1",
         "aappendself 0", "aappendref 0 0", "aappendref 0 1", "aresizeref 0 5 0", "aresizeref 0 1 0", "aassignself 0",
         "aappendsub 0 0 2", "aappendsub 0 1 1"]


def exhaustive(alpha, depth):
    return [list(p) for d in range(1, depth + 1) for p in itertools.product(alpha, repeat=d)]


def sampled(alpha, d, rng, n):
    """n distinct op sequences of length exactly d"""
    if len(alpha) ** d <= n:
        return [list(p) for p in itertools.product(alpha, repeat=d)]
    seen = set()
    while len(seen) < n:
        seen.add(tuple(rng.choice(alpha) for _ in range(d)))
    return [list(p) for p in sorted(seen)]


def sort_histories(maxperm, maxtern):
    """every permutation of 0..n-1 for n <= maxperm and every {0,1,2}-valued list of length <= maxtern"""
    hs = []
    for n in range(0, maxperm + 1):
        for p in itertools.permutations(range(n)):
            hs.append([f"lappend 0 {x}" for x in p] + ["lsort 0"])
    for n in range(1, maxtern + 1):
        for p in itertools.product((0, 1, 2), repeat=n):
            hs.append([f"lappend 0 {x}" for x in p] + ["lsort 0"])
    return hs


def tagged_histories(rng, maxlen, nrandom):
    """every key sequence over {0,1,2} up to maxlen with distinct tags, sorted once and again after one more element;
    longer random lists with few distinct keys and adversarial shapes"""
    hs = []
    for n in range(0, maxlen + 1):
        for ks in itertools.product((0, 1, 2), repeat=n):
            hs.append([f"tappend {k} {i}" for i, k in enumerate(ks)] + ["tsort", "tprepend 1 99", "tsort"])
    for _ in range(nrandom):
        n = rng.choice([5, 9, 17, 33, 64, 100])
        d = rng.choice([1, 2, 3, 5, 1000])
        shape = rng.randrange(4)
        ks = [rng.randrange(d) for _ in range(n)]
        if shape == 1: ks.sort()
        if shape == 2: ks.sort(reverse=True)
        hs.append(["tclear"] + [f"tappend {k} {i}" for i, k in enumerate(ks)] + ["tsort", "tsort", f"tappend {rng.randrange(d)} {n}", "tsort"])
    # the same with a non-strict (`e`: <=) and an inconsistent (`x`) operator<: termination, no access outside the list,
    # permutation, and the model's exact arrangement
    for c in "ex":
        for n in range(0, max(0, maxlen - 1) + 1):
            for ks in itertools.product((0, 1, 2), repeat=n):
                hs.append([f"{c}append {k} {i}" for i, k in enumerate(ks)] + [f"{c}sort", f"{c}prepend 1 99", f"{c}sort"])
        for _ in range(nrandom):
            n = rng.choice([5, 9, 17, 33, 64, 100])
            d = rng.choice([1, 2, 3, 5, 1000])
            shape = rng.randrange(4)
            ks = [rng.randrange(d) for _ in range(n)]
            if shape == 1: ks.sort()
            if shape == 2: ks.sort(reverse=True)
            hs.append([f"{c}clear"] + [f"{c}append {k} {i}" for i, k in enumerate(ks)] + [f"{c}sort", f"{c}sort", f"{c}append {rng.randrange(d)} {n}", f"{c}sort"])
    # PoolList<Multi>: append() with 0..7 constructor arguments in every order of arities (pairs) and random mixes
    for a in range(8):
        for b in range(8):
            hs.append([f"mappend {csv(list(range(10, 10 + a)))}", f"mappend {csv(list(range(20, 20 + b)))}", "mremove 0",
                       f"mappend {csv(list(range(30, 30 + a)))}"])
    for _ in range(max(20, nrandom // 5)):
        n, h = 0, []
        for _ in range(rng.choice([6, 12, 30])):
            k = rng.random()
            if k < 0.6 or n == 0:
                h.append(f"mappend {csv([rng.randint(-5, 99) for _ in range(rng.randrange(8))])}"); n += 1
            elif k < 0.95:
                h.append(f"mremove {rng.randrange(n)}"); n -= 1
            else:
                h.append("mclear"); n = 0
        hs.append(h)
    # PoolList<Tagged>: in-place construction through append(A, B), removal at every position, reuse after clear
    for _ in range(nrandom):
        n, h, cnt = 0, [], 0
        for _ in range(rng.choice([6, 12, 30, 60])):
            k = rng.random()
            if k < 0.55 or n == 0:
                h.append(f"uappend {rng.randrange(3)} {cnt}"); cnt += 1; n += 1
            elif k < 0.85:
                p = rng.randrange(n + 1)
                h.append(f"uremove {p}"); n -= 1 if p < n else 0
            elif k < 0.95:
                h.append("uremoveBack"); n -= 1
            else:
                h.append("uclear"); n = 0
        hs.append(h)
    return hs


def alias_histories():
    """the array itself / a reference into it as argument, at every size/capacity relation: initial capacities 0..16,
    1..16 distinct elements, then append(a), append(a[i]), resize(n, a[i]); the same for lists (every insert position)"""
    hs = []
    for c in range(0, 17):
        for m in range(1, 17):
            fill = [f"anewcap 0 {c}", f"aappendn 0 {csv([100 + j for j in range(m)])}"]
            tails = [["aappendself 0"], ["aappendself 0", "aappendself 0"], ["aassignself 0", "aappendself 0"]]
            for i in range(m):                       # EVERY index at every size/capacity combination
                tails.append([f"aappendref 0 {i}"])
                tails.append([f"aappendref 0 {i}", f"aappendref 0 {i}"])
            # a.append(&a[i], n): sub-ranges at the front, the back, the whole array and the empty range at every offset
            for i, n in sorted({(0, m), (0, 1), (m - 1, 1), (m // 2, m - m // 2), (0, m // 2), (m, 0), (0, 0), (m // 2, 0),
                                (max(0, m - 3), min(3, m)), (1, m - 1)}):
                tails.append([f"aappendsub 0 {i} {n}"])
            for i in sorted({0, m // 2, m - 1}):
                for n in sorted({m, m + 1, (max(c, m) | 3), (max(c, m) | 3) + 1, m + 9}):
                    tails.append([f"aresizeref 0 {n} {i}"])
            for t in tails:
                hs.append(fill + t + ["aappend 0 7", "dump"])
    for m in range(1, 24):
        # the array filled exactly to its capacity in different ways (single appends, resize, reserve + append(values, n)),
        # then a.append(a[i]) for every i: the reallocating append with an aliasing argument
        for fill in ([f"aappend 0 {100 + j}" for j in range(m)],
                     [f"aresize 0 {m} 5", f"aappendn 0 {csv([100 + j for j in range((m | 3) - m)])}"],
                     [f"areserve 0 {m}", f"aappendn 0 {csv([100 + j for j in range(m | 3)])}"]):
            n = m if fill[0].startswith("aappend ") else (m | 3)
            for i in range(n):
                hs.append(fill + [f"aappendref 0 {i}", "dump"])
    for m in range(0, 10):
        fill = [f"lappend 0 {100 + j}" for j in range(m)]
        for t in [["lappendself 0"], ["lprependself 0"], ["lassignself 0"]] + [[f"linsertself 0 {p}"] for p in range(m + 1)]:
            hs.append(fill + t + ["lappend 0 7", "lremoveFront 0", "lsort 0", "dump"] if t != ["lassignself 0"] or m else fill + t + ["dump"])
            hs.append(fill + t + t + ["dump"])
    return hs


def growth_histories(rng, frac):
    """Array growth across the capacity boundaries: initial capacities 0..40, first growth op to every size 0..44,
    second growth op around the boundaries, one more append"""
    hs = []

    def grow(kind, m, cur):
        if kind == 0: return [f"areserve 0 {m}"]
        if kind == 1: return [f"aresize 0 {m} 5"]
        if kind == 2: return [f"aappendn 0 {csv(list(range(max(0, m - cur))))}"]
        return [f"aappend 0 {i}" for i in range(max(0, m - cur))]

    for c in range(0, 41):
        for k1 in range(4):
            for m1 in range(0, 45):
                for k2 in range(3):
                    for m2 in (0, 1, 3, 4, m1, m1 + 1, (max(c, m1) | 3), (max(c, m1) | 3) + 1):
                        if frac < 1.0 and rng.random() > frac:
                            continue
                        cur1 = 0 if k1 == 0 else m1
                        h = [f"anewcap 0 {c}"] + grow(k1, m1, 0) + grow(k2, m2, cur1 if k2 != 0 else 0) + ["aappend 0 7", "acopy 1", "aappenda 1"]
                        hs.append(h)
    return hs


def gen_random(rng, length, kinds, pool_front):
    """structured generator: keeps the reference state so that most positions are valid (some are not: bad-op)"""
    r = Ref()
    h = []
    dom = rng.choice([(0, 2), (0, 2), (-3, 6), (-50, 50), (-2147483648, 2147483647)])

    def val():
        if dom[0] < -100:
            return rng.choice([dom[0], dom[1], 0, -1, 1, rng.randint(*dom)])
        return rng.randint(*dom)

    def pos(n, allow_end):
        k = rng.random()
        hi = n if allow_end else n - 1
        if k < 0.04: return n + 1 + rng.randrange(3)           # invalid
        if hi < 0: return 0
        if k < 0.25: return 0
        if k < 0.45: return hi
        return rng.randint(0, hi)

    for _ in range(length):
        kind = rng.choice(kinds)
        v = 0 if rng.random() < 0.7 else 1
        k = rng.random()
        if kind == "l":
            n = len(r.l[v])
            big = n > 40
            if k < 0.20: op = f"lappend {v} {val()}"
            elif k < 0.30: op = f"lprepend {v} {val()}"
            elif k < 0.42: op = f"linsert {v} {pos(n, True)} {val()}"
            elif k < 0.50 + (0.2 if big else 0): op = f"lremove {v} {pos(n, False)}"
            elif k < 0.56 + (0.2 if big else 0): op = f"lremovev {v} {rng.choice(r.l[v]) if r.l[v] and rng.random() < 0.7 else val()}"
            elif k < 0.60 + (0.2 if big else 0): op = f"lremoveFront {v}"
            elif k < 0.64 + (0.2 if big else 0): op = f"lremoveBack {v}"
            elif k < 0.86: op = rng.choice([f"linsertl {v} {pos(n, True)}", f"lappendl {v}", f"lprependl {v}", f"lswap {v}",
                                            f"lcopy {v}", f"lassign {v}", f"lfind {v} {val()}", f"leq {v} {rng.randrange(2)}",
                                            f"lfront {v}", f"lback {v}", f"lfind {v} {rng.choice(r.l[v]) if r.l[v] else 0}"])
            elif k < 0.94: op = f"lsort {v}"
            elif k < 0.97: op = (rng.choice([f"lappendself {v}", f"lprependself {v}", f"linsertself {v} {pos(n, True)}"]) if n <= 24
                                 else f"lassignself {v}")
            else: op = f"lclear {v}"
        elif kind == "p":
            n = len(r.p[v])
            big = n > 40
            if k < 0.45 - (0.2 if big else 0): op = f"pappend {v} {val()}"
            elif k < 0.60: op = f"premove {v} {pos(n, False)}"
            elif k < 0.72: op = f"premovev {v} {pos(n, False)}"
            elif k < 0.80: op = f"premoveFront {v}"
            elif k < 0.88: op = f"premoveBack {v}"
            elif k < 0.92: op = f"pswap {v}"
            elif k < 0.98: op = rng.choice([f"pfront {v}", f"pback {v}"]) if pool_front else f"pswap {v}"
            else: op = f"pclear {v}"
        else:
            n = len(r.a[v])
            big = n > 60
            if k < 0.25 - (0.1 if big else 0): op = f"aappend {v} {val()}"
            elif k < 0.32 - (0.1 if big else 0): op = f"aappendn {v} {csv([val() for _ in range(rng.choice([0, 1, 2, 3, 5, 9]))])}"
            elif k < 0.36 - (0.1 if big else 0): op = f"aappenda {v}"
            elif k < 0.43: op = f"aresize {v} {rng.choice([0, 1, n, n + 1, n + 3, max(0, n - 1), max(0, n - 2), rng.randrange(0, 45)])} {val()}"
            elif k < 0.44: op = f"aresized {v} {rng.choice([0, n, n + 1, n + 3, max(0, n - 1), rng.randrange(0, 45)])}"
            elif k < 0.50: op = f"areserve {v} {rng.choice([0, n, n + 1, r.cap[v][0], r.cap[v][0] + 1, rng.randrange(0, 45)])}"
            elif k < 0.58: op = f"aremovei {v} {pos(n, False)}"
            elif k < 0.66: op = f"aremove {v} {pos(n, False)}"
            elif k < 0.71: op = f"aremoveFront {v}"
            elif k < 0.76: op = f"aremoveBack {v}"
            elif k < 0.97: op = rng.choice([f"aswap {v}", f"acopy {v}", f"aassign {v}", f"anew {v}", f"anewcap {v} {rng.randrange(0, 41)}",
                                            f"afind {v} {val()}", f"afind {v} {rng.choice(r.a[v]) if r.a[v] else 0}",
                                            f"aget {v} {pos(n, False)}", f"afront {v}", f"aback {v}", f"aeq {v} {rng.randrange(2)}"])
            elif k < 0.985: op = rng.choice([f"aappendref {v} {pos(n, False)}", f"aresizeref {v} {rng.choice([0, n, n + 1, n + 5, r.cap[v][0] + 1])} {pos(n, False)}",
                                             f"aassignself {v}", f"aappendself {v}" if n <= 30 else f"aappendref {v} {pos(n, False)}",
                                             f"aappendsub {v} {pos(n, True)} {rng.choice([0, 1, 2, n]) if n <= 30 else 1}"])
            else: op = f"aclear {v}"
        h.append(op)
        r.apply(op)
        # the generator does not see the implementation's capacities; approximate the growth rule for its boundary choices
        if kind == "a":
            for u in (0, 1):
                c = r.cap[u][0]
                if len(r.a[u]) > c:
                    r.cap[u] = (len(r.a[u]) | 3, 1)
    h.append("dump")
    return h


def nontrivial(h, out):
    """distinct = distinct (set of op kinds, final observation); non-trivial = >= 3 ops and a non-empty container shown last"""
    if len(h) < 3 or not out:
        return None
    last = out[-1]
    if last[:2] in ("t ", "u ", "e ", "x ", "m ") and not last[1:].startswith(" 0 "):
        return (frozenset(l.split()[0] for l in h), last)
    if last == "bad-op" or " | " not in last:
        return None
    shown = last.split(" | ")[1:]
    if all(s.split(" ")[1] == "0" for s in shown):
        return None
    return (frozenset(l.split()[0] for l in h), last)


def histories_for(ctx, pool_front):
    rng = ctx.rng
    quick = ctx.tier == "quick"
    p_ops = [o for o in P_OPS if pool_front or not o.startswith(("pfront", "pback"))]
    hs = C.load_corpus(ctx.prop)
    if not pool_front:
        hs = [[l for l in h if not l.startswith(("pfront", "pback"))] for h in hs]
    ncorpus = len(hs)
    dl, dp, da = (3, 4, 3) if quick else (4, 5, 4)
    nl, np_, na = (250000, 30000, 100000) if quick else (6000000, 1000000, 2000000)
    exl = exhaustive(L_OPS, dl) + (sampled(L_OPS, dl + 1, rng, nl) if nl else [])
    exp = exhaustive(p_ops, dp) + sampled(p_ops, dp + 1, rng, np_)
    exa = exhaustive(A_OPS, da) + sampled(A_OPS, da + 1, rng, na)
    srt = sort_histories(7 if quick else 8, 8 if quick else 9)
    tag = tagged_histories(rng, 7 if quick else 10, 300 if quick else 5000)
    ali = alias_histories()
    grw = growth_histories(rng, 0.05 if quick else 1.0) + ali
    rnd = []
    for _ in range(2000 if quick else 40000):
        kinds = rng.choice(["l", "l", "p", "a", "a", "lpa"])
        rnd.append(gen_random(rng, rng.choice([10, 20, 40, 80, 150, 300]), kinds, pool_front))
    # long sorts with adversarial shapes (sorted, reversed, equal, organ pipe, few distinct values)
    shapes = []
    for n in ([2, 3, 10, 33, 64] if quick else [2, 3, 4, 5, 10, 17, 33, 64, 100]):
        for vals in (list(range(n)), list(range(n, 0, -1)), [7] * n, [min(i, n - i) for i in range(n)],
                     [rng.randrange(3) for _ in range(n)], [rng.randint(-1000, 1000) for _ in range(n)],
                     [(-1) ** i * i for i in range(n)]):
            shapes.append([f"lappend 0 {x}" for x in vals] + ["lsort 0", "lsort 0", "lremoveFront 0", "lappend 0 -5", "lsort 0"])
    ctx.cov["rule"] = (
        f"corpus ({ncorpus}) + exhaustive op sequences with values {{0,1,2}}: List every sequence of length <= {dl} over {len(L_OPS)} ops + {nl} of length {dl + 1} "
        f"({len(exl)} histories), PoolList length <= {dp} over {len(p_ops)} ops + {np_} of length {dp + 1} ({len(exp)}), "
        f"Array length <= {da} over {len(A_OPS)} ops + {na} of length {da + 1} ({len(exa)}); "
        f"sort: every permutation of length <= {7 if quick else 8} and every {{0,1,2}}-valued list of length <= {8 if quick else 9} ({len(srt)}) "
        f"+ {len(shapes)} long adversarial shapes; List<Tagged> (operator< on the key only, so the arrangement of equal keys exposes the exact "
        f"swap sequence): every key sequence over {{0,1,2}} of length <= {7 if quick else 10} + random lists to 100 elements; the same (one length less) with "
        f"List<TaggedLe> (operator< is <=) and List<TaggedOdd> (operator< is a cyclic, inconsistent function): arrangement compared with the model's, "
        f"iterators taken before every sort re-checked after it; PoolList<Multi>: append() with 0..7 arguments in every pair of arities + random mixes "
        f"({len(tag)} histories in all); Array growth: initial capacities 0..40 x first growth to sizes 0..44 x second growth at the "
        f"boundaries ({len(grw) - len(ali)} histories{', 5% sample' if quick else ''}) + {len(ali)} self-argument histories (a.append(a), a.append(a[i]), "
        f"a.resize(n, a[i]), a.append(&a[i], n), a = a at capacities 0..16 x sizes 1..16 with distinct values, a.append(a[i]) for EVERY index i there and with "
        f"the array filled exactly to its capacity (sizes to 23, three ways of filling); l.append(l), l.prepend(l), l.insert(pos, l), l = l); {len(rnd)} random histories of 10..300 ops "
        "(value domains {0..2}, -3..6, -50..50, int extremes; ~4% invalid positions).  distinct_nontrivial = distinct (op-kind set, final "
        "observation) among histories with >= 3 ops whose last shown container is non-empty")
    ctx.cov["exhaustive"] = False
    ctx.cov["exhaustive_scope"] = (f"all op sequences: List <= {dl} ops over a {len(L_OPS)}-op alphabet, PoolList <= {dp} over {len(p_ops)}, "
                                   f"Array <= {da} over {len(A_OPS)} (one length more sampled); sort: all permutations <= {7 if quick else 8}, "
                                   f"all ternary lists <= {8 if quick else 9}: {len(srt)} inputs")
    return hs + exl + exp + exa + srt + shapes + tag + grw + rnd


# ---- multi-process variant of common.differential (the Python reference is the bottleneck under the GIL) -------
_G = {}


def _work(span):
    a, b = span
    part = _G["hs"][a:b]
    ds, nlines, done, crash, ios = C.run_batch(_G["harness"], _G["driver"], part, reference, C.default_eq, 900)
    keys = set()
    hits = {}

    def hit(k, n=1):
        hits[k] = hits.get(k, 0) + n

    for h, o in zip(part, ios):
        k = nontrivial(h, o)
        if k is not None:
            keys.add(hashlib.blake2b((",".join(sorted(k[0])) + "|" + k[1]).encode(), digest_size=8).digest())
        # branch counters measured on the implementation's output
        for line, out in zip(h, o):
            op = line.split(" ", 1)[0]
            if out == "bad-op":
                hit("rejected op (precondition)")
                continue
            if op == "tsort":
                hit("sort of List<Tagged> (arrangement of equal keys compared with the model)")
                continue
            if op == "esort":
                hit("sort with a NON-strict operator< (<= on the key): arrangement compared with the model")
                continue
            if op == "xsort":
                hit("sort with an inconsistent operator< (cyclic): arrangement compared with the model")
                continue
            if op == "mappend":
                hit("PoolList::append with %d constructor argument(s)" % (0 if line.split()[1] == "-" else line.count(",") + 1))
                continue
            parts = out.split(" | ")
            hd = parts[0].split(" ")
            if len(hd) < 3 or len(parts) < 2:
                continue
            first = parts[1].split(" ")
            if hd[1] != "n=0":
                hit("List/PoolList block allocated" if op[0] in "lp" else "Array storage (re)allocated")
            elif op in ("aappend", "aappendn", "aappenda", "aresize", "areserve"):
                hit("Array grows/reserves without reallocation")
            if op in ("linsert", "linsertl") and hd[0] not in ("r=0", "r=-") and len(first) > 1 and hd[0] != "r=" + str(int(first[1]) - 1):
                hit("List insert strictly inside")
            if op in ("lremove", "premove", "aremove") and hd[0] != "r=0" and len(first) > 1 and hd[0] != "r=" + first[1]:
                hit("remove strictly inside")
            if op in ("lremoveBack", "premoveBack", "aremoveBack") or (op in ("lremove", "premove", "aremove") and len(first) > 1 and hd[0] == "r=" + first[1]):
                hit("remove of the last element returns end()")
            if op == "lsort" and len(first) > 1:
                n = int(first[1])
                hit("sort of <2 elements (early return)" if n < 2 else "sort of 2..8 elements" if n <= 8 else "sort of 9..32 elements" if n <= 32 else "sort of >32 elements")
            if op in ("lfind", "afind") and len(first) > 1:
                hit("find: not found (end())" if hd[0] == "r=" + first[1] else "find: found")
            if op == "lremovev":
                hit("remove(value)")
            if op in ("aappendref", "aresizeref", "aappendsub", "aappendself") and hd[1] != "n=0":
                hit("aliasing argument (%s) with reallocation: the reference/pointer is followed into the new storage" % op)
            if op == "linsertself" and len(first) > 1 and hd[0] not in ("r=0", "r=-") and hd[0] != "r=" + str(int(first[1]) // 2):
                hit("l.insert(it, l) with it at an INNER position")
            if op in ("lswap", "pswap", "aswap"):
                hit("swap")
            if op in ("lcopy", "lassign", "acopy", "aassign"):
                hit("copy/assign")
    if crash and not ds:
        ds.append(C.Diff(part[-1] if part else [], max(0, len(part[-1]) - 1) if part else 0,
                         "impl-exit", f"exit code {crash[0]}", None, None, crash[1]))
    return ds, nlines, done, keys, hits


def differential_mp(ctx, harness, driver, histories):
    """same contract as common.differential, one worker process per chunk (fork: the histories are shared, not pickled)"""
    if not histories:
        return []
    _G.update(hs=histories, harness=harness, driver=driver)
    chunk = max(1, min(20000, (len(histories) + C.NCPU * 4 - 1) // (C.NCPU * 4)))
    spans = [(i, min(len(histories), i + chunk)) for i in range(0, len(histories), chunk)]
    diffs, keys = [], set()
    with multiprocessing.get_context("fork").Pool(C.NCPU) as pool:
        for ds, nlines, done, ks, hits in pool.imap_unordered(_work, spans):
            bh = ctx.cov.setdefault("branch_hits", {})
            for k, n in hits.items():
                bh[k] = bh.get(k, 0) + n
            ctx.cov["evaluations"] += nlines
            ctx.cov["traces_validated_against_impl"] += done
            diffs += ds
            keys |= ks
    _G.clear()
    ctx.cov["distinct_nontrivial"] = ctx.cov.get("distinct_nontrivial", 0) + len(keys)
    return diffs


# ---- PoolList::front()/back() compile probe ---------------------------------------------------------
PROBE = """#include <nstd/PoolList.hpp>
int probe() { PoolList<int> l; l.append(1); const PoolList<int>& c = l; return l.front() + l.back() + c.front() + c.back(); }
"""


def pool_front_compiles(ctx):
    src = C.BUILD / f"seq_probe_{os.getpid()}.cpp"
    src.write_text(PROBE)
    rc, out = C.sh([C.CXX, "-std=gnu++11", "-fsyntax-only", f"-I{C.REPO}/include", str(src)], timeout=120)
    src.unlink()
    if rc != 0:
        errs = [l for l in out.splitlines() if "error" in l][:4]
        ctx.violation("PoolList::front()/back() cannot be instantiated (compile error): no reference to the first/last element can be obtained",
                      "# C++ input (does not compile against the current include/nstd/PoolList.hpp):\n" +
                      "".join("#   " + l + "\n" for l in PROBE.splitlines()) + "".join("# " + e + "\n" for e in errs) +
                      "# probe=poollist-front\n",
                      signature="poollist-front-compile")
        ctx.log("PoolList::front()/back() do not compile; pfront/pback are left out of the histories")
    return rc == 0


# ---- Array::reserve with a capacity whose byte size overflows usize ---------------------------------
OVERFLOW_PROBE = """#include <stdlib.h>
#include <stdio.h>
#include <unistd.h>
#include <nstd/Array.hpp>
// an allocator that fails cleanly for absurd sizes (as the standard one does by throwing)
void* operator new[](usize size) { if(size > ((usize)1 << 40)) { puts("alloc-too-large"); fflush(stdout); _exit(42); } return malloc(size); }
void operator delete[](void* p) { free(p); }
void* operator new(usize size) { return operator new[](size); }
void operator delete(void* p) { free(p); }
int main()
{
  Array<int> a;
  a.reserve((usize)-1 / sizeof(int) + 2);   // sizeof(int) * capacity wraps around to a few bytes
  for(int i = 0; i < 8; ++i) a.append(i);
  puts("no-failure");
  return 0;
}
"""


def reserve_overflow_probe(ctx):
    """the request must reach the allocator as an oversized one (exit 42); a wrapped-around small allocation followed by
    appends is a heap overflow (ASan)"""
    src = C.BUILD / f"seq_ovf_{os.getpid()}.cpp"
    exe = C.BUILD / f"seq_ovf_{os.getpid()}"
    src.write_text(OVERFLOW_PROBE)
    try:
        rc, out = C.sh([C.CXX] + C.CXXFLAGS + [f"-I{C.REPO}/include", str(src), "-o", str(exe)], timeout=300)
        if rc != 0:
            ctx.broken.append("reserve-overflow probe does not compile: " + out[-600:])
            return
        env = dict(C.SAN_ENV)
        rc, out = C.sh([str(exe)], timeout=60, env=env)
        ctx.cov.setdefault("branch_hits", {})["reserve with overflowing byte size rejected by the allocator"] = 1 if rc == 42 else 0
        if rc != 42:
            first = [l for l in out.splitlines() if "ERROR" in l or "no-failure" in l][:2]
            ctx.violation("Array::reserve(n) with sizeof(T)*n overflowing usize allocates a wrapped-around size; later appends write behind it",
                          "# C++ input (Array<int>): a.reserve((usize)-1 / sizeof(int) + 2); then 8 x a.append(i)\n" +
                          "".join("# " + l + "\n" for l in first) +
                          "# probe=reserve-overflow   (replayed by compiling and running the probe program, not by op lines: the harness'\n"
                          "# allocator cannot fail cleanly)\n",
                          signature="array-reserve-overflow")
    finally:
        for f in (src, exe):
            try:
                f.unlink()
            except OSError:
                pass


def build(ctx):
    reserve_overflow_probe(ctx)
    pf = pool_front_compiles(ctx)
    h = C.build_harness(ctx, "seq", ["seq.cpp"], extra_flags=["-DSEQ_POOL_FRONT"] if pf else [])
    return h, pf


def check(ctx):
    ctx.assumptions += [
        "element types int and Tagged (trivially copyable); construction/destruction counting is C04's; self-assignment and arguments aliasing "
        "the container are generated and specified as-if-copied-first",
        "chain model of List/PoolList: (node id, value) pairs in link order + free list + block count (node = 4*block+slot); the heap model "
        "(prev/next/value per item, sentinel, free list through prev) is proved to represent it for insert/remove/clear/sort and is run in "
        "lockstep by the driver; the harness checks forward/backward walks and the null predecessor of the first item on every observation",
        "position-level quicksort (next = position + 1) is proved equal to the heap-level one (item addresses, next reads, pointer comparison)",
        "Array: capacity model + cell-level model of the loops (proved related, run in lockstep); separate containers never alias",
        "allocation never fails for the sizes of the histories (<= 45 elements per request); the byte-size overflow of reserve is probed separately on the real code",
    ]
    proof_ok = C.proof_stage(ctx, PROPS, [DRIVER], gen=gen, leanchecker=(ctx.tier == "thorough"))
    harness, pf = build(ctx)
    if harness is None or not C.driver_path(DRIVER).exists():
        return
    try:
        hs = histories_for(ctx, pf)
        if not proof_ok:
            ctx.log("proof stage broken: searching harder for a failing input")
            hs += [gen_random(ctx.rng, 60, "lpa", pf) for _ in range(10000)]
        ops = {}
        for h in hs:
            for l in h:
                k = l.split(" ", 1)[0]
                ops[k] = ops.get(k, 0) + 1
        ctx.cov["op_histogram"] = ops
        ctx.cov["samples"] = [" ; ".join(h)[:600] for h in (hs[-2:] + hs[len(hs) // 2: len(hs) // 2 + 2] + hs[len(hs) // 5: len(hs) // 5 + 2])]
        diffs = differential_mp(ctx, harness, C.driver_path(DRIVER), hs)
        ctx.log(f"{len(hs)} histories, {ctx.cov['evaluations']} op lines, {len(diffs)} disagreement(s)")
        C.report_diffs(ctx, diffs, harness, C.driver_path(DRIVER), reference, C.default_eq, "seq-ops")
        # second stream: the same headers compiled the way a release build does (-O2, no sanitizer): placement-new over
        # recycled items, inlined relinking and the quicksort must behave identically under optimisation
        h2 = C.build_harness(ctx, "seq_o2", ["seq.cpp"], extra_flags=(["-DSEQ_POOL_FRONT"] if pf else []) + ["-O2"], sanitize=False)
        if h2 is not None:
            try:
                sub = [h for h in hs if h and h[-1] == "dump"]          # random + self-argument histories
                sub += ctx.rng.sample(hs, min(len(hs), 15000 if ctx.tier == "quick" else 300000))
                d2 = differential_mp(ctx, h2, C.driver_path(DRIVER), sub)
                ctx.log(f"-O2 stream: {len(sub)} histories, {len(d2)} disagreement(s)")
                ctx.cov["streams"] = {"seq-ops (ASan+UBSan, -O1)": len(hs), "seq-ops-O2 (no sanitizer)": len(sub)}
                C.report_diffs(ctx, d2, h2, C.driver_path(DRIVER), reference, C.default_eq, "seq-ops-O2")
            finally:
                try:
                    h2.unlink()
                except OSError:
                    pass
    finally:
        try:
            harness.unlink()
        except OSError:
            pass


def replay(ctx, path):
    text = open(path).read()
    if "probe=reserve-overflow" in text:
        reserve_overflow_probe(ctx)
        print("reserve-overflow probe:", "still failing" if ctx.violations else "passes")
        return
    if "probe=poollist-front" in text:
        ok = pool_front_compiles(ctx)
        print("PoolList::front()/back() probe:", "compiles" if ok else "still failing")
        return
    h = C.parse_replay(path)
    harness, pf = build(ctx)
    C.lake_build([DRIVER])
    diffs = C.differential(ctx, harness, C.driver_path(DRIVER), [h], reference, C.default_eq)
    for d in diffs:
        print(d.text())
        ctx.violation(f"replay: {d.kind}", d.text())
    harness.unlink()
