"""C15  Json: parse . toString = id on Variant trees; the text toString writes is a JSON-text of RFC 8259 (proved against a
declarative grammar, and also tested through Python's json.loads), every RFC 8259 text with a meaning is parsed to it, the parser rejects
malformed text with a position inside the text and never reads past the terminator, stripComments
removes exactly the comments outside string literals and keeps every line break.

Line protocol (harness/json.cpp and lean driver drv_json; one op per line -> one observation line):
  parse <hex>   ->  ok <dump> | err <line> <col>      text = the bytes + NUL (parsing stops at the first NUL)
  strip <hex>   ->  <hex of Json::stripComments(text)>  (input cut at its first 00 byte)
  tostr <dump>  ->  <hex of Json::toString(v)>   (tostr only: also u<dec> uint, U<dec> uint64, <V,...> Array<Variant>)
  tostr D<hex>  ->  dbl                            (double made from the number text; "%f" shape of the output observed)
  rt <dump>     ->  ok <dump of parse(toString(v))> <1|0> | err <line> <col>
  parseinto <dump> <hex> -> ok <dump> | err <line> <col>   (Parser::parse into a Variant that already holds <dump>)
  anything else / malformed dump -> bad-op
dump grammar:  V ::= n | t | f | d | i<dec> | l<dec> | s<hex> | [V,...] | {<hexkey>:V,...}   (hex "-" = empty)
"""
import hashlib
import itertools
import json as pyjson
import re
import sys
import common as C
import gen_json

# 1000-deep documents are part of the scope: the reference walks them recursively
sys.setrecursionlimit(max(sys.getrecursionlimit(), 20000))

PROPERTIES = ["C15"]
MANIFEST = {
    "C15": {
        "technique": "Lean 4 proof + tie by TRANSLATION (tools/gen_json_cxx.py: tokenizer + parser of a C++ subset + symbolic execution; on every run Json::stripComments, the string loop of readToken (escapes, \\u, surrogate pairs), the number block of readToken and skipSpace of the CURRENT Json.cpp are translated statement by statement into lean/Nstd/Generated/JsonCode.lean and PropsGen.lean proves the translated functions equal to the model functions on every state) + translator by execution (tools/gen_json.py regenerates the escape tables of the tokenizer and of appendEscapedString by executing the current Json.cpp on every byte value; model and theorems are stated over the generated tables, which depend on the content of the escape logic only, not on its shape). Lean 4 proof (total, memory-safe parser with in-text error positions; serialise-then-parse round trip by induction over value trees; stripComments = reference scanner) over an executable model of Json.cpp + differential correspondence model vs real Json.cpp (ASan/UBSan, exactly sized heap copies) + independent Python oracles (json.loads, comment scanner, serialiser)",
        "text": "Third leg of round 7: translated_parser (Json::Private::parseValue with parseArray/parseObject executed in place, as written today, is the model's parseValue/arrLoop/objLoop for every budget and parser state; out-parameter Variant& = returned value, List::append = acc ++ [v], HashMap::append = mapAppend with the repeated-key rule, readToken() = St.next), translated_parse (translated tokenizer + translated parser = the model's parseRaw on every NUL-terminated buffer), translated_parse_total_safe and translated_roundtrip (parse_total / parse_no_oob / roundtrip restated over the code of today). parse into a Variant that already holds a value: ModelInto.parseInto, driven by the new op parseinto (harness, driver, generator, Python reference); parse_into_fresh, parse_into_array_appends, parse_into_object_appends (held map: the parsed members are HashMap::append-ed in text order, mergeMap). Second leg of round 7: translated_readToken (the WHOLE Json::Private::readToken of today - skipSpace executed in place, first-byte dispatch, String::compare for the literals, string loop, number block - is the model's readToken on every consistent position Pos buf line r for every budget >= |r|+2; nothing of the tokenizer is hand-translated any more), readStr_fuel_monotone (proved on the translated loop by a tactic that follows the generated tree), translated_syntaxError / translated_column (the backwards walk of syntaxError over the bytes in front of the cursor, written with a counter or with a second pointer, returns (pos.line, model column)), error_pos_exact (parse buf = err l c: there is a cursor p of the buffer with NUL-free text in front of it such that (l, c) is what the translated syntaxError computes for p and p is exactly one of two classes - ErrAt.tokenizer: the cursor where readToken started at a consistent position gives up; ErrAt.behindToken: a complete token that the grammar does not allow there was read, p is the cursor immediately behind it and l its line), tokenizer_error_cursor + string_error_cursor (the tokenizer gives up AT the first byte of a token that cannot start / a mismatching literal, inside a string literal AT the terminating NUL, AT the first non-hex byte of a \\u escape, or immediately BEHIND a high surrogate escape that is not followed by a low surrogate escape). Tie by translation (round 7): translated_stripComments / translated_strip_loops (the three loops of Json::stripComments as written today ARE the model's stripOuter/stripBlock/stripString, fuel for fuel, for every output-so-far and cursor), translated_string_loop (the string loop of readToken as written today - CR/CRLF/LF, escape switch, \\u + 4 hex digits, surrogate tests, second escape, pos -= 6, Unicode::append - IS the model's readStr for every budget, line, accumulator and cursor: same value, line count, cursor, failure position), translated_number_token (alphabet loop + isDouble + toInt64 + narrowing = numLoop then numVal), translated_skipSpace, readToken_via_translation (the model's readToken rewritten over the translated pieces; only the first-byte dispatch and the three literals stay hand-written). A change of one of these C++ bodies changes the generated definitions; if it computes something else the equality no longer checks (broken obligation, then the search for a failing input runs), anything outside the translated C++ subset is refused (broken tie). Kernel-checked theorems over ALL buffers / ALL value trees of the Lean model of Json.cpp: parse never runs out of its linear budget (parse_total) and never reads behind the end of a buffer that holds a NUL (parse_no_oob), for any size and nesting depth; every reported error is the (line, column) of an offset inside the text (error_pos_inside, error_pos_bounds); the result depends only on the bytes before the first NUL (parse_reads_only_cstr); for every tree of null/bool/int32/int64/NUL-free strings/lists/maps with distinct NUL-free keys, parse(toString v) succeeds with a tree equal to v under Variant::operator== (roundtrip; the only change is int64-that-fits-32-bits -> int); stripComments equals a four-mode byte-at-a-time reference on the C string of the buffer, keeps every CR/LF and only deletes bytes (strip_spec, strip_keeps_line_breaks, strip_sublist). RFC 8259: lean/Nstd/Json/Rfc.lean is a declarative grammar of the RFC over bytes (inductive predicates, imports nothing, not the parser model) with the syntax tree as attribute; toString_is_rfc8259: for every tree of the property the text of toString IS a JSON-text of that grammar; accepts_rfc: every JSON-text of the grammar whose tree has a meaning (RfcSem.interp: strings decoded per section 7 incl. surrogate pairs to the RFC 3629 UTF-8 specified for C18, objects via HashMap::append, arrays, literals) is parsed successfully to exactly that meaning, no bound on size/depth; the only texts of the grammar without a meaning are those with a high surrogate escape not followed by a low surrogate escape, which the code rejects (lone_high_surrogate_rejected). Numbers: number_token (which bytes form the token; double iff it contains '.'), number_token_value (the value of EVERY token without '.': optional minus, decimal value of the digits before the first non-digit, saturated at int64, stored as int iff it fits 32 bits), number_token_exp_ignored (1e5 is the int 1: deviation from the RFC meaning, witness in Props). unicode_escape_is_utf8 / surrogate_logic: the shifts/masks of the tokenizer and of Unicode::append are the D800..DBFF / DC00..DFFF ranges, the UTF-16 pair formula and RFC 3629 for all code points. Round trip a second time, through the RFC semantics: toString_rfc_meaning (interp (treeOf v) = some (norm v): a statement about the two specifications, the parser does not occur) composes with toString_is_rfc8259 and accepts_rfc into roundtrip_through_rfc, independently of the parser-model proof `roundtrip`. string_without_meaning_rejected / high_surrogate_then_non_low_rejected: on RFC strings the tokenizer succeeds exactly when decodeItems is defined. Superset in both directions: accepted_beyond_rfc proves for each relaxation (leading zeros, `-`, `1-2`, `1.2.3`, trailing commas in arrays and objects, a raw LF and an unknown escape in a string, VT/FF as white space, `1 2`, `[] ]`) that nstd accepts it AND that it is not a JSON-text of the grammar (rfc_necessary: a computable necessary condition of Rfc.Text proved by induction over the grammar, LemmasRfcNot.lean importing only the grammar); lone low surrogates and repeated names (first position/last value) are inside the grammar, witnesses given. stripComments: besides strip_spec, the declarative relation Stripped (plain bytes, string literals with `\\x` pairs verbatim, `//` to the kept CR/LF, `/* */` keeping only CR/LF, unterminated forms) is computed by stripComments for every text (strip_declarative); every RFC 8259 text is returned unchanged (strip_rfc_text_unchanged); strip_then_parse: if the text without its comments is a JSON-text with meaning v, parse(stripComments(t)) = v. The model is tied to the current Json.cpp on every run by executing identical op lines on both (all byte strings of length <=3 (thorough <=4, partly 5) over a 12..18-symbol alphabet for parse and strip, generated valid/lenient/erroneous documents, prefixes, mutations, token soup, type-directed value trees with quotes/backslashes/all control characters/UTF-8/non-BMP, toString of the uint/uint64/Array/double kinds, 1000-deep documents, watchdog; every parse op also runs Parser::parse(String), a long-lived reused Parser, both static Json::parse functions and compares result and Error text) and judged by oracles that do not go through the model; branch-hit counters of the tokenizer/parser constructs are in the evidence.",
        "note": "Translated and proved equal to the model (not trusted): stripComments, the string block and the number block of readToken, skipSpace. Trusted there: the translator tools/gen_json_cxx.py itself (its reading of the C++ subset: const char* = suffix + static offset read through Cxx.rdS/rdR with the empty suffix = out of bounds, String locals and *(dest++) = x as byte lists, loops as fuel functions, counting loops unrolled, member functions of Json::Private inlined, a bool loop flag propagated as a constant; library calls mapped to model definitions: String::findOneOf = strpbrk, isDigit/isHexDigit/isSpace, append, clear, toInt64 = atoll, toDouble opaque, Unicode::append = utf8; ASSUMED: k.scanf(\"%x\", &w) on four checked hex digits returns 1 with their value, the failure branch is dropped) - its output is additionally exercised because the driver's model functions are proved equal to it. Since the second leg also translated: the whole readToken (String::compare = litMatch) and syntaxError (a cursor known by the bytes in front of it; `start` = where that list ends). Since the third leg also translated: parseValue/parseArray/parseObject (assumed there: the Variant handed in is fresh - the other case is ModelInto.parseInto, hand-written and tied by the op parseinto; readToken() is taken as St.next, justified by translated_readToken). Still hand-translated and only tied by the differential run: the three statements of Private::parse (glue), appendVariant/appendEscapedString (escape tables by execution), Private::parse, the API wrappers. A harmless rewrite outside the subset or one the fixed proof scripts do not follow is reported as a broken tie (no-failing-input-found); the harmless changes C15-h1 (code motion into helper functions + flag loop), h2 (single surrogate mask, explicit int range test), h3 stay quiet. error_pos_exact speaks about the cursor the code reports: for parser-level errors that is the cursor BEHIND the offending token (the code passes pos, not token.pos), which the theorem states as such. Trusted: Lean kernel + the three standard axioms; the hand translation of the remaining parts of Json.cpp into lean/Nstd/Json/Model.lean (cursor = suffix of the buffer, a read at the empty suffix = out of bounds; loops with fuel; parseArray/parseObject inlined into parseValue + loop functions; appendEscapedString modelled byte-at-a-time instead of strpbrk jumps; the dead `scanf failed` branches after four checked hex digits and the dead `token != '['`/`'{'` tests are not modelled; docs/json.md has the coverage table of Json.cpp) - validated by the correspondence run, not proved. The translator tools/gen_json.py reads the tables off the running code (op `tables` of the harness: toString of every one-byte string, parse of every backslash+letter); it assumes escaping is per byte and refuses observations it cannot interpret (= broken tie); its output is exercised by the correspondence run; what the round trip needs of the generated tables (escape texts invert through the tokenizer's switch, every control character/quote/backslash is in the escaped set, escape letters are plain bytes, \\u00 prefix) are the closed `decide` lemmas of LemmasTables.lean, counted as obligations. string_token_has_string_value shows the model's Val.strOf default is unreachable. libc as Lean definitions (assumptions): atoll (sign, digits, saturating), sscanf %x on four hex digits, printf %d/%lld, isdigit/isxdigit/isspace in the C locale, strpbrk. Doubles (atof, %f) are opaque: a number token with '.' becomes `d` and is never compared; the round trip excludes doubles (the tie observes only that toString of a finite double has the %f shape). The RFC grammar is over bytes: well-formedness of raw non-ASCII UTF-8 inside strings is not part of it (toString copies such bytes unchanged). interp uses the model's numVal for number tokens (explained by number_token_value); Rfc.lean/RfcSem.lean are hand-written specifications (trusted as the reading of RFC 8259). toString of uint/uint64/Array kinds is model+tie (printed like int64 / list), not covered by a theorem. Rfc.textNec is only a necessary condition (not a recogniser of the grammar); Stripped is shown sound (stripComments computes it), its totality (every text has an image) is not stated. parse into a non-empty result Variant: modelled (parseInto) and driven (parseinto); proved for lists, maps and replaced values. The translator assumes for unsigned subtraction that the minuend is not the smaller value (used only behind isHexDigit in a rewritten hex reader). Harmless C15-h4 (stripComments rebuilt from helpers that return cursors) leaves the translated subset and is reported as a broken tie without a failing input. String/Variant/List/HashMap of libnstd are modelled as values (byte list, tree, insertion-ordered assoc list with replace-on-repeat); Variant::operator== is modelled for the value kinds of the property. The C++ recursion depth (stack) is not modelled: the theorems are about unbounded depth, the real code is run on 1000-deep documents. Bytes after the first NUL of a longer buffer cannot influence the result (parse_reads_only_cstr: parse buf = parse (cstr buf ++ [0])). No theorem is partial; the model mirrors the sources WITH fixes/json/01..04 applied (D21-D24).",
        "design_ref": "DESIGN.md 3/C15",
    }
}
PROPS = ["Nstd.Json.Props", "Nstd.Json.LemmasTables", "Nstd.Json.PropsGen"]
LEAN_TARGETS = PROPS + ["drv_json"]
DRIVER = "drv_json"
HARNESS_SOURCES = ["json.cpp", "src/Document/Json.cpp", "src/String.cpp", "src/Variant.cpp", "src/Error.cpp", "src/Memory.cpp"]
MAXLINE = 30000          # the harness line buffer is 64 KiB

I32 = (-2 ** 31, 2 ** 31 - 1)
I64 = (-2 ** 63, 2 ** 63 - 1)


def hx(b):
    return bytes(b).hex() if b else "-"


_HEXTOK = re.compile(r"-|(?:[0-9a-f][0-9a-f])+")


def unhx(t):
    return b"" if t == "-" else bytes.fromhex(t)


# ---- value trees ----------------------------------------------------------------------------------
# ("n",) ("t",) ("f",) ("d",) ("i", n) ("l", n) ("s", bytes) ("[", [v...]) ("{", [(keybytes, v)...])
def dump(v):
    out = []
    _dump(v, out)
    return "".join(out)


def _dump(v, out):
    k = v[0]
    if k in "ntfd":
        out.append(k)
    elif k in "iluU":
        out.append(k + str(v[1]))
    elif k == "s":
        out.append("s" + hx(v[1]))
    elif k in "[<":
        out.append(k)
        for n, e in enumerate(v[1]):
            if n:
                out.append(",")
            _dump(e, out)
        out.append("]" if k == "[" else ">")
    else:
        out.append("{")
        for n, (key, e) in enumerate(v[1]):
            if n:
                out.append(",")
            out.append(hx(key) + ":")
            _dump(e, out)
        out.append("}")


class DumpError(Exception):
    pass


_DEC = re.compile(r"-?(?:0|[1-9][0-9]*)")


U32 = (0, 2 ** 32 - 1)
U64 = (0, 2 ** 64 - 1)


def parse_dump(tok, allow_d=True, ext=False):
    """strict reader of the dump grammar; DumpError('range') for a canonical number outside its type,
    DumpError('syntax') otherwise.  Repeated keys: later value replaces, first position kept.
    ext (tostr only): u<dec> uint, U<dec> uint64, <V,...> Array<Variant>."""
    pos = [0]
    n = len(tok)

    def hexstr():
        m = _HEXTOK.match(tok, pos[0])
        if not m:
            raise DumpError("syntax")
        pos[0] = m.end()
        return unhx(m.group(0))

    def val():
        if pos[0] >= n:
            raise DumpError("syntax")
        c = tok[pos[0]]
        pos[0] += 1
        if c in "ntf":
            return (c,)
        if c == "d":
            if not allow_d:
                raise DumpError("syntax")
            return ("d",)
        if c in "uU<" and not ext:
            raise DumpError("syntax")
        if c in "uU":
            m = _DEC.match(tok, pos[0])
            if not m or m.group(0).startswith("-"):
                raise DumpError("syntax")
            pos[0] = m.end()
            if pos[0] < n and tok[pos[0]].isdigit():
                raise DumpError("syntax")
            if len(m.group(0)) > 20:
                raise DumpError("range")
            x = int(m.group(0))
            if x > (U32 if c == "u" else U64)[1]:
                raise DumpError("range")
            return (c, x)
        if c == "<":
            items = []
            if pos[0] < n and tok[pos[0]] == ">":
                pos[0] += 1
                return ("<", items)
            while True:
                items.append(val())
                if pos[0] < n and tok[pos[0]] == ",":
                    pos[0] += 1
                    continue
                if pos[0] < n and tok[pos[0]] == ">":
                    pos[0] += 1
                    return ("<", items)
                raise DumpError("syntax")
        if c in "il":
            m = _DEC.match(tok, pos[0])
            if not m:
                raise DumpError("syntax")
            pos[0] = m.end()
            if pos[0] < n and tok[pos[0]].isdigit():
                raise DumpError("syntax")          # leading zeros: not canonical
            if len(m.group(0)) > 20:
                raise DumpError("range")
            x = int(m.group(0))
            lo, hi = I32 if c == "i" else I64
            if not lo <= x <= hi:
                raise DumpError("range")
            return (c, x)
        if c == "s":
            return ("s", hexstr())
        if c == "[":
            items = []
            if pos[0] < n and tok[pos[0]] == "]":
                pos[0] += 1
                return ("[", items)
            while True:
                items.append(val())
                if pos[0] < n and tok[pos[0]] == ",":
                    pos[0] += 1
                    continue
                if pos[0] < n and tok[pos[0]] == "]":
                    pos[0] += 1
                    return ("[", items)
                raise DumpError("syntax")
        if c == "{":
            d = {}
            if pos[0] < n and tok[pos[0]] == "}":
                pos[0] += 1
                return ("{", [])
            while True:
                key = hexstr()
                if not (pos[0] < n and tok[pos[0]] == ":"):
                    raise DumpError("syntax")
                pos[0] += 1
                d[key] = val()
                if pos[0] < n and tok[pos[0]] == ",":
                    pos[0] += 1
                    continue
                if pos[0] < n and tok[pos[0]] == "}":
                    pos[0] += 1
                    return ("{", list(d.items()))
                raise DumpError("syntax")
        raise DumpError("syntax")

    v = val()
    if pos[0] != n:
        raise DumpError("syntax")
    return v


def tree_strings(v):
    k = v[0]
    if k == "s":
        yield v[1]
    elif k in "[<":
        for e in v[1]:
            yield from tree_strings(e)
    elif k == "{":
        for key, e in v[1]:
            yield key
            yield from tree_strings(e)


def norm(v):
    """what parse(toString(v)) is: an int64 that fits 32 bits comes back as int; an unsigned value comes back as the
    signed kind that holds it (None beyond int64: no claim), an Array as a list"""
    k = v[0]
    if k in "luU":
        if I32[0] <= v[1] <= I32[1]:
            return ("i", v[1])
        if v[1] > I64[1]:
            return None
        return ("l", v[1])
    if k in "[<":
        items = [norm(e) for e in v[1]]
        return None if any(e is None for e in items) else ("[", items)
    if k == "{":
        items = [(key, norm(e)) for key, e in v[1]]
        return None if any(e is None for key, e in items) else ("{", items)
    return v


# ---- reference: parser (Python's json module as the judge of what a valid document means) ---------
_HIGH = re.compile("[\ud800-\udbff]")


def py_parse(text):
    """text: bytes without NUL.  Returns the tree json.loads assigns to the document when Python accepts it
    and the nstd value is determined by the documented semantics, else None (no exact claim)."""
    try:
        s = text.decode("utf-8")
    except UnicodeDecodeError:
        return None
    noclaim = []

    def pint(x):
        if len(x) > 20:
            noclaim.append(x)
            return ("l", 0)
        n = int(x)
        if I32[0] <= n <= I32[1]:
            return ("i", n)
        if I64[0] <= n <= I64[1]:
            return ("l", n)
        noclaim.append(x)
        return ("l", 0)

    def pfloat(x):
        if "." not in x:
            noclaim.append(x)        # 1e5: nstd reads it with atoll semantics
        return ("d",)

    def pconst(x):
        raise ValueError("NaN/Infinity are not JSON")

    def has_high(x):                 # lone high surrogate: nstd rejects the document (also inside a value that
        if isinstance(x, str):       # a repeated key replaces later, which python has already dropped in `conv`)
            return _HIGH.search(x) is not None
        if isinstance(x, list):
            return any(has_high(e) for e in x)
        return False                 # objects were examined by their own `pairs` call

    def pairs(ps):
        d = {}
        for k, v in ps:
            if has_high(k) or has_high(v):
                noclaim.append(k)
            d[k] = v                 # repeated key: last value, position of the first occurrence
        return ("{", list(d.items()))

    try:
        r = pyjson.loads(s, parse_int=pint, parse_float=pfloat, parse_constant=pconst, object_pairs_hook=pairs)
    except (ValueError, RecursionError):
        return None
    if noclaim:
        return None

    def sconv(x):
        if _HIGH.search(x):
            noclaim.append(x)        # lone high surrogate: nstd rejects the document
        return x.encode("utf-8", "surrogatepass")

    def conv(x):
        if x is None:
            return ("n",)
        if x is True:
            return ("t",)
        if x is False:
            return ("f",)
        if isinstance(x, str):
            return ("s", sconv(x))
        if isinstance(x, list):
            return ("[", [conv(e) for e in x])
        if x[0] == "{":
            return ("{", [(sconv(k), conv(v)) for k, v in x[1]])
        return x

    t = conv(r)
    return None if noclaim else t


_EOL = re.compile(rb"\r\n|\r|\n")


def line_lengths(text):
    return [len(p) for p in _EOL.split(text)]


def ref_parse(text):
    text = text.split(b"\0")[0]
    t = py_parse(text)
    if t is not None:
        return "=ok " + dump(t)
    return "pos " + ",".join(str(n) for n in line_lengths(text))


# ---- reference: comment stripper (independent 4-state scanner) ------------------------------------
def ref_strip(t):
    out = bytearray()
    i, n = 0, len(t)
    NORMAL, LINE, BLOCK, STRING = 0, 1, 2, 3
    st = NORMAL
    while i < n:
        c = t[i]
        nx = t[i + 1] if i + 1 < n else -1
        if st == NORMAL:
            if c == 0x2f and nx == 0x2f:
                st = LINE
                i += 2
            elif c == 0x2f and nx == 0x2a:
                st = BLOCK
                i += 2
            else:
                out.append(c)
                if c == 0x22:
                    st = STRING
                i += 1
        elif st == LINE:
            if c in (10, 13):
                out.append(c)
                st = NORMAL
            i += 1
        elif st == BLOCK:
            if c == 0x2a and nx == 0x2f:
                st = NORMAL
                i += 2
            else:
                if c in (10, 13):
                    out.append(c)
                i += 1
        else:
            if c == 0x5c and nx >= 0:
                out.append(c)
                out.append(nx)
                i += 2
            else:
                out.append(c)
                if c == 0x22:
                    st = NORMAL
                i += 1
    return bytes(out)


def eols(b):
    return bytes(c for c in b if c in (10, 13))


# ---- reference: serialiser (re-implementation of the fixed toString) ------------------------------
_ESC = {0x22: b'\\"', 0x5c: b"\\\\", 8: b"\\b", 12: b"\\f", 10: b"\\n", 13: b"\\r", 9: b"\\t"}


def ref_escape(b):
    out = bytearray(b'"')
    for c in b:
        if c in _ESC:
            out += _ESC[c]
        elif 1 <= c <= 0x1f:
            out += b"\\u00%02x" % c
        else:
            out.append(c)
    out += b'"'
    return bytes(out)


def _tostr(v, ind, out):
    k = v[0]
    if k == "n":
        out.append(b"null")
    elif k == "t":
        out.append(b"true")
    elif k == "f":
        out.append(b"false")
    elif k in "iluU":
        out.append(str(v[1]).encode())
    elif k == "s":
        out.append(ref_escape(v[1]))
    elif k in "[<":
        if not v[1]:
            out.append(b"[]")
            return
        out.append(b"[\n")
        for n, e in enumerate(v[1]):
            if n:
                out.append(b",\n")
            out.append(ind + b"\t")
            _tostr(e, ind + b"\t", out)
        out.append(b"\n" + ind + b"]")
    elif k == "{":
        if not v[1]:
            out.append(b"{}")
            return
        out.append(b"{\n")
        for n, (key, e) in enumerate(v[1]):
            if n:
                out.append(b",\n")
            out.append(ind + b"\t" + ref_escape(key) + b": ")
            _tostr(e, ind + b"\t", out)
        out.append(b"\n" + ind + b"}")
    else:
        raise DumpError("double")


def ref_tostr(v):
    out = []
    _tostr(v, b"", out)
    out.append(b"\n")
    return b"".join(out)


# ---- the reference function handed to C.differential ----------------------------------------------
# a reference line is:  "*" no claim | "=<line>" exactly this line | "pos n1,n2,.." parse position claim
# (n_k = length of line k of the text) | "!<why>" a claim about the implementation's output already failed
def ref_line(line, impl):
    t = line.split()
    if len(t) == 3 and t[0] == "parseinto":
        return ref_parseinto(t[1], t[2])
    if len(t) != 2 or t[0] not in ("parse", "strip", "tostr", "rt"):
        return "=bad-op"
    op, arg = t
    if op in ("parse", "strip"):
        if not _HEXTOK.fullmatch(arg):
            return "*"
        text = unhx(arg).split(b"\0")[0]
        if op == "parse":
            return ref_parse(text)
        exp = ref_strip(text)
        if impl is not None and _HEXTOK.fullmatch(impl) and eols(unhx(impl)) != eols(text):
            return "!stripComments changed the sequence of line breaks; expected " + hx(exp)
        return "=" + hx(exp)
    if op == "tostr" and arg.startswith("D"):
        if not _HEXTOK.fullmatch(arg[1:]):
            return "=bad-op"
        try:
            x = float(unhx(arg[1:]).decode("ascii"))
        except (ValueError, UnicodeDecodeError):
            return "*"
        return "=dbl" if x == x and abs(x) != float("inf") else "*"      # "%f" of a finite double: digits '.' six digits
    try:
        v = parse_dump(arg, allow_d=False, ext=(op == "tostr"))
    except DumpError as e:
        return "=bad-op" if e.args[0] == "range" else "*"
    if any(0 in s for s in tree_strings(v)):
        return "*"                      # embedded NUL: outside the property
    if op == "rt":
        return "=ok " + dump(norm(v)) + " 1"
    exp = ref_tostr(v)
    if impl is not None and _HEXTOK.fullmatch(impl):
        got = unhx(impl)
        try:
            got.decode("utf-8")
            strict = True
        except UnicodeDecodeError:
            strict = False
        if strict:
            back = py_parse(got)
            if norm(v) is not None and back != norm(v):
                return "!toString output is not the JSON text of the value (python json.loads gives " + \
                       (dump(back) if back is not None else "an error") + "); expected " + hx(exp)
    return "=" + hx(exp)


def ref_parseinto(d, h):
    """parse into a Variant that already holds the tree `d`: a list / map keeps its items and gets the parsed ones appended
    (HashMap::append: a repeated name keeps its place and takes the new value), anything else is replaced"""
    try:
        init = parse_dump(d, allow_d=False)
    except DumpError as e:
        return "=bad-op" if e.args[0] == "range" else "*"
    if not _HEXTOK.fullmatch(h):
        return "*"
    text = unhx(h).split(b"\0")[0]
    t = py_parse(text)
    if t is None:
        return "pos " + ",".join(str(n) for n in line_lengths(text))
    if t[0] == "[" and init[0] == "[":
        t = ("[", init[1] + t[1])
    elif t[0] == "{" and init[0] == "{":
        m = dict(init[1])
        for k, v in t[1]:
            m[k] = v
        t = ("{", list(m.items()))
    return "=ok " + dump(t)


def reference(hist, impl_out):
    return [ref_line(l, impl_out[k] if k < len(impl_out) else None) for k, l in enumerate(hist)]


_ERR = re.compile(r"err (-?[0-9]+) (-?[0-9]+)")


def ref_eq(impl, ref):
    if ref == "*":
        return True
    if ref.startswith("="):
        return impl == ref[1:]
    if ref.startswith("pos "):
        m = _ERR.fullmatch(impl)
        if m:
            lens = [int(x) for x in ref[4:].split(",")]
            ln, col = int(m.group(1)), int(m.group(2))
            return 1 <= ln <= len(lens) and 1 <= col <= lens[ln - 1] + 1
        if impl.startswith("ok ") and impl.count(" ") == 1:
            try:
                parse_dump(impl[3:])
                return True
            except DumpError:
                return False
        return False
    return False


reference.eq = ref_eq
reference.uses_impl = True


# ---- generators -----------------------------------------------------------------------------------
ALPHA12 = [b'"', b"\\", b"/", b"u", b"{", b"[", b",", b":", b"1", b"n", b"\n", b"*"]
ALPHA18 = ALPHA12 + [b"}", b"]", b"-", b"\r", b"t", b" "]

CORPUS_SEED = [
    # the four repaired defects of Json.cpp (each fails on the unrepaired sources)
    ["parse " + hx(b'"\\'), "parse " + hx(b'{"k":"\\'), "parse " + hx(b'["a\\')],                    # read past the terminator
    ["rt s610a62", "tostr s610a62", "tostr s01", "rt {610a:s0d}"],                                   # control characters do not round-trip
    ["strip " + hx(b"/** x */1"), "strip " + hx(b"/***/1"), "strip " + hx(b"/* * */[1]")],        # '*' inside a block comment leaks
    ["strip " + hx(b'"a\\nb // x"'), "strip " + hx(b'"\\\\" // c'), "strip " + hx(b'"x\\\\" /* c */ 1')],  # escape leaves string mode
]

SPECIAL_DOCS = [
    b'"a\\"b\\\\"', b'"\\u00e9\\ud83d\\ude00\\udc00"', b"[true,false,null]", b'{"k":"v\\\\","k2":[]}', b'"\\ud800\\u0041"',
    b"[1.5e3,-0,12345678901,-2147483649]", b'{"a":[1,{"b":null}],"c":"x"}', b'"\\x\\', b" \r\n[\r1,\n2]\r\n",
    b'{"a":1,"a":2,"b":3}', b'["\\/\\b\\f\\n\\r\\t"]', b'"\xc3\xa9\xe2\x82\xac\xf0\x9f\x98\x80"', b"[1,]", b'{"a":1,}',
    b'"a\rb\r\nc\nd"x', b"[1 2]", b"nullx", b"truefalse", b"-", b"1e5", b"[[[[]]]]", b'{"":{"":{}}}', b'"\\uD83D\\uDE00\\u00"',
    b"// c\n[1, /* x */ 2]\r\n", b'["//", "/*", "*/"] // t', b'{"a": /** d */ "b\\"//"}',
]

STR_PLAIN = b"abcXYZ 019_-.:,{}[]+eE"
WS_STRICT = [b"", b"", b"", b" ", b"\n", b"\r\n", b"\r", b"\t", b"  ", b"\n\n", b" \r\n\t"]
WS_LENIENT = WS_STRICT + [b"\x0b", b"\x0c"]
COMMENTS = [b"// c\n", b"// c\r\n", b"//\r", b"/* c */", b"/** x */", b"/***/", b"/**/", b"/*/ */", b"/* * / */",
            b'// "q" \n', b'/* " */', b"/* a\nb\r\nc */", b"// /* \n", b"/* // */", b"/* \\ */", b'// \\"\n', b"/* ** **/",
            b"//\n//\n", b"/*\r*/"]


def _uesc(rng, cp):
    s = "\\u%04x" % cp
    return (s.upper().replace("\\U", "\\u") if rng.random() < 0.3 else s).encode()


def gen_string_token(rng, strict):
    n = rng.choice([0, 1, 1, 2, 3, 5, 8])
    parts = []
    for _ in range(n):
        k = rng.random()
        if k < 0.30:
            parts.append(bytes(rng.choice(STR_PLAIN) for _ in range(rng.randrange(1, 5))))
        elif k < 0.42:
            parts.append(rng.choice([b'\\"', b"\\\\", b"\\/", b"\\b", b"\\f", b"\\n", b"\\r", b"\\t"]))
        elif k < 0.52:
            cp = rng.choice([0, 1, 8, 9, 10, 13, 0x1f, 0x22, 0x5c, 0x41, 0x7f, 0x80, 0x7ff, 0x800, 0xd7ff, 0xe000, 0xffff,
                             rng.randrange(0, 0xd800), rng.randrange(0xe000, 0x10000)])
            parts.append(_uesc(rng, cp))
        elif k < 0.58:
            parts.append(_uesc(rng, rng.randrange(0xd800, 0xdc00)) + _uesc(rng, rng.randrange(0xdc00, 0xe000)))
        elif k < 0.61:
            parts.append(_uesc(rng, rng.randrange(0xdc00, 0xe000)))
        elif k < 0.70:
            parts.append(chr(rng.choice([0x80, 0xe9, 0x7ff, 0x800, 0x20ac, 0xffff, 0x10000, 0x1f600, 0x10ffff,
                                         rng.randrange(0x80, 0xd800)])).encode("utf-8"))
        elif k < 0.78:
            parts.append(rng.choice([b"//", b"/*", b"*/", b"/** x */", b"// x", b"/", b"*", b"/*/"]))
        elif k < 0.84:
            parts.append(rng.choice([b'\\\\\\"', b"\\\\", b'\\"\\"', b"\\\\\\\\", b"\\\\u0041", b'\\"//']))
        elif k < 0.86:
            parts.append(b"\x7f")
        elif not strict:
            j = rng.random()
            if j < 0.35:
                parts.append(rng.choice([b"\n", b"\r", b"\r\n", b"\t", b"\x01", b"\x1f", b"\x08", b"\n\r", b"\r\r\n"]))
            elif j < 0.55:
                parts.append(rng.choice([b"\\x", b"\\a", b"\\0", b"\\\n", b"\\\r\n", b"\\U0041", b"\\ ", b"\\'"]))
            elif j < 0.75:
                parts.append(rng.choice([b"\\ud800", b"\\ud800\\u0041", b"\\udbffx", b"\\ud800\\ud800", b"\\ud83d\\n",
                                         b"\\u12", b"\\u12g4", b"\\ud83d\\ude0", b"\\uD800\\"]))
            else:
                parts.append(rng.choice([b"\x80", b"\xff", b"\xc3", b"\xed\xa0\x80", b"\xc0\xaf", b"\xf8"]))
        else:
            parts.append(b"z")
    return b'"' + b"".join(parts) + b'"'


def gen_number_token(rng, strict):
    k = rng.random()
    if k < 0.30:
        return str(rng.randrange(-20, 1000)).encode()
    if k < 0.42:
        return str(rng.choice([1, -1]) * (2 ** 31 + rng.randrange(-2, 2))).encode()
    if k < 0.52:
        return str(rng.choice([1, -1]) * (2 ** 63 + rng.randrange(-2, 2))).encode()
    if k < 0.58:
        return (rng.choice(["", "-"]) + str(rng.randrange(1, 10)) + "".join(str(rng.randrange(10)) for _ in range(rng.randrange(19, 26)))).encode()
    if k < 0.66:
        return str(rng.randrange(-2 ** 63, 2 ** 63)).encode()
    if k < 0.80:
        return rng.choice([b"1.5", b"-0.0", b"3.25e+10", b"0.1E-2", b"123.456", b"-1.0e5", b"0.0", b"9.9e999", b"2.5E3"])
    if k < 0.86:
        return rng.choice([b"1e5", b"2E+3", b"-1e-2", b"0e0", b"10E1"])
    if k < 0.92 or strict:
        return rng.choice([b"-0", b"0", b"-1", b"2147483647", b"-2147483648", b"2147483648", b"9223372036854775807", b"-9223372036854775808"])
    return rng.choice([b"007", b"-", b"1.", b"1-2", b"--1", b"1e", b"1.2.3", b"+1", b".5", b"-e", b"1e+", b"0x10", b"1E.5", b"-.", b"00"])


def gen_literal_token(rng, strict):
    if strict or rng.random() < 0.6:
        return rng.choice([b"true", b"false", b"null"])
    return rng.choice([b"tru", b"nul", b"True", b"nulll", b"NaN", b"Infinity", b"-Infinity", b"fals", b"truee", b"n", b"t", b"f", b"nullnull"])


def gen_tokens(rng, strict, depth, out):
    """token list of one JSON value"""
    k = rng.random()
    if depth <= 0:
        k = 0.45 + k * 0.55
    if k < 0.22:
        out.append(b"{")
        n = rng.choice([0, 1, 1, 2, 3, 4])
        for i in range(n):
            if i and not (not strict and rng.random() < 0.04):
                out.append(b",")
            out.append(gen_string_token(rng, strict) if strict or rng.random() < 0.95 else gen_literal_token(rng, False))
            if strict or rng.random() < 0.96:
                out.append(b":")
            gen_tokens(rng, strict, depth - 1, out)
        if n and not strict and rng.random() < 0.05:
            out.append(b",")
        out.append(b"}" if strict or rng.random() < 0.97 else b"]")
    elif k < 0.45:
        out.append(b"[")
        n = rng.choice([0, 1, 1, 2, 3, 5])
        for i in range(n):
            if i and not (not strict and rng.random() < 0.04):
                out.append(b",")
            gen_tokens(rng, strict, depth - 1, out)
        if n and not strict and rng.random() < 0.05:
            out.append(b",")
        if strict or rng.random() < 0.97:
            out.append(b"]")
    elif k < 0.70:
        out.append(gen_string_token(rng, strict))
    elif k < 0.88:
        out.append(gen_number_token(rng, strict))
    else:
        out.append(gen_literal_token(rng, strict))


def gen_doc_tokens(rng, strict):
    out = []
    depth = rng.choice([0, 1, 2, 3, 4, 5])
    if depth and rng.random() < 0.7:        # mostly containers at the top
        inner = []
        n = rng.choice([1, 1, 2, 3, 4])
        obj = rng.random() < 0.5
        for i in range(n):
            if i:
                inner.append(b",")
            if obj:
                inner += [gen_string_token(rng, strict), b":"]
            gen_tokens(rng, strict, depth - 1, inner)
        out += [b"{" if obj else b"["] + inner + [b"}" if obj else b"]"]
    else:
        gen_tokens(rng, strict, depth, out)
    if not strict and rng.random() < 0.15:
        out.append(rng.choice([b"x", b"]", b"}", b",", b"1", b'"', b"null", b"[", b"\\", b"/", b"tru"]))
    return out


def render(rng, toks, ws, comments=False):
    parts = [rng.choice(ws) if rng.random() < 0.5 else b""]
    for t in toks:
        parts.append(t)
        if rng.random() < 0.5:
            parts.append(rng.choice(ws))
        if comments and rng.random() < 0.3:
            parts.append(rng.choice(COMMENTS))
            if rng.random() < 0.5:
                parts.append(rng.choice(ws))
    return b"".join(parts)


def dup_keys(rng, toks):
    """rarely: make two keys of an object equal (the last value wins, first position kept)"""
    keys = [i for i in range(1, len(toks) - 1) if toks[i + 1] == b":" and toks[i].startswith(b'"')]
    if len(keys) >= 2:
        a, b = rng.sample(keys, 2)
        toks[b] = toks[a]
    return toks


def gen_documents(rng, n):
    """-> list of (plain text, commented text)"""
    docs = []
    for _ in range(n):
        strict = rng.random() < 0.75
        toks = gen_doc_tokens(rng, strict)
        if rng.random() < 0.03:
            toks = dup_keys(rng, toks)
        ws = [b""] if rng.random() < 0.3 else (WS_STRICT if strict else WS_LENIENT)
        docs.append((render(rng, toks, ws), render(rng, toks, ws, comments=True)))
    return docs


def mutate(rng, doc):
    b = bytearray(doc)
    for _ in range(rng.choice([1, 1, 1, 2, 3])):
        k = rng.random()
        r = rng.random()
        if r < 0.55:
            nb = rng.choice(ALPHA18)[0]
        elif r < 0.70:
            nb = rng.choice([0, 0x80, 0xff, 0xc3, 0xed, 0xf0, 0x7f, 0x1f, 0x0b])
        else:
            nb = rng.randrange(256)
        if k < 0.30 and b:
            del b[rng.randrange(len(b) + 1):]
        elif k < 0.55 and b:
            b[rng.randrange(len(b))] = nb
        elif k < 0.80:
            b.insert(rng.randrange(len(b) + 1), nb)
        elif b:
            del b[rng.randrange(len(b))]
    return bytes(b)


def prefixes(doc):
    return [doc[:i] for i in range(len(doc) + 1)]


STRIP_ALPHA = [b"/", b"/", b"*", b"*", b'"', b"\\", b"\n", b"\r", b"a", b" ", b"//", b"/*", b"*/", b'\\"', b"\r\n", b"\\\\"]


def gen_strip_fuzz(rng):
    return b"".join(rng.choice(STRIP_ALPHA) for _ in range(rng.randrange(3, 15)))


PARSE_ALPHA = ALPHA18 + [b"\\u", b"00", b"d8", b"dc", b'\\"', b"true", b"null", b"false", b"\r\n", b"e", b".", b"0", b"a", b"\t",
                         b"\\\\", b'"a"', b'":', b"[]", b"{}", b"\x00", b"\xc3\xa9", b"\x80"]


def gen_parse_fuzz(rng):
    return b"".join(rng.choice(PARSE_ALPHA) for _ in range(rng.randrange(3, 12)))


# ---- value trees for tostr / rt ----
STR_PIECES = ([b'"', b"\\", b"/", b"\x7f", b"\\u0041", b"\\n", b'\\"', b"a", b"b", b"key", b" ", b"\xc3\xa9", b"\xe2\x82\xac",
               b"\xf0\x9f\x98\x80", b"\xf4\x8f\xbf\xbf", b"\xed\xb0\x80", b"//", b"/*", b"*/", b"\r\n", b"{", b"]", b":", b",",
               b"\\\\", b"\\", b'"', b"\\u", b"\\ud800", b"null", b"1"]
              + [bytes([c]) for c in range(1, 0x20)])
STR_RAW = [b"\x80", b"\xff", b"\xc3", b"\xe2\x82", b"\xc0\xaf"]


def gen_bytes(rng, nul=False):
    k = rng.random()
    if k < 0.12:
        s = b""
    elif k < 0.30:
        s = rng.choice(STR_PIECES)
    else:
        s = b"".join(rng.choice(STR_PIECES) if rng.random() < 0.93 else rng.choice(STR_RAW) for _ in range(rng.randrange(1, 7)))
    if nul and rng.random() < 0.5:
        p = rng.randrange(len(s) + 1)
        s = s[:p] + b"\0" + s[p:]
    return s


def gen_tree(rng, depth, nul=False):
    k = rng.random()
    if depth <= 0:
        k = k * 0.66
    if k < 0.06:
        return ("n",)
    if k < 0.12:
        return (rng.choice("tf"),)
    if k < 0.24:
        return ("i", rng.choice([0, 1, -1, I32[0], I32[1], rng.randrange(I32[0], I32[1] + 1), rng.randrange(-100, 100)]))
    if k < 0.38:
        return ("l", rng.choice([I64[0], I64[1], I32[0] - 1, I32[1] + 1, I32[0], I32[1], 0, -1, 7, rng.randrange(I64[0], I64[1] + 1),
                                 rng.randrange(I32[0], I32[1] + 1), rng.randrange(-1000, 1000), 10 ** 18, -10 ** 18]))
    if k < 0.66:
        return ("s", gen_bytes(rng, nul))
    if k < 0.83:
        return ("[", [gen_tree(rng, depth - 1, nul) for _ in range(rng.choice([0, 1, 1, 2, 3, 5]))])
    d = {}
    for _ in range(rng.choice([0, 1, 1, 2, 3, 5])):
        d[gen_bytes(rng, nul)] = gen_tree(rng, depth - 1, nul)      # unique keys by construction
    return ("{", list(d.items()))


def gen_tree_ext(rng, depth):
    """trees for tostr only: the remaining Variant kinds (uint, uint64, Array<Variant>) mixed into ordinary trees"""
    k = rng.random()
    if depth <= 0:
        k = k * 0.6
    if k < 0.2:
        return ("u", rng.choice([0, 1, U32[1], I32[1], I32[1] + 1, rng.randrange(U32[1] + 1)]))
    if k < 0.4:
        return ("U", rng.choice([0, 7, U64[1], I64[1], I64[1] + 1, U32[1] + 1, rng.randrange(U64[1] + 1)]))
    if k < 0.6:
        return gen_tree(rng, 0)
    if k < 0.8:
        return ("<", [gen_tree_ext(rng, depth - 1) for _ in range(rng.choice([0, 1, 2, 3]))])
    if k < 0.9:
        return ("[", [gen_tree_ext(rng, depth - 1) for _ in range(rng.choice([0, 1, 2]))])
    d = {}
    for _ in range(rng.choice([1, 2])):
        d[gen_bytes(rng)] = gen_tree_ext(rng, depth - 1)
    return ("{", list(d.items()))


DOUBLE_TEXTS = [b"1.5", b"-0.0", b"0", b"3.25e+10", b"1e300", b"-1e-300", b"123456789.123456789", b"0.0000001", b"-2.5E3", b"1e22",
                b"9007199254740993", b"", b"x", b"1e308", b"-1e308"]     # finite values only: the model does not know inf/nan


def nest_list(n, inner="n"):
    return "[" * n + inner + "]" * n


def deep_histories():
    a1000 = b"[" * 1000
    return [
        ["parse " + hx(a1000 + b"]" * 1000), "parse " + hx(a1000)],
        ["parse " + hx(b'{"a":' * 1000 + b"1" + b"}" * 1000), "parse " + hx(b'{"a":' * 1000)],
        ["parse " + hx(a1000 + b"]" * 999), "parse " + hx(b" [\n" * 700 + b"]" * 650)],
        ["rt " + nest_list(1000, ""), "rt " + nest_list(999, "s0a")],
        ["rt " + "{61:" * 300 + "n" + "}" * 300, "rt " + "{0a:[" * 150 + "i1" + "]}" * 150],
        ["tostr " + nest_list(60, "i-1"), "tostr " + "{5c:[" * 25 + "s22" + "]}" * 25],
        ["strip " + hx(b"/*" * 500 + b"*/" * 500 + b"1"), "strip " + hx(b'"' * 999 + b"//x"), "strip " + hx(b"//\n" * 2000)],
    ]


BAD_OPS = ["rt u1", "rt <i1>", "rt [U5]", "tostr u4294967296", "tostr U18446744073709551616", "tostr u01", "tostr u-1", "tostr <i1",
           "tostr <i1]", "tostr D", "tostr D3", "rt D31", "tostr [D31]",
           "tostr i2147483648", "rt i-2147483649", "tostr l9223372036854775808", "rt l-9223372036854775809", "tostr d",
           "rt [d]", "frob 00", "parse", "parse 00 00", "rt [i1,,i2]", "tostr {61:}", "tostr [i1", "rt s6", "tostr x", "rt {61}"]


def group(lines, size):
    return [lines[i:i + size] for i in range(0, len(lines), size)]


def seed_histories(ctx):
    """past failures: corpus files + the built-in histories of the repaired defects (run one process per history)"""
    return C.load_corpus(ctx.prop) + [list(h) for h in CORPUS_SEED]


def histories_for(ctx):
    rng = ctx.rng
    quick = ctx.tier == "quick"
    counts = {}
    counts["corpus"] = len(C.load_corpus(ctx.prop))
    counts["corpus_seed"] = len(CORPUS_SEED)

    # 1. exhaustive small scope
    alpha, maxlen = (ALPHA18, 3) if quick else (ALPHA18, 4)
    ex = []
    nstrings = 0
    for n in range(0, maxlen + 1):
        for p in itertools.product(alpha, repeat=n):
            s = hx(b"".join(p))
            ex.append("parse " + s)
            ex.append("strip " + s)
            nstrings += 1
    scope = (f"parse and strip of all {nstrings} byte strings of length <= {maxlen} over the {len(alpha)}-symbol alphabet "
             + " ".join(repr(a)[2:-1] for a in alpha))
    if not quick:
        n5 = 0
        for p in itertools.product(ALPHA12, repeat=5):
            s = hx(b"".join(p))
            ex.append("parse " + s)
            ex.append("strip " + s)
            n5 += 1
        scope += f" and of all {n5} strings of length 5 over its first {len(ALPHA12)} symbols"
    ex_h = group(ex, 50)
    counts["exhaustive"] = len(ex)
    ctx.cov["exhaustive"] = True
    ctx.cov["exhaustive_scope"] = scope

    # 2. valid (and leniently invalid) documents, with comments for strip
    ndocs = 8000 if quick else 320000
    docs = gen_documents(rng, ndocs)
    lines = []
    for plain, commented in docs:
        lines.append("parse " + hx(plain))
        lines.append("strip " + hx(commented))
        if rng.random() < 0.3:
            lines.append("parse " + hx(commented))
        if rng.random() < 0.15:
            lines.append("strip " + hx(plain))
    lines += ["strip " + hx(gen_strip_fuzz(rng)) for _ in range(12000 if quick else 600000)]
    counts["documents"] = len(lines)
    doc_h = group([l for l in lines if len(l) < MAXLINE], 6)

    # 3. mutated / truncated documents
    lines = []
    for d in SPECIAL_DOCS:
        for p in prefixes(d):
            lines.append("parse " + hx(p))
            lines.append("strip " + hx(p))
    nmut = 20000 if quick else 1100000
    short = [d for d in docs if len(d[0]) <= 40]
    for plain, commented in rng.sample(short, min(len(short), 100 if quick else 1500)):
        lines += ["parse " + hx(p) for p in prefixes(plain)]
    for plain, commented in rng.sample(short, min(len(short), 40 if quick else 500)):
        lines += ["strip " + hx(p) for p in prefixes(commented)]
    for _ in range(nmut):
        plain, commented = rng.choice(docs)
        if rng.random() < 0.75:
            lines.append("parse " + hx(mutate(rng, plain)))
        else:
            lines.append("strip " + hx(mutate(rng, commented)))
    lines += ["parse " + hx(gen_parse_fuzz(rng)) for _ in range(10000 if quick else 550000)]
    counts["mutations"] = len(lines)
    mut_h = group([l for l in lines if len(l) < MAXLINE], 6)

    # 4. value trees
    lines = []
    for _ in range(8000 if quick else 320000):
        d = dump(gen_tree(rng, rng.choice([0, 1, 2, 3, 4, 5, 6])))
        lines.append("tostr " + d)
        lines.append("rt " + d)
    for _ in range(300 if quick else 5000):
        d = dump(gen_tree(rng, rng.choice([0, 1, 2, 3]), nul=True))
        lines.append("tostr " + d)
        lines.append("rt " + d)
    for _ in range(600 if quick else 20000):
        lines.append("tostr " + dump(gen_tree_ext(rng, rng.choice([0, 1, 2, 3]))))
    lines += ["tostr D" + hx(t) for t in DOUBLE_TEXTS]
    lines += ["tostr D" + hx(("%s%d.%d" % (rng.choice(["", "-"]), rng.randrange(10 ** rng.randrange(1, 30)), rng.randrange(1000))).encode())
              for _ in range(100 if quick else 3000)]
    # parse into a Variant that already holds a value (list / map: appended to; anything else: replaced)
    into = []
    into_docs = [b"[]", b"[1,2]", b"{}", b'{"a":1}', b'{"a":1,"b":[true],"a":null}', b"7", b'"x"', b"null", b"[1,", b'{"a"', b"x",
                 b'[{"k":[]}]', b' [\n"\\u00e9"] ']
    for _ in range(500 if quick else 20000):
        init = gen_tree(rng, rng.choice([0, 1, 1, 2]))
        if rng.random() < 0.5:
            init = rng.choice([("[", [gen_tree(rng, 1) for _ in range(rng.choice([0, 1, 2, 3]))]),
                               ("{", list({rng.choice([b"a", b"b", b"k", b""]): gen_tree(rng, 0) for _ in range(rng.choice([0, 1, 2, 3]))}.items()))])
        doc = rng.choice(into_docs) if rng.random() < 0.5 else rng.choice(docs)[0]
        if len(doc) < 4000:
            into.append("parseinto " + dump(init) + " " + hx(doc))
    into += ["parseinto [i1 00", "parseinto x 5b5d", "parseinto [i1] 5b5d", "parseinto {61:i1} " + hx(b'{"b":2,"a":3}')]
    counts["parse_into"] = len(into)
    lines += into
    lines += BAD_OPS
    counts["trees"] = len(lines)
    tree_h = group([l for l in lines if len(l) < MAXLINE], 4)
    deep = deep_histories()
    counts["deep"] = sum(len(h) for h in deep)

    ctx.cov["branch_hits"] = branch_hits(deep + ex_h + doc_h + mut_h + tree_h)
    ctx.cov["rule"] = (
        f"corpus ({counts['corpus']} files) + {counts['corpus_seed']} built-in histories of the repaired defects (one process each); exhaustive: {scope} "
        f"({counts['exhaustive']} op lines); {ndocs} generated documents (75% valid JSON with every escape kind, surrogate pairs, raw UTF-8, "
        f"numbers around the int32/int64 borders, CR/LF/CRLF/tab white space; 25% with nstd leniencies and syntax errors), each parsed, and "
        f"stripped with comments sprinkled between the tokens, plus random strings over a comment/string/escape alphabet for strip "
        f"({counts['documents']} op lines); all prefixes of {len(SPECIAL_DOCS)} special and of sampled short documents, byte flips/insertions/deletions/truncations "
        f"of documents, random token soup ({counts['mutations']} op lines); tostr+rt of type-directed random Variant trees of depth <= 6 over strings of quotes, "
        f"backslashes, all control characters, UTF-8, invalid UTF-8, a low-weight stream with embedded NUL (no reference claim) and malformed dumps "
        f"({counts['trees']} op lines); {counts['deep']} deep documents (1000-deep arrays/objects, truncated, 300-deep map). "
        "distinct_nontrivial = distinct histories by (op kind, observation) of their accepted parses, non-empty strips, tostr and rt lines")
    ctx.cov["generator_counts"] = counts
    ctx.cov["samples"] = [" ; ".join(x[:160] for x in h[:3]) for h in
                          (doc_h[:2] + mut_h[-2:] + tree_h[:2] + ex_h[len(ex_h) // 2: len(ex_h) // 2 + 1] + deep[3:4])]
    return deep + ex_h + doc_h + mut_h + tree_h


_BRANCHES = [
    ("string: two-character escape", re.compile(rb'\\["\\/bfnrt]')),
    ("string: \\u BMP escape", re.compile(rb"\\u(?![dD][89a-fA-F])[0-9a-fA-F]{4}")),
    ("string: surrogate pair", re.compile(rb"\\u[dD][89abAB][0-9a-fA-F]{2}\\u[dD][c-fC-F][0-9a-fA-F]{2}")),
    ("string: lone low surrogate", re.compile(rb"(?<![0-9a-fA-F]{4})\\u[dD][c-fC-F][0-9a-fA-F]{2}")),
    ("string: high surrogate without low (rejected)", re.compile(rb"\\u[dD][89abAB][0-9a-fA-F]{2}(?!\\u[dD][c-fC-F])")),
    ("string: \\u with a non-hex digit", re.compile(rb"\\u[0-9a-fA-F]{0,3}[^0-9a-fA-F]")),
    ("string: unknown escape", re.compile(rb'\\[^"\\/bfnrtu]')),
    ("string: raw CR/LF/control character", re.compile(rb'"[^"\\]*[\x01-\x1f]')),
    ("number: with decimal point (double)", re.compile(rb"[0-9]\.[0-9]")),
    ("number: exponent without decimal point", re.compile(rb"(?<![.0-9a-zA-Z])-?[0-9]+[eE][-+]?[0-9]")),
    ("number: 10 or 11 digits (int / int64 border)", re.compile(rb"(?<![0-9.])[0-9]{10,11}(?![0-9.])")),
    ("number: 19 or more digits (int64 border / saturation)", re.compile(rb"(?<![0-9.])[0-9]{19,}(?![0-9.])")),
    ("number: leading zero / malformed", re.compile(rb"(?<![0-9.eE])0[0-9]|--|[0-9]-[0-9]|[0-9]\.[0-9]+\.")),
    ("white space: vertical tab / form feed", re.compile(rb"[\x0b\x0c]")),
    ("white space: CR LF / lone CR", re.compile(rb"\r")),
    ("trailing comma", re.compile(rb",\s*[\]}]")),
    ("literal true/false/null", re.compile(rb"true|false|null")),
    ("nested container", re.compile(rb"[\[{]\s*[\[{]")),
]


def branch_hits(histories):
    """how many parse lines of this run contain the construct that drives a branch of the tokenizer / parser (a model branch
    the run never reaches would be a hole in the tie); plus the kinds of Variant serialised"""
    hits = {name: 0 for name, _ in _BRANCHES}
    kinds = {k: 0 for k in "ntfilsuU[<{D"}
    dup = 0
    for h in histories:
        for l in h:
            op, _, arg = l.partition(" ")
            if op == "parse" and _HEXTOK.fullmatch(arg):
                t = unhx(arg)
                for name, rx in _BRANCHES:
                    if rx.search(t):
                        hits[name] += 1
                keys = re.findall(rb'"([^"\\]*)"\s*:', t)
                if len(keys) != len(set(keys)):
                    dup += 1
            elif op in ("tostr", "rt"):
                for k in kinds:
                    if k in arg:
                        kinds[k] += 1
    hits["object with a repeated member name"] = dup
    hits["tostr/rt lines by Variant kind in the dump"] = kinds
    return hits


def nontrivial(h, out):
    keys = []
    for l, o in zip(h, out):
        k = l.split(" ", 1)[0]
        if k == "parse":
            if o.startswith("ok "):
                keys.append(k + o)
        elif k == "strip":
            if o != "-":
                keys.append(k + o)
        elif k in ("tostr", "rt", "parseinto") and o != "bad-op":
            keys.append(k + o)
    if not keys:
        return None
    return hashlib.sha1("\n".join(keys).encode()).hexdigest()


def setup():
    """tools/setup.py: regenerate lean/Nstd/Generated/JsonTables.lean before the Lean build"""
    ok, msg = gen_json.run()
    print(f"gen_json: {'ok' if ok else 'FAILED'} {msg}", flush=True)


def sources():
    return [HARNESS_SOURCES[0]] + [C.REPO / s for s in HARNESS_SOURCES[1:]]


def check(ctx):
    ctx.assumptions += [
        "texts are NUL-terminated byte strings; a text ends at its first NUL byte",
        "String, Variant, List and HashMap of libnstd behave as value types (insertion-ordered map with replace-on-repeat); allocation never fails",
        "doubles are opaque: the value of a number with a decimal point is not compared",
        "strings with an embedded NUL are outside the property (toString stops escaping at the NUL): implementation vs model only",
        "reference for accepted documents: CPython's json.loads (strict) on the UTF-8 decoded text; documents it rejects but nstd accepts "
        "(trailing commas, trailing text, raw control characters, unknown escapes, atoll numbers) are judged only by the model and by the position rule",
    ]
    # the harness comes first: the translator reads the escape tables off the running code (op `tables`)
    harness = C.build_harness(ctx, "json", sources())
    if harness is None:
        C.proof_stage(ctx, PROPS, [DRIVER], leanchecker=False)       # with the tables generated last
        return
    proof_ok = C.proof_stage(ctx, PROPS, [DRIVER], gen=gen_json.gen_with(harness), leanchecker=(ctx.tier == "thorough"))
    if not C.driver_path(DRIVER).exists():
        harness.unlink()
        return
    try:
        hs = histories_for(ctx)
        if not proof_ok:
            ctx.log("proof stage broken: searching harder for a failing input")
            rng = ctx.rng
            extra = []
            for plain, commented in gen_documents(rng, 20000):
                extra.append("parse " + hx(mutate(rng, plain)))
                extra.append("strip " + hx(mutate(rng, commented)))
            for _ in range(10000):
                extra.append("rt " + dump(gen_tree(rng, 4)))
            hs += group([l for l in extra if len(l) < MAXLINE], 6)
        seeds = seed_histories(ctx)
        ops = {}
        for h in seeds + hs:
            for l in h:
                k = l.split(" ", 1)[0]
                ops[k] = ops.get(k, 0) + 1
        ctx.cov["op_histogram"] = ops
        drv = C.driver_path(DRIVER)
        # past failures first, one process per history: a crash in one does not hide the others
        diffs0 = C.differential(ctx, harness, drv, seeds, reference, C.default_eq, nontrivial=nontrivial, chunk=1)
        C.report_diffs(ctx, diffs0, harness, drv, reference, C.default_eq, "json-corpus", max_reports=8)
        diffs = C.differential(ctx, harness, drv, hs, reference, C.default_eq, nontrivial=nontrivial)
        ctx.log(f"{len(seeds)} + {len(hs)} histories, {ctx.cov['evaluations']} op lines, {len(diffs0)} + {len(diffs)} disagreement(s)")
        C.report_diffs(ctx, diffs, harness, drv, reference, C.default_eq, "json-ops")
    finally:
        try:
            harness.unlink()
        except OSError:
            pass


def replay(ctx, path):
    h = C.parse_replay(path)
    harness = C.build_harness(ctx, "json", sources())
    gen_json.run(harness=harness)
    C.lake_build([DRIVER])
    diffs = C.differential(ctx, harness, C.driver_path(DRIVER), [h], reference, C.default_eq)
    for d in diffs:
        print(d.text())
        ctx.violation(f"replay: {d.kind}", d.text())
    harness.unlink()
