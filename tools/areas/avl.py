"""C01  Map and MultiMap stay sorted, complete and logarithmically deep."""
import bisect
import itertools
import re
import common as C
import gen_avl
from pathlib import Path

PROPERTIES = ["C01"]
MANIFEST = {
    "C01": {
        "technique": "Lean 4 proof (invariant + refinement of a model of Map/MultiMap with stored height/slope fields, early-exit flags, threaded prev/next list and free list to a sorted association list, by induction over reachable states; lookup cost <= 2*height and the Fibonacci height bound) + tie by translation: tools/gen_avl.py translates the pointer code of the current Map.hpp / MultiMap.hpp (rotations, find, count, clear, the complete private insert, insert(key,value), insert(position,key,value), the complete remove(it)) into Lean functions over a record-of-nodes heap on every run, and theorems prove that, run on any heap that represents a reachable model state, the translated code yields a heap that represents the model's step (every public operation except the copy loops) + differential correspondence model vs real Map.hpp/MultiMap.hpp with a comparison-counting key type and a white-box comparison of every stored field after every op",
        "text": "Theorems (lean/Nstd/Avl/Props.lean, PropsK.lean, PropsKSpec.lean, PropsIds.lean, PropsRot.lean, PropsComp.lean, PropsComp2.lean, PropsComp3.lean, PropsComp4.lean, PropsComp5.lean) over ALL operation histories of the Lean model, including hinted inserts at every position, removals by key/iterator, removeFront/Back, clear, copy construction and copy assignment (Map and MultiMap) and bulk insert between Maps: every reachable tree is an AVL-balanced search tree with correct stored height/slope, the prev/next list threads its in-order sequence (inv_reach, iter_reach, isEmpty_reach); every op takes a step of the sorted-(multi)map specification on contents, acceptance and returned value (refines_rel, refines_run_rel; MultiMap hinted insert relationally via Spec.HintPos); copies hold exactly the source's entries, a MultiMap copy keeps equal keys in order (copy_spec, copy_ctor_spec); MultiMap plain inserts are stable, count is exact; find needs <= 2*floor(1.4405*log2(n+2)) comparisons (find_cost_log), every other op at most 3 more (op_cost_log); items keep their identity unless an op removes exactly them (ids_stable_step); an insert that creates an item takes the head of the LIFO free list or the last slot of a fresh block of N items, never the address of a live item, and the first insert after remove(it) reuses exactly the removed address (alloc_lifo, insert_takes_free_head, remove_then_insert_reuses; N translated from the headers).  PropsK/PropsIds restate cost, height, order and identity for every strictly totally ordered key type; PropsKSpec states the refinement directly against a specification typed over K (G.refines_relK, G.refines_run_relK).  Tie by translation (the functions are regenerated from the CURRENT Map.hpp and MultiMap.hpp by tools/gen_avl.py on every run; ReprSt h s = heap h represents model state s: root holds the tree with every stored field, child and parent link, _begin.item / next / prev / the sentinel thread the list, _size, freeItem heads the free list chained through prev, block count): PropsRot - Item::updateHeightAndSlope, rotr, rotl, shiftr, shiftl, rebal are the model's upd/rotr/rotl/shiftr/shiftl/rebal (gen_*_eq_model), plus the pieces (descent, threading, upward loops, hint tests, head of remove).  PropsComp - ONE theorem per public operation, for every reachable state s and every heap that represents it: insert(key,value) incl. the complete private insert (descent, allocation from the free list or a fresh block, construction, linking, ++_size, first item / threading + upward loop with its early exit) = step s (insert k v) with exactly the model's key comparisons and the returned pointer at the returned position (gen_insert_plain_eq_model; gen_insert_private_{map,multi}_eq_model for the private insert started in any cell); insert(position,key,value) of Map and MultiMap = step s (insertAt p k v) (gen_insert_at_eq_model: neighbour tests, fall-back to the root, value replacement); find = step s (find k), MultiMap::count = step s (count k) (gen_find_eq_step, gen_count_eq_step).  PropsComp2 - clear() = step s clear (gen_clear_eq_step).  PropsComp3 / PropsComp5 - the complete remove(it) for EVERY item = step s (removeAt p) (gen_remove_eq_step): cell computation, the one-child paths, the two-children paths (successor iff left->height < right->height, neighbour adjacent or deeper, relinking, the rebalParent loop with its `parent = *cell` exit = the model's unconditional rebal(upd ...) of the replacement, item->next / item->prev = in-order neighbour), rebalParentUpwards, unlinking from the list, --_size, push onto the free list, returned iterator.  PropsComp4 / PropsComp5 - the one-line bodies, recognised by the shape of their syntax trees: contains = step s (contains k) (gen_contains_eq_step), removeFront / removeBack = step s removeFront / removeBack (gen_remove_front_eq_step, gen_remove_back_eq_step), remove(key) = step s (removeKey k) (gen_remove_key_eq_step).  The model is additionally tied to the current headers on every run: identical op lines are executed on both (two Maps and two MultiMaps) and compared on size, full iteration, returned iterator, key comparisons of every op (not of copy construction / assignment: the property bounds lookups only), for every key of the domain the find result and its comparison count, and (white-box, both tiers) the serialised tree with every stored height/slope and parent link, the prev/next list as item ids and the free list in order (a copy-constructed container is compared without item ids and free list from then on: how many items a copy constructor allocates at once is not part of the property); an independent Python sorted (multi)map and the direct integer evaluation of the comparison bound are evaluated on the implementation's output.",
        "note": "Trusted: Lean kernel + the three standard axioms; tools/gen_avl.py (tokenizer + parser + translation of a C++ subset: Item* = Nat with 0 = null and item id i at pointer i+1, Item*& / Item** = Cell, usize = Nat, ssize = Int, `usize - usize` stored into an ssize = mathematical difference, loops = recursion in a fuel argument (the theorems show height+1 resp. size+1 units suffice), ASSERTs and destructor calls skipped, the block allocation `new char[sizeof(ItemBlock) + sizeof(Item) * N]` + fill loop recognised as a unit = Heap.allocBlock (allocation never fails; the b-th block holds the pointers N*b+1..N*b+N), `new(item) Item(parent,key,value)` = the stores of the constructor's initialiser list, the threading statements / the upward loop / the loops of remove outlined into separately translated fragments cut from the same text, labels of remove as continuations; anything outside the subset is refused and reported as a broken tie); the hypothesis EndOutsideNextBlock of the insert theorems (the sentinel endItem, a member of the container, does not lie inside the block the pool allocates next).  NOT proved by translation, only hand-translated in the model and tied by the correspondence run incl. the white-box comparison: the copy loops of the copy constructor / operator= / insert(const Map&) (they run over a second container), the iterator accessors.  Pointers in the model are in-order positions / item ids (an iterator handed to insert/remove is the position it has in the iteration; the translated code receives the pointer of the item at that position); the checked model has Int keys, the key-generic copy ModelK.lean is proved equal to it at K = Int (G.int_instance); the items-per-block constant of the node pool is translated from the current headers on every run (Generated/AvlConst.lean) and the translated insertLeaf must use the same value (map_insertLeaf_eq / multi_insertLeaf_eq); valid iterators; self-assignment is C04's business.  The MultiMap.hpp copies of the rotation functions, of the upward loops, of the threading, of clear and of remove are proved equal to the Map.hpp ones (code_eq, multi_*).  The repaired MultiMap::find/count (fixes/avl/01,02) is what the model mirrors.",
        "design_ref": "DESIGN.md 3/C01",
    }
}
PROPS = ["Nstd.Avl.Props", "Nstd.Avl.PropsK", "Nstd.Avl.PropsIds", "Nstd.Avl.PropsRot", "Nstd.Avl.PropsKSpec", "Nstd.Avl.PropsComp", "Nstd.Avl.PropsComp2", "Nstd.Avl.PropsComp3", "Nstd.Avl.PropsComp4", "Nstd.Avl.PropsComp5"]
LEAN_TARGETS = PROPS + ["drv_avl"]
DRIVER = "drv_avl"

# ---- translator: pool constants of the current sources -> lean/Nstd/Generated/AvlConst.lean -------------------
GEN_OUT = C.LEAN / "Nstd" / "Generated" / "AvlConst.lean"
GEN_ROT = C.LEAN / "Nstd" / "Generated" / "AvlRot.lean"
HEADERS = {"Map": "include/nstd/Map.hpp", "Multi": "include/nstd/MultiMap.hpp"}


def _strip_cxx(src):
    src = re.sub(r"/\*.*?\*/", " ", src, flags=re.S)
    return re.sub(r"//[^\n]*", "", src)


def _resolve(tok, src):
    """integer value of a literal or of a constant named in the header (enum member / static const / #define)"""
    if re.fullmatch(r"\d+", tok):
        return int(tok)
    for rx in (r"enum\s*\w*\s*\{[^}]*\b" + tok + r"\s*=\s*(\d+)", r"static\s+const\s+\w+\s+" + tok + r"\s*=\s*(\d+)\s*;",
               r"#\s*define\s+" + tok + r"\s+(\d+)"):
        m = re.search(rx, src)
        if m:
            return int(m.group(1))
    return None


def read_constants(repo=None):
    """{'Map': items per block, 'Multi': ...}: the `N` of `new char[sizeof(ItemBlock) + sizeof(Item) * N]`; the loop that
    chains the new items onto the free list (`* end = i + N`) must use the same value."""
    repo = Path(repo or C.REPO)
    res = {}
    for tag, rel in HEADERS.items():
        src = _strip_cxx((repo / rel).read_text())
        al = re.findall(r"new\s+char\s*\[\s*sizeof\s*\(\s*ItemBlock\s*\)\s*\+\s*sizeof\s*\(\s*Item\s*\)\s*\*\s*(\w+)\s*\]", src)
        lp = re.findall(r"\*\s*end\s*=\s*i\s*\+\s*(\w+)\s*;", src)
        if len(al) != 1 or len(lp) != 1:
            raise ValueError(f"{rel}: block allocation {al} / fill loop bound {lp}: expected exactly one of each")
        a, l = _resolve(al[0], src), _resolve(lp[0], src)
        if a is None or l is None:
            raise ValueError(f"{rel}: cannot evaluate items per block ({al[0]} / {lp[0]})")
        if a != l:
            raise ValueError(f"{rel}: the block is allocated for {a} items but the free-list fill loop covers {l}")
        if a < 1:
            raise ValueError(f"{rel}: {a} items per block")
        res[tag] = a
    return res


def translate(repo=None):
    try:
        k = read_constants(repo)
    except (OSError, ValueError) as e:
        # the block size is not written at the `new char[...]` (e.g. a helper `allocItems(count)`): take the value the
        # translator finds at the allocation of the private insert
        try:
            gen_avl.BLOCK_SIZES.clear()
            gen_avl.generate(repo or C.REPO, GEN_ROT)
            k = {tag: gen_avl.BLOCK_SIZES[str(Path(repo or C.REPO) / rel)] for tag, rel in HEADERS.items()}
        except (gen_avl.Refuse, KeyError) as e2:
            return False, f"{e}; {e2}"
    text = ("/- generated by tools/areas/avl.py (translate) from include/nstd/{Map,MultiMap}.hpp - do not edit -/\n"
            "namespace Nstd.Generated.Avl\n\n"
            "/-- `new char[sizeof(ItemBlock) + sizeof(Item) * N]` and `end = i + N` in `Map::insert` -/\n"
            f"def itemsPerBlockMap : Nat := {k['Map']}\n"
            "/-- the same in `MultiMap::insert` -/\n"
            f"def itemsPerBlockMulti : Nat := {k['Multi']}\n\n"
            "end Nstd.Generated.Avl\n")
    GEN_OUT.parent.mkdir(parents=True, exist_ok=True)
    if not GEN_OUT.exists() or GEN_OUT.read_text() != text:
        GEN_OUT.write_text(text)
    # the pointer code (rotations, find, count, clear, insert, remove: see tools/gen_avl.py) -> Generated/AvlRot.lean
    try:
        rot = gen_avl.generate(repo or C.REPO, GEN_ROT)
    except gen_avl.Refuse as e:
        return False, f"code not translatable: {e}"
    return True, f"items per block Map:{k['Map']} MultiMap:{k['Multi']}; code: {rot}"


def gen(ctx):
    ok, msg = translate()
    if ctx is not None:
        ctx.cov.setdefault("translated", msg)
    return ok, msg


def setup():
    ok, msg = translate()
    if not ok:
        print("avl translate:", msg)


def ipb_flags():
    """compile flags that tell the harness the items-per-block constants (canonical item ids of `wb` lines)"""
    try:
        k = read_constants()
    except (OSError, ValueError):
        try:
            k = {tag: gen_avl.BLOCK_SIZES[str(Path(C.REPO) / rel)] for tag, rel in HEADERS.items()}
        except KeyError:
            return []
    return [f"-DAVL_IPB_MAP={k['Map']}", f"-DAVL_IPB_MULTI={k['Multi']}"]


# ---- the bound of the property, evaluated without floating point ----------------------------------
_bound = {}


def height_bound(n):
    """floor(1.4405 * log2(n + 2)) = the largest h with 2^(10000 h) <= (n+2)^14405"""
    r = _bound.get(n)
    if r is None:
        x = (n + 2) ** 14405
        r = (x.bit_length() - 1) // 10000
        _bound[n] = r
    return r


# ---- reference sorted (multi)map: the property's oracle, independent of the Lean model -----------
class Ref:
    def __init__(self, multi):
        self.multi = multi
        self.keys = []
        self.vals = []

    def size(self):
        return len(self.keys)

    def find(self, k):
        i = bisect.bisect_left(self.keys, k)
        return i if i < len(self.keys) and self.keys[i] == k else None

    def insert(self, k, v):
        if self.multi:
            i = bisect.bisect_right(self.keys, k)
        else:
            i = self.find(k)
            if i is not None:
                self.vals[i] = v
                return i
            i = bisect.bisect_left(self.keys, k)
        self.keys.insert(i, k)
        self.vals.insert(i, v)
        return i

    def insert_at(self, pos, k, v):
        self.keys.insert(pos, k)
        self.vals.insert(pos, v)
        return pos

    def hint_positions(self, p, k):
        """MultiMap::insert(position, k, v): the set of positions the new entry may take"""
        n = len(self.keys)
        plain = bisect.bisect_right(self.keys, k)
        if p == n:
            return [n] if n and k > self.keys[-1] else [plain]
        hk = self.keys[p]
        if k < hk:
            if p == 0 or k >= self.keys[p - 1]:
                return [p]
            return [plain]
        if p + 1 == n or k < self.keys[p + 1]:
            return [p + 1]
        if k == self.keys[p + 1]:
            # somewhere behind the hint inside the run of keys equal to k (depends on the tree shape)
            return list(range(p + 1, plain + 1))
        return [plain]

    def remove_at(self, p):
        del self.keys[p]
        del self.vals[p]


BRANCH = {}


def _hit(name):
    BRANCH[name] = BRANCH.get(name, 0) + 1


def _classify_hint(c, p, k):
    """which branch of insert(position, key, value) the op takes (evidence: branch_hits)"""
    n = len(c.keys)
    kind = "multi" if c.multi else "map"
    if p == n:
        _hit(f"{kind}:end-" + ("empty" if n == 0 else ("hit" if k > c.keys[-1] else "fallback")))
        return
    hk = c.keys[p]
    if k < hk:
        ok = p == 0 or (k >= c.keys[p - 1] if c.multi else k > c.keys[p - 1])
        _hit(f"{kind}:before-" + ("hit" if ok else "fallback"))
    elif c.multi or k > hk:
        if p + 1 == n:
            _hit(f"{kind}:after-hit-last")
        elif c.multi and k == c.keys[p + 1]:
            _hit(f"{kind}:after-hit-equal-run")
        else:
            ok = k <= c.keys[p + 1] if c.multi else k < c.keys[p + 1]
            _hit(f"{kind}:after-" + ("hit" if ok else "fallback"))
    else:
        _hit(f"{kind}:replace-at-hint")


def _parse_wb(txt):
    """in-order list of (height, left subtree or None, right subtree or None) from the white-box rendering
    `(left id/key:h:s^par right)` / `.`; a subtree is the tuple itself"""
    pos = 0
    order = []

    def node():
        nonlocal pos
        if txt[pos] == ".":
            pos += 1
            return None
        pos += 1                                   # (
        left = node()
        pos += 1                                   # space
        j = txt.index(" ", pos)
        h = int(txt[pos:j].split(":")[1])
        pos = j + 1
        me = [h, left, None]
        order.append(me)
        me[2] = node()
        pos += 1                                   # )
        return me

    try:
        node()
    except (ValueError, IndexError):
        return None
    return order


def _classify_remove(wb, p):
    """which path of remove(it) the removal of the item at in-order position p takes (evidence: branch_hits)"""
    if not wb:
        return
    tree = _parse_wb(wb.split(" ord", 1)[0])
    if tree is None or p >= len(tree):
        return
    h, left, right = tree[p]
    if left is None and right is None:
        _hit("remove:leaf")
    elif left is None:
        _hit("remove:right-child-only")
    elif right is None:
        _hit("remove:left-child-only")
    elif left[0] < right[0]:
        _hit("remove:two-children-successor-" + ("adjacent" if right[1] is None else "deeper"))
    else:
        _hit("remove:two-children-predecessor-" + ("adjacent" if left[2] is None else "deeper"))


def _ret_pos(line):
    m = re.match(r"it=(\d+) ", line or "")
    return int(m.group(1)) if m else None


def reference(hist, impl_out):
    cs = [Ref(False), Ref(True), Ref(False), Ref(True)]
    lo, hi, lvl = 0, -1, 2
    out = []
    last_wb = [None, None, None, None]             # white-box part of the implementation's last line per container

    def note_wb(ci, n):
        l = impl_out[n] if n < len(impl_out) and impl_out[n] else ""
        last_wb[ci] = l.split(" # ", 1)[1] if " # " in l else None

    for n, line in enumerate(hist):
        t = line.split()
        if t[0] == "dom":
            lo, hi = int(t[1]), int(t[2])
            out.append("ok")
            continue
        if t[0] == "obs":
            lvl = int(t[1])
            out.append("ok")
            continue
        ci = int(t[0])
        c = cs[ci]
        op = t[1]
        a = [int(x) for x in t[2:]]
        ret, cm = "-", "c=*"
        n0 = c.size()
        if op == "wb":
            out.append("*")          # white-box dump of the stored fields: implementation vs model only
            continue
        if op == "nop":
            pass
        elif op == "ins":
            ret = f"it={c.insert(a[0], a[1])}"
        elif op == "insat":
            p, k, v = a
            if p > n0:
                out.append("bad-op")
                continue
            _classify_hint(c, p, k)
            if not c.multi:
                ret = f"it={c.insert(k, v)}"
            else:
                allowed = c.hint_positions(p, k)
                got = _ret_pos(impl_out[n] if n < len(impl_out) else None)
                pos = got if got in allowed else allowed[0]
                ret = f"it={c.insert_at(pos, k, v)}"
        elif op == "rmkey":
            cm = f"c<={2 * height_bound(n0)}"
            i = c.find(a[0])
            if i is not None:
                _classify_remove(last_wb[ci], i)
                c.remove_at(i)
        elif op == "rmat":
            if a[0] >= n0:
                out.append("bad-op")
                continue
            _classify_remove(last_wb[ci], a[0])
            c.remove_at(a[0])
            ret = f"it={a[0]}"
        elif op in ("rmfront", "rmback"):
            if n0 == 0:
                out.append("bad-op")
                continue
            p = 0 if op == "rmfront" else n0 - 1
            _classify_remove(last_wb[ci], p)
            c.remove_at(p)
            ret = f"it={p}"
        elif op == "clear":
            c.keys, c.vals = [], []
        elif op == "find":
            cm = f"c<={2 * height_bound(n0)}"
            i = c.find(a[0])
            ret = f"it={n0 if i is None else i}"
        elif op == "has":
            cm = f"c<={2 * height_bound(n0)}"
            ret = f"b={0 if c.find(a[0]) is None else 1}"
        elif op == "count":
            if not c.multi:
                out.append("bad-op")
                continue
            ret = f"cnt={bisect.bisect_right(c.keys, a[0]) - bisect.bisect_left(c.keys, a[0])}"
        elif op in ("front", "back"):
            if n0 == 0:
                out.append("bad-op")
                continue
            ret = f"v={c.vals[0] if op == 'front' else c.vals[-1]}"
        elif op in ("assign", "insall", "copy"):
            j = a[0]
            if j == ci or j not in (0, 1, 2, 3) or (j & 1) != (ci & 1) or (op == "insall" and c.multi):
                out.append("bad-op")
                continue
            if op in ("assign", "copy"):
                c.keys, c.vals = list(cs[j].keys), list(cs[j].vals)
            else:
                for k, v in zip(list(cs[j].keys), list(cs[j].vals)):
                    c.insert(k, v)
        else:
            out.append("bad-op")
            continue
        note_wb(ci, n)
        s = f"{ret} {cm} n={c.size()}"
        if lvl >= 1:
            s += " |" + "".join(f" {k}:{v}" for k, v in zip(c.keys, c.vals))
        if lvl >= 2:
            b = 2 * height_bound(c.size())
            s += " |"
            for k in range(lo, hi + 1):
                i = c.find(k)
                s += f" {'e' if i is None else i}/<={b}"
        out.append(s)
    return out


def _tok_eq(i, r):
    if i == r:
        return True
    if r == "c=*":
        return re.fullmatch(r"c=(\d+|-)", i) is not None
    if r.startswith("c<="):
        m = re.fullmatch(r"c=(\d+)", i)
        return m is not None and int(m.group(1)) <= int(r[3:])
    if "/<=" in r:
        rp, rb = r.split("/<=")
        m = re.fullmatch(r"(\w+)/(\d+)", i)
        return m is not None and m.group(1) == rp and int(m.group(2)) <= int(rb)
    return False


def ref_eq(impl, ref):
    if ref == "*":
        return True
    impl = impl.split(" # ", 1)[0]       # white-box part of observation level 3: implementation vs model only
    ti, tr = impl.split(" "), ref.split(" ")
    return len(ti) == len(tr) and all(_tok_eq(a, b) for a, b in zip(ti, tr))


reference.eq = ref_eq
reference.uses_impl = True


# ---- generators -----------------------------------------------------------------------------------
def shapes_scope(nmax, nfull, rng=None, sample_n=None, nperms=0):
    """every insertion order of the keys 1,3,..,2n-1 (n <= nmax; this reaches every tree shape that
    plain inserts can build) followed by every single follow-up op: removal at every position / of
    every key, plain and hinted insert of every key (present keys and all gaps) at every iterator
    position; for n <= nfull additionally every pair of removals.  Both containers."""
    hs = []
    for c in (0, 1):
        for n in range(0, nmax + 1):
            keys = [2 * i + 1 for i in range(n)]
            perms = itertools.permutations(keys)
            if n == sample_n:
                perms = [tuple(rng.sample(keys, n)) for _ in range(nperms)]
            for perm in perms:
                pre = ["dom 0 %d" % (2 * n), "obs 0"] + [f"{c} ins {k} {10 + j}" for j, k in enumerate(perm)] + ["obs 3"]
                if c == 1 and n >= 2:
                    # multimap: make two keys equal so that runs of equal keys occur
                    pre = pre[:2] + [f"{c} ins {k if k != 2 * n - 1 else 1} {10 + j}" for j, k in enumerate(perm)] + ["obs 3"]
                fol = []
                for p in range(n):
                    fol.append([f"{c} rmat {p}"])
                for k in range(0, 2 * n + 1):
                    fol.append([f"{c} rmkey {k}"])
                    fol.append([f"{c} ins {k} 99"])
                    if c == 1:
                        fol.append([f"{c} count {k}"])
                    for p in range(n + 1):
                        fol.append([f"{c} insat {p} {k} 99"])
                # copy construction / assignment into the second container of the same kind (Map and MultiMap)
                fol += [[f"{c ^ 2} copy {c}"], [f"{c ^ 2} ins 4 1", f"{c ^ 2} ins 2 2", f"{c ^ 2} assign {c}"]]
                if c == 0:
                    fol.append([f"2 ins 4 1", f"2 ins 2 2", "2 insall 0"])
                if n:
                    fol += [[f"{c} rmfront"], [f"{c} rmback"], [f"{c} front"], [f"{c} back"], [f"{c} clear", f"{c} ins 4 1"]]
                if n <= nfull:
                    for p in range(n):
                        for q in range(n - 1):
                            fol.append([f"{c} rmat {p}", f"{c} rmat {q}"])
                        for k in range(0, 2 * n + 1):
                            fol.append([f"{c} rmat {p}", f"{c} ins {k} 98"])
                for f in fol:
                    hs.append(pre + f)
    return hs


def short_scope(depth):
    """all op sequences up to `depth` over keys {0,1,2} on one container (valid positions only),
    values = op index"""
    hs = []
    for c in (0, 1):
        def rec(prefix, size_hi):
            if prefix:
                hs.append(["dom -1 3", "obs 3"] + prefix)
            if len(prefix) == depth:
                return
            v = len(prefix) + 1
            ops = []
            for k in range(3):
                ops.append((f"{c} ins {k} {v}", 1))
                ops.append((f"{c} rmkey {k}", 0))
                for p in range(size_hi + 1):
                    ops.append((f"{c} insat {p} {k} {v}", 1))
            for p in range(size_hi):
                ops.append((f"{c} rmat {p}", 0))
            ops.append((f"{c} clear", 0))
            for op, grow in ops:
                rec(prefix + [op], size_hi + grow)
        rec([], 0)
    return hs


def gen_random(rng, length, nkeys, lvl=3, wb=False):
    """structured random history over the four containers; the generator tracks upper bounds of the
    sizes only (a position may still be out of range: both sides must then say bad-op)"""
    lo = rng.choice([-3, 0, 0, 1])
    h = [f"dom {lo - 1} {lo + nkeys}", f"obs {lvl}"]
    size = [0, 0, 0, 0]
    val = 0
    wts = rng.choice([(30, 25, 10, 10, 4, 4), (20, 15, 20, 20, 6, 6), (40, 30, 5, 5, 2, 2)])
    for _ in range(length):
        c = rng.choice([0, 0, 1, 1, 1, 2, 3])
        k = lo + rng.randrange(nkeys)
        val += 1
        r = rng.randrange(sum(wts) + 22)
        acc = 0
        kind = None
        for name, w in zip(("ins", "insat", "rmkey", "rmat", "rmfront", "rmback"), wts):
            acc += w
            if r < acc:
                kind = name
                break
        if kind == "ins":
            h.append(f"{c} ins {k} {val}"); size[c] += 1
        elif kind == "insat":
            p = rng.randrange(size[c] + 1) if rng.random() < 0.8 else rng.choice([0, size[c]])
            h.append(f"{c} insat {p} {k} {val}"); size[c] += 1
        elif kind == "rmkey":
            h.append(f"{c} rmkey {k}")
        elif kind == "rmat":
            if size[c]:
                h.append(f"{c} rmat {rng.randrange(size[c])}")
        elif kind in ("rmfront", "rmback"):
            h.append(f"{c} {kind}")
        else:
            r -= acc
            if r < 4: h.append(f"{c} find {k}")
            elif r < 7: h.append(f"{c} has {k}")
            elif r < 12: h.append(f"1 count {k}")
            elif r < 14: h.append(f"{c} front")
            elif r < 16: h.append(f"{c} back")
            elif r < 17: h.append(f"{c} clear"); size[c] = 0
            elif r < 19:
                h.append(f"{c} {rng.choice(['assign', 'assign', 'copy'])} {c ^ 2}"); size[c] = size[c ^ 2]
            elif r < 21:
                if c & 1:
                    h.append(f"{c} {rng.choice(['assign', 'copy'])} {c ^ 2}"); size[c] = size[c ^ 2]
                else:
                    h.append(f"{c} insall {c ^ 2}"); size[c] += size[c ^ 2]
            else:
                h.append(f"{c} wb" if wb else f"{c} nop")
    if wb:
        h += ["0 wb", "1 wb", "2 wb", "3 wb"]
    return h


def gen_big(rng, n, pattern, c):
    """long monotone / zig-zag / random runs for the height bound: no per-op dump, then a find of
    every k-th key and some removals, again followed by finds"""
    if pattern == "asc":
        keys = list(range(n))
    elif pattern == "desc":
        keys = list(range(n, 0, -1))
    elif pattern == "zigzag":
        keys = [(i // 2) if i % 2 == 0 else (n - i // 2) for i in range(n)]
    elif pattern == "hinted-asc":
        keys = list(range(n))
    else:
        keys = [rng.randrange(n) for _ in range(n)]
    h = ["obs 0"]
    for j, k in enumerate(keys):
        if pattern == "hinted-asc":
            h.append(f"{c} insat {j} {k} {j}")
        else:
            h.append(f"{c} ins {k} {j}")
    step = max(1, n // 64)
    probes = [f"{c} find {k}" for k in range(-1, n + 2, step)]
    h += probes
    for _ in range(n // 3):
        h.append(f"{c} rmkey {rng.randrange(n)}" if rng.random() < 0.5 else f"{c} rmat {rng.randrange(max(1, n // 2))}")
    h += probes
    h += ["obs 1", f"{c} nop"]
    return h


def nontrivial(h, out):
    """distinct = distinct (container kind, op-kind set, final observation) among histories that
    built a container of >= 3 entries"""
    if len(h) < 4 or not out:
        return None
    last = out[-1]
    m = re.search(r" n=(\d+)", last)
    if not m or int(m.group(1)) < 3:
        return None
    return (frozenset(" ".join(l.split()[:2]) for l in h if l[0].isdigit()), last[:400])


def histories_for(ctx):
    rng = ctx.rng
    quick = ctx.tier == "quick"
    hs = C.load_corpus(ctx.prop)
    ncorpus = len(hs)
    sh = short_scope(4 if quick else 5)
    shp = shapes_scope(5, 4) if quick else shapes_scope(7, 5, rng, sample_n=7, nperms=1500)
    rnd = []
    for _ in range(500 if quick else 12000):
        rnd.append(gen_random(rng, rng.choice([10, 20, 40, 80]), rng.choice([1, 2, 3, 5, 8, 12, 16]), wb=not quick))
    for _ in range(40 if quick else 600):
        rnd.append(gen_random(rng, 400, rng.choice([24, 40, 64]), wb=not quick))
    big = []
    sizes = [200, 1000] if quick else [500, 2000, 5000]
    for n in sizes:
        for pat in ("asc", "desc", "zigzag", "random", "hinted-asc"):
            for c in (0, 1):
                big.append(gen_big(rng, n, pat, c))
    ctx.cov["rule"] = (
        f"corpus ({ncorpus}) + exhaustive short scope: all op sequences (plain/hinted insert at every valid position, remove by key / "
        f"iterator, clear) of length <= {4 if quick else 5} over keys 0..2, Map and MultiMap ({len(sh)} histories) + exhaustive shape scope: "
        f"every insertion order of n <= {5 if quick else 6} keys{'' if quick else ' (and 1500 random orders of 7 keys)'} followed by every single removal / plain / hinted insert of every key at "
        f"every iterator position, count, front/back, copy construction / assignment into a second container, and every pair of follow-ups for n <= {4 if quick else 5} ({len(shp)} histories) + {len(rnd)} random histories of 10..400 ops over 1..64 keys on Map, MultiMap and a second "
        f"Map (copy, bulk insert) + {len(big)} ascending/descending/zig-zag/random/hinted runs of {sizes} keys with finds; "
        "distinct_nontrivial = distinct (op-kind set, final observation) among histories ending with >= 3 entries")
    ctx.cov["exhaustive"] = False
    ctx.cov["exhaustive_scope"] = f"short: {len(sh)} histories; shapes: {len(shp)} histories"
    rest = sh + shp + rnd + big
    rng.shuffle(rest)          # balance the parallel chunks
    return hs + rest


SOURCES = ["avl.cpp", C.REPO / "src/Memory.cpp"]


def check(ctx):
    ctx.assumptions += [
        "key comparison is a strict total order (theorems are stated for Int keys; the harness key type wraps int and counts every comparison)",
        "allocation never fails",
        "iterators handed to insert/remove belong to the container and are valid (the generators only produce positions 0..size)",
        "removeFront/removeBack/front/back are called on non-empty containers only (API precondition; harness and model reject them otherwise)",
        "self-assignment and self bulk insert are outside this property's generators (C04); copies are made between two different containers of the same kind",
    ]
    ctx.cov["open_statements"] = [
        "the copy loops (copy constructor, operator=, insert(const Map&)) run over a second container and are not translated: hand-translated in the model (St.assignFrom / St.insertAll), tied by the correspondence run; every insert they call is covered (gen_insert_plain_eq_model / gen_insert_at_eq_model)",
    ]
    proof_ok = C.proof_stage(ctx, PROPS, [DRIVER], gen=gen, leanchecker=(ctx.tier == "thorough"))
    harness = C.build_harness(ctx, "avl", SOURCES, extra_flags=ipb_flags())
    if harness is None or not C.driver_path(DRIVER).exists():
        return
    try:
        hs = histories_for(ctx)
        if not proof_ok:
            ctx.log("proof stage broken: searching harder for a failing input")
            hs += [gen_random(ctx.rng, 60, ctx.rng.choice([3, 6, 12])) for _ in range(3000)]
        ops = {}
        for h in hs:
            for l in h:
                t = l.split()
                key = t[1] if t[0].isdigit() else t[0]
                ops[key] = ops.get(key, 0) + 1
        ctx.cov["op_histogram"] = ops
        ctx.cov["samples"] = [" ; ".join(h)[:600] for h in (hs[len(hs) // 3: len(hs) // 3 + 2] + hs[len(hs) // 2: len(hs) // 2 + 2] + hs[-60:-58])]
        diffs = C.differential(ctx, harness, C.driver_path(DRIVER), hs, reference, C.default_eq, nontrivial=nontrivial, timeout=600)
        ctx.cov["branch_hits"] = dict(sorted(BRANCH.items()))
        ctx.log(f"{len(hs)} histories, {ctx.cov['evaluations']} op lines, {len(diffs)} disagreement(s)")
        diffs.sort(key=lambda d: (len(d.hist), d.idx))      # shrink the short disagreeing histories first (ddmin on a 1000-key run takes minutes)
        if diffs and all(d.kind == "impl-vs-model" for d in diffs):
            # the white-box part of a line disagrees before any public observable does: look for a concrete failing input
            # by running the disagreeing histories again without the white-box part (each history stops at its first difference)
            again = [[("obs 2" if l == "obs 3" else l) for l in d.hist] for d in diffs[:2500]]
            more = C.differential(ctx, harness, C.driver_path(DRIVER), again, reference, C.default_eq, timeout=600)
            conc = [d for d in more if d.kind != "impl-vs-model"]
            ctx.log(f"white-box disagreement first: {len(again)} histories re-run without it, {len(conc)} concrete failure(s)")
            conc.sort(key=lambda d: (len(d.hist), d.idx))
            diffs = conc + diffs
        C.report_diffs(ctx, diffs, harness, C.driver_path(DRIVER), reference, C.default_eq, "avl-ops")
    finally:
        try:
            harness.unlink()
        except OSError:
            pass


def replay(ctx, path):
    h = C.parse_replay(path)
    harness = C.build_harness(ctx, "avl", SOURCES, extra_flags=ipb_flags())
    C.lake_build([DRIVER])
    diffs = C.differential(ctx, harness, C.driver_path(DRIVER), [h], reference, C.default_eq)
    for d in diffs:
        print(d.text())
        ctx.violation(f"replay: {d.kind}", d.text())
    harness.unlink()
